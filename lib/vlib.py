"""Shared driver library for /verif checks: TLC runner, harness builder, evidence writer, verdicts.

Exit codes of a check: 0 = property held on everything explored (KNOWN-FINDING lines allowed),
1 = VIOLATION (line printed, replay file written), 2 = tool error / timeout (never a verdict).
"""
import json, os, re, subprocess, sys, time, shutil, hashlib

ROOT = os.path.dirname(os.path.dirname(os.path.abspath(__file__)))
SPEC = os.path.join(ROOT, "spec")
HARNESS = os.path.join(ROOT, "harness")
WORK = os.path.join(ROOT, "work")
EVID = os.path.join(ROOT, "evidence")
JAR = "/opt/veriftools/tla/tla2tools.jar:/opt/veriftools/tla/CommunityModules-deps.jar"
REPO = "/repo"


class ToolError(Exception):
    pass


class HarnessCrash(ToolError):
    """The harness process was killed by SIGSEGV / SIGABRT / SIGBUS / SIGILL / SIGFPE while it was driving the code under
    test: on the unchanged tree this never happens, so it is the code under test corrupting memory (double free, use after
    free, out-of-bounds slot ...) or aborting. bin/check reports it as a violation (key crash:<harness>:<mode>) unless the
    check module handles crashes itself (run_stimuli, h_pool / h_poolcb / h_alloc supervisors)."""

    def __init__(self, name, args, rc, stderr):
        ToolError.__init__(self, "harness %s %s was killed by signal %d\n%s" % (name, args, -rc, (stderr or "")[-2000:]))
        self.name, self.hargs, self.rc, self.stderr = name, [str(a) for a in args], rc, (stderr or "")[-2000:]


CRASH_SIGNALS = (-4, -6, -7, -8, -11)


def log(*a):
    print("[verif]", *a, file=sys.stderr, flush=True)


def workdir(pid, sub=None, clean=False):
    d = os.path.join(WORK, pid) if sub is None else os.path.join(WORK, pid, sub)
    if clean and os.path.isdir(d):
        shutil.rmtree(d, ignore_errors=True)
    os.makedirs(d, exist_ok=True)
    return d


# --------------------------------------------------------------------------------------------- TLC

class TlcResult:
    def __init__(self):
        self.rc = None
        self.out = ""
        self.generated = 0
        self.distinct = 0
        self.depth = 0
        self.violation = None      # None | "invariant X" | "deadlock" | "property" | "assumption" ...
        self.error = None          # tool-level error text
        self.prints = []           # PrintT'ed values (raw strings)
        self.coverage = {}         # action name -> (distinct, total)
        self.wall = 0.0
        self.cmd = ""
        self.cex = ""              # counterexample text

    def ok(self):
        return self.error is None and self.violation is None


_RE_STATES = re.compile(r"(\d+) states generated, (\d+) distinct states found")
_RE_DEPTH = re.compile(r"The depth of the complete state graph search is (\d+)")
_RE_COV = re.compile(r"^<(\w+) line \d+, col \d+ to line \d+, col \d+ of module (\w+)>: (\d+):(\d+)", re.M)


def tlc(spec_dir, module, cfg=None, workers=8, env=None, timeout=600, simulate=None, depth=None,
        coverage=False, xmx="6g", deque=False, metadir=None, extra=None, xss=None, seed=None, quiet=True,
        tool_props=None):
    """Run TLC on spec_dir/module.tla with spec_dir/cfg. Returns TlcResult. Never raises on a property
    violation; sets .error on tool failure/timeouts."""
    r = TlcResult()
    cfg = cfg or (module + ".cfg")
    metadir = metadir or os.path.join(WORK, "_tlc", "%s_%s_%d" % (module, os.path.basename(cfg), os.getpid()))
    os.makedirs(metadir, exist_ok=True)
    jvm = ["java", "-XX:+UseParallelGC", "-Xmx" + xmx]
    if xss:
        jvm.append("-Xss" + xss)
    if deque:
        jvm.append("-Dtlc2.tool.queue.IStateQueue=StateDeque")
    jvm.append("-DTLA-Library=" + os.path.join(SPEC, "lib"))
    for p in (tool_props or []):
        jvm.append("-D" + p)
    cmd = jvm + ["-cp", JAR, "tlc2.TLC", "-workers", str(workers), "-metadir", metadir, "-cleanup",
                 "-noGenerateSpecTE", "-config", cfg]
    if coverage:
        cmd += ["-coverage", "1"]
    if simulate is not None:
        cmd += ["-simulate", "num=%d" % simulate]
        if seed is not None:
            cmd += ["-seed", str(seed)]
    if depth is not None:
        cmd += ["-depth", str(depth)]
    cmd += (extra or [])
    cmd += [module + ".tla"]
    e = dict(os.environ)
    e.pop("JAVA_TOOL_OPTIONS", None)
    if env:
        e.update({k: str(v) for k, v in env.items()})
    r.cmd = " ".join(cmd)
    t0 = time.time()
    try:
        p = subprocess.run(cmd, cwd=spec_dir, env=e, stdout=subprocess.PIPE, stderr=subprocess.STDOUT,
                           timeout=timeout, text=True, errors="replace")
        r.rc = p.returncode
        r.out = p.stdout
    except subprocess.TimeoutExpired as ex:
        r.out = (ex.stdout or b"").decode("utf8", "replace") if isinstance(ex.stdout, bytes) else (ex.stdout or "")
        r.error = "timeout after %ds" % timeout
        r.rc = -1
    r.wall = time.time() - t0
    shutil.rmtree(metadir, ignore_errors=True)
    for m in _RE_STATES.finditer(r.out):
        r.generated, r.distinct = int(m.group(1)), int(m.group(2))
    m = _RE_DEPTH.search(r.out)
    if m:
        r.depth = int(m.group(1))
    for m in _RE_COV.finditer(r.out):
        r.coverage[m.group(1)] = (int(m.group(3)), int(m.group(4)))
    out = r.out
    if r.error is None:
        if "Error: Invariant" in out and "is violated" in out:
            m = re.search(r"Error: Invariant (\S+) is violated", out)
            r.violation = "invariant " + (m.group(1) if m else "?")
        elif "Error: Action property" in out:
            m = re.search(r"Error: Action property (\S+)", out)
            r.violation = "action-property " + (m.group(1) if m else "?")
        elif "Deadlock reached" in out:
            r.violation = "deadlock"
        elif "Temporal properties were violated" in out or re.search(r"Temporal property \S+ was violated", out):
            r.violation = "temporal"
        elif "Assumption" in out and "is false" in out:
            r.violation = "assumption"
        elif "The postcondition" in out and "false" in out or "Error: Postcondition" in out:
            r.violation = "postcondition"
        elif r.rc not in (0,):
            # evaluation error, parse error, ...
            r.error = "tlc rc=%s: %s" % (r.rc, _first_error(out))
        if r.violation:
            i = out.find("Error:")
            r.cex = out[i:i + 20000] if i >= 0 else ""
    if not quiet:
        log(r.cmd)
        log(out[-3000:])
    return r


def _first_error(out):
    i = out.find("Error")
    return out[i:i + 1500].strip() if i >= 0 else out[-1500:].strip()


def tlc_prints(out, marker):
    """Extract values printed via PrintT(<<marker, "json">>) or Print of marker-prefixed strings.
    We standardise on PrintT(marker \\o ToJson(x))-free form: lines of shape  <<"MARKER", "....json...">>"""
    res = []
    pref = '<<"%s", "' % marker
    for line in out.splitlines():
        if line.startswith(pref) and line.endswith('">>'):
            s = line[len(pref):-3]
            # TLC prints strings with \" and \\ escapes
            s = s.replace('\\"', '"').replace("\\\\", "\\")
            res.append(s)
    return res


def sany(spec_dir, module):
    p = subprocess.run(["java", "-cp", JAR, "tla2sany.SANY", module + ".tla"], cwd=spec_dir,
                       stdout=subprocess.PIPE, stderr=subprocess.STDOUT, text=True)
    ok = p.returncode == 0 and "Semantic errors" not in p.stdout and "***Parse Error***" not in p.stdout \
        and "Fatal errors" not in p.stdout
    return ok, p.stdout


# ----------------------------------------------------------------------------------------- harness

def cargo_build(pkgs=None, timeout=3000):
    """Incremental build of harness workspace (or given packages) against /repo's working tree."""
    cmd = ["cargo", "build", "--offline", "--quiet"]
    for p in (pkgs or []):
        cmd += ["-p", p]
    e = dict(os.environ)
    e["CARGO_NET_OFFLINE"] = "true"
    e.pop("RUSTFLAGS", None)   # rustflags come from harness/.cargo/config.toml (guard on)
    t0 = time.time()
    p = subprocess.run(cmd, cwd=HARNESS, env=e, stdout=subprocess.PIPE, stderr=subprocess.STDOUT, text=True,
                       timeout=timeout)
    if p.returncode != 0:
        raise ToolError("cargo build failed:\n" + p.stdout[-6000:])
    return time.time() - t0


def harness_bin(name):
    return os.path.join(HARNESS, "target", "debug", name)


def run_bin(name, args, timeout=600, env=None, stdin=None, check=True, cwd=None):
    e = dict(os.environ)
    if env:
        e.update({k: str(v) for k, v in env.items()})
    try:
        p = subprocess.run([harness_bin(name)] + [str(a) for a in args], env=e, input=stdin, cwd=cwd,
                           stdout=subprocess.PIPE, stderr=subprocess.PIPE, text=True, timeout=timeout,
                           errors="replace")
    except subprocess.TimeoutExpired:
        raise ToolError("harness %s %s timed out after %ds" % (name, args, timeout))
    if check and p.returncode in CRASH_SIGNALS:
        raise HarnessCrash(name, args, p.returncode, p.stderr)
    if check and p.returncode != 0:
        raise ToolError("harness %s %s failed rc=%s\n%s\n%s" % (name, args, p.returncode, p.stdout[-2000:],
                                                                 p.stderr[-4000:]))
    return p


def run_stimuli(name, mode, stim_path, out_path, extra=(), timeout=1800, env=None, max_crashes=40):
    """Crash-safe form of `h_<x> <mode> <stimuli.ndjson> <out.ndjson> [extra...]` for harnesses that write one
    {"ev":"reset","id":<stimulus id>} record when a stimulus starts and one {"ev":"end"} record when it is done (vrt::Tracer
    flushes at those records). If the process dies (signal, abort, non-zero exit) the code under test crashed: the
    complete runs recorded so far are kept, an {"ev":"abort"} record is appended after the reset of the run that crashed
    - the judges reject it - and the harness is restarted on the remaining stimuli. Returns (records, crashes)."""
    stims = read_ndjson(stim_path)
    out_all = []
    crashes = 0
    part = 0
    todo = stims
    t_end = time.time() + timeout
    while todo:
        sp = "%s.part%d" % (stim_path, part)
        op = "%s.part%d" % (out_path, part)
        write_ndjson(sp, todo)
        if os.path.exists(op):
            os.remove(op)
        left = max(30, t_end - time.time())
        p = run_bin(name, [mode, sp, op] + list(extra), timeout=left, env=env, check=False)
        recs = []
        if os.path.exists(op):
            with open(op, errors="replace") as f:
                for line in f:
                    line = line.strip()
                    if not line:
                        continue
                    try:
                        recs.append(json.loads(line))
                    except ValueError:
                        break           # torn last line of a crashed process
        if p.returncode == 0:
            out_all.extend(recs)
            break
        # crashed: which stimulus was running?
        crashes += 1
        last_reset = max((i for i, r in enumerate(recs) if r.get("ev") == "reset"), default=None)
        if last_reset is None:
            raise ToolError("harness %s %s died before it started the first stimulus rc=%s\n%s" % (
                name, mode, p.returncode, (p.stderr or "")[-3000:]))
        # drop what the crashed run logged after its reset (normally nothing: logs are written at the end of a run)
        closed = any(r.get("ev") == "end" for r in recs[last_reset:])
        rid = recs[last_reset].get("id")
        idx = next((i for i, s in enumerate(todo) if s.get("id") == rid), None)
        if closed or idx is None:
            # crashed between two runs (e.g. heap corruption noticed later): blame the last started run
            idx = idx if idx is not None else sum(1 for r in recs if r.get("ev") == "reset") - 1
            recs = recs[:last_reset + 1]
        else:
            recs = recs[:last_reset + 1]
        recs.append({"ev": "abort", "id": rid, "rc": p.returncode, "stderr": (p.stderr or "")[-300:]})
        recs.append({"ev": "end", "id": rid, "outcome": "crashed", "drift": 0, "panics": ["process died rc=%s" % p.returncode],
                     "pool_len": -1, "callbacks": 0, "steps": 0})
        out_all.extend(recs)
        log("harness %s %s: the code under test crashed the process (rc=%s) in stimulus id=%s; recorded as abort, continuing" % (
            name, mode, p.returncode, rid))
        if crashes >= max_crashes:
            log("too many crashes, the remaining %d stimuli are not run" % (len(todo) - idx - 1))
            break
        todo = todo[idx + 1:]
        part += 1
    write_ndjson(out_path, out_all)
    return out_all, crashes


# ----------------------------------------------------------------------------------------- verdict

class Run:
    """One check run: accumulates coverage, violations, known findings; writes evidence; exits."""

    def __init__(self, pid, tier, level="model_checking"):
        self.pid = pid
        self.tier = tier
        self.level = level
        self.seed = int(os.environ.get("VERIF_SEED", "20260923"))
        self.t0 = time.time()
        self.cov = {"states": 0, "transitions": 0, "traces_validated_against_impl": 0, "samples": [],
                    "evaluations": 0, "distinct_nontrivial": 0, "rule": "", "exhaustive": False,
                    "tlc_runs": [], "uncovered_actions": []}
        self.assumptions = []
        self.violations = []
        self.known_hits = []
        self.findings = [f for f in load_findings() if f.get("property") == pid]
        workdir(pid)

    # --- accounting
    def add_tlc(self, name, r, count_states=True):
        self.cov["tlc_runs"].append({"name": name, "generated": r.generated, "distinct": r.distinct,
                                     "depth": r.depth, "wall_s": round(r.wall, 2),
                                     "result": r.violation or r.error or "ok"})
        if count_states:
            self.cov["states"] += r.distinct
            self.cov["transitions"] += r.generated
        for a, (d, t) in r.coverage.items():
            if t == 0 and a not in ("Init",):
                self.cov["uncovered_actions"].append("%s:%s" % (name, a))

    def sample(self, x, cap=4):
        if len(self.cov["samples"]) < cap:
            self.cov["samples"].append(x)

    def assume(self, s):
        if s not in self.assumptions:
            self.assumptions.append(s)

    # --- verdicts
    def violation(self, key, what, replay_obj):
        """key identifies the failing scenario; if it matches a known finding it is reported as such."""
        for f in self.findings:
            if f.get("status") == "known" and _match(f, key):
                if f["key"] not in [k["key"] for k in self.known_hits]:
                    self.known_hits.append(f)
                return False
        d = workdir(self.pid, "replay")
        h = hashlib.sha1((key + json.dumps(replay_obj, sort_keys=True, default=str)).encode()).hexdigest()[:10]
        path = os.path.join(d, "%s_%s.json" % (self.pid, h))
        with open(path, "w") as f:
            json.dump({"property": self.pid, "key": key, "what": what, "tier": self.tier, "seed": self.seed,
                       "replay": replay_obj}, f, indent=1, default=str)
        self.violations.append((key, what, path))
        return True

    def finish(self):
        wall = time.time() - self.t0
        cov = dict(self.cov)
        if not cov["samples"]:
            cov["samples"] = ["(no sample recorded)"]
        cov["known_findings_reproduced"] = [f["key"] for f in self.known_hits]
        ev = {"property_id": self.pid, "tier": self.tier, "seed": self.seed, "level": self.level,
              "coverage": cov, "assumptions": self.assumptions, "wall_s": round(wall, 2),
              "violations": len(self.violations)}
        os.makedirs(EVID, exist_ok=True)
        with open(os.path.join(EVID, self.pid + ".json"), "w") as f:
            json.dump(ev, f, indent=1, default=str)
        for f in self.known_hits:
            print("KNOWN-FINDING: property=%s %s" % (self.pid, f["what"]), flush=True)
        seen = set()
        for key, what, path in self.violations:
            if key in seen:
                continue
            seen.add(key)
            log("violation:", key, "-", what)
            print("VIOLATION property=%s replay=%s" % (self.pid, path), flush=True)
        log("%s %s: states=%d transitions=%d traces=%d evals=%d wall=%.1fs violations=%d known=%d" % (
            self.pid, self.tier, cov["states"], cov["transitions"], cov["traces_validated_against_impl"],
            cov["evaluations"], wall, len(self.violations), len(self.known_hits)))
        return 1 if self.violations else 0


def _match(f, key):
    k = f.get("key", "")
    if f.get("match") == "prefix":
        return key.startswith(k)
    return key == k


def load_findings():
    p = os.path.join(ROOT, "known_findings.json")
    if not os.path.exists(p):
        return []
    with open(p) as f:
        return json.load(f).get("findings", [])


def read_ndjson(path):
    out = []
    with open(path) as f:
        for line in f:
            line = line.strip()
            if line:
                out.append(json.loads(line))
    return out


def write_ndjson(path, recs):
    with open(path, "w") as f:
        for r in recs:
            f.write(json.dumps(r, separators=(",", ":")) + "\n")


# ------------------------------------------------------------------------------- trace validation

def validate_trace(spec_dir, module, trace_path, cfg=None, timeout=900, xmx="4g", deque=True, env=None):
    """Run a Trace_*.tla over an ndjson trace. Returns (accepted: bool, rejects: [json], TlcResult).
    rejects holds REJECT records printed by stateless judges and/or the FIRST-UNMATCHED record."""
    e = {"TRACE": trace_path}
    if env:
        e.update(env)
    r = tlc(spec_dir, module, cfg=cfg, workers=1, env=e, timeout=timeout, xmx=xmx, xss="1g", deque=deque)
    rejects = [json.loads(s) for s in tlc_prints(r.out, "REJECT")]
    fu = tlc_prints(r.out, "FIRST-UNMATCHED")
    for s in fu:
        rejects.append({"first_unmatched": json.loads(s)})
    if r.error:
        raise ToolError("trace validation %s failed: %s\n%s" % (module, r.error, r.out[-3000:]))
    if r.violation and r.violation != "postcondition" and not rejects:
        # an invariant of the judge violated on the trace: report with the counterexample text
        rejects.append({"judge_violation": r.violation, "cex": r.cex[:4000]})
    accepted = (r.violation is None) and not rejects
    return accepted, rejects, r


def sany_lib(spec_dir, module):
    p = subprocess.run(["java", "-DTLA-Library=" + os.path.join(SPEC, "lib"), "-cp", JAR, "tla2sany.SANY",
                        module + ".tla"], cwd=spec_dir, stdout=subprocess.PIPE, stderr=subprocess.STDOUT, text=True)
    out = p.stdout
    ok = p.returncode == 0 and "Semantic errors" not in out and "Parse Error" not in out and "Fatal errors" not in out \
        and "Could not" not in out
    return ok, out
