//! Executor: performs one history (stimulus) on a real pool and records, after every operation, everything the judges
//! need. The executor never asserts anything about the pool: panics of the code under test are data.
use std::collections::{BTreeMap, HashMap};

use infinity_pool::verif::PoolProbe;
use vrt::{json, Rng, Value};

use crate::tracer::Tracer;

use crate::family::DynHandle;
use crate::payload::{drain_drops, expected_digest};
use crate::pools::{DynPool, WithMode};
use crate::table::make_pool;

#[derive(Clone, Debug)]
pub enum Op {
    Insert { k: usize },
    InsertWith { k: usize, panic: bool },
    /// destroy object o by the family's natural means (raw: remove(); owning: drop every handle)
    Destroy { o: u32 },
    /// extract object o by value (remove_unpin / into_inner); falls back to Destroy when no suitable handle exists
    TakeObj { o: u32 },
    Remove { h: u32 },
    TakeH { h: u32 },
    DropH { h: u32 },
    Share { h: u32 },
    CloneH { h: u32 },
    Erase { h: u32 },
    Cast { h: u32 },
    Reserve { k: usize, n: usize },
    Shrink,
    DropPool,
}

#[derive(Clone, Debug)]
pub struct Stim {
    pub id: String,
    pub pt: String,
    pub lay: String,
    /// slab capacity override, 0 = none
    pub cap: usize,
    pub must: bool,
    /// 0 = none, else seed of the decoration (extra handle conversions after each insert)
    pub deco: u64,
    pub ops: Vec<(Op, bool)>,
}

pub fn parse_stim(v: &Value) -> Stim {
    let ops = v["ops"]
        .as_array()
        .expect("ops")
        .iter()
        .map(|o| {
            let a = o.as_array().expect("op array");
            let name = a[0].as_str().expect("op name");
            let quiet = a.last().and_then(Value::as_str) == Some("q");
            let n = |i: usize| a[i].as_u64().expect("op arg") as usize;
            let op = match name {
                "insert" => Op::Insert { k: n(1) },
                "insert_with" => Op::InsertWith { k: n(1), panic: n(2) != 0 },
                "destroy" => Op::Destroy { o: n(1) as u32 },
                "take" => Op::TakeObj { o: n(1) as u32 },
                "remove" => Op::Remove { h: n(1) as u32 },
                "takeh" => Op::TakeH { h: n(1) as u32 },
                "drop" => Op::DropH { h: n(1) as u32 },
                "share" => Op::Share { h: n(1) as u32 },
                "clone" => Op::CloneH { h: n(1) as u32 },
                "erase" => Op::Erase { h: n(1) as u32 },
                "cast" => Op::Cast { h: n(1) as u32 },
                "reserve" => Op::Reserve { k: n(1), n: n(2) },
                "shrink" => Op::Shrink,
                "drop_pool" => Op::DropPool,
                other => panic!("unknown op {other}"),
            };
            (op, quiet)
        })
        .collect();
    Stim {
        id: v["id"].as_str().unwrap_or("?").to_string(),
        pt: v["pt"].as_str().expect("pt").to_string(),
        lay: v["lay"].as_str().unwrap_or("s8a8").to_string(),
        cap: v["cap"].as_u64().unwrap_or(0) as usize,
        must: v["policy"].as_str() == Some("must"),
        deco: v["deco"].as_u64().unwrap_or(0),
        ops,
    }
}

struct HEntry {
    obj: u32,
    h: Box<dyn DynHandle>,
}

struct ObjInfo {
    k: usize,
    addr: usize,
}

pub struct Exec<'t> {
    tr: &'t Tracer,
    pool: Option<Box<dyn DynPool>>,
    owning: bool,
    raw: bool,
    classes: Vec<(usize, usize, usize)>,
    handles: BTreeMap<u32, HEntry>,
    objs: BTreeMap<u32, ObjInfo>,
    next_obj: u32,
    next_h: u32,
    aids: HashMap<usize, u32>,
    nrec: u32,
    pub skipped: u32,
    salt: u32,
    /// index of the stimulus operation being executed (-1: operation added by the harness itself)
    pub cur_si: i64,
}

/// outcome of performing one operation
struct Done {
    name: &'static str,
    fields: Vec<(&'static str, Value)>,
    /// objects the harness considers gone after the operation (when it succeeded)
    gone: Vec<u32>,
}

impl<'t> Exec<'t> {
    /// Creates the pool for the stimulus and writes the reset record. Returns None if the pool type / layout is unknown.
    pub fn start(tr: &'t Tracer, st: &Stim) -> Option<Self> {
        infinity_pool::verif::set_slab_capacity_override(std::num::NonZero::new(st.cap));
        let pool = make_pool(&st.pt, &st.lay, st.must)?;
        let classes = pool.classes();
        let ex = Self {
            tr,
            owning: pool.owning(),
            raw: pool.family() == "raw",
            classes,
            pool: Some(pool),
            handles: BTreeMap::new(),
            objs: BTreeMap::new(),
            next_obj: 1,
            next_h: 1,
            aids: HashMap::new(),
            nrec: 0,
            skipped: 0,
            cur_si: -1,
            salt: st.id.bytes().fold(17_u32, |a, b| a.wrapping_mul(31).wrapping_add(u32::from(b))),
        };
        let p = ex.pool.as_ref().expect("pool");
        tr.emit(&json!({
            "ev": "reset", "id": st.id, "pt": st.pt, "lay": st.lay, "fam": p.family(), "own": i32::from(p.owning()),
            "blind": i32::from(p.blind()), "must": i32::from(st.must), "cap": st.cap,
            "cls": ex.classes.iter().map(|c| json!([c.0, c.1])).collect::<Vec<_>>(),
            "it": i32::from(p.iter3().is_some()),
        }));
        Some(ex)
    }

    pub fn live_objects(&self) -> Vec<u32> {
        self.objs.keys().copied().collect()
    }
    pub fn handle_ids(&self) -> Vec<u32> {
        self.handles.keys().copied().collect()
    }
    pub fn handles_of(&self, o: u32) -> Vec<u32> {
        self.handles.iter().filter(|(_, e)| e.obj == o).map(|(id, _)| *id).collect()
    }
    pub fn handle_shape(&self, h: u32) -> Option<(bool, u8, u32)> {
        self.handles.get(&h).map(|e| (e.h.is_unique(), e.h.view(), e.obj))
    }
    pub fn pool_alive(&self) -> bool {
        self.pool.is_some()
    }
    pub fn is_raw(&self) -> bool {
        self.raw
    }
    pub fn n_classes(&self) -> usize {
        if self.pool.as_ref().is_some_and(|p| p.blind()) {
            3
        } else if self.pool.as_ref().is_some_and(|p| p.name().contains("Opaque")) {
            // opaque pools take any type with the pool's layout: classes 0 and 2
            3
        } else {
            1
        }
    }
    pub fn class_allowed(&self, k: usize) -> bool {
        match self.pool.as_ref() {
            None => false,
            Some(p) if p.blind() => k < 3,
            Some(p) if p.name().contains("Opaque") => k == 0 || k == 2,
            Some(_) => k == 0,
        }
    }

    fn aid(&mut self, addr: usize) -> u32 {
        let n = self.aids.len() as u32 + 1;
        *self.aids.entry(addr).or_insert(n)
    }

    fn seed_for(&self, o: u32) -> u32 {
        o.wrapping_mul(0x9E37_79B1) ^ self.salt
    }

    /// Performs one operation and writes its record. Returns false when the history must end (unexpected panic).
    pub fn step(&mut self, op: &Op, quiet: bool) -> bool {
        if !self.valid(op) {
            self.skipped += 1;
            return true;
        }
        let before: HashMap<usize, u32> = self.objs.iter().map(|(o, i)| (i.addr, *o)).collect();
        let _ = drain_drops();
        // AssertUnwindSafe inside vrt::catch: the executor's own tables are only updated after the call returned.
        let res = {
            let me = &mut *self;
            vrt::catch(move || me.perform(op))
        };
        let drops = drain_drops();
        let mut rec = serde_json::Map::new();
        self.nrec += 1;
        rec.insert("ev".into(), json!("op"));
        rec.insert("n".into(), json!(self.nrec));
        rec.insert("si".into(), json!(self.cur_si));
        let mut cont = true;
        match res {
            Ok(done) => {
                rec.insert("op".into(), json!(done.name));
                rec.insert("res".into(), json!("ok"));
                for (k, v) in done.fields {
                    rec.insert(k.into(), v);
                }
                rec.insert("gone".into(), json!(done.gone));
                for o in done.gone {
                    self.objs.remove(&o);
                    self.handles.retain(|_, e| e.obj != o);
                }
            }
            Err(msg) => {
                rec.insert("op".into(), json!(op_name(op)));
                rec.insert("res".into(), json!("panic"));
                let own = msg.contains("HARNESS-CLOSURE-PANIC");
                rec.insert("own".into(), json!(i32::from(own)));
                rec.insert("msg".into(), json!(msg.chars().take(200).collect::<String>()));
                match op {
                    Op::InsertWith { k, panic: true } if own => {
                        rec.insert("k".into(), json!(k));
                    }
                    Op::DropPool => {
                        // the pool object is gone whatever happened; raw handles dangle now
                        if self.raw {
                            rec.insert("gone".into(), json!(self.live_objects()));
                            self.objs.clear();
                            self.handles.clear();
                        }
                    }
                    _ => cont = false,
                }
                if msg.starts_with("HARNESS:") {
                    eprintln!("h_pool: stimulus error: {msg}");
                    cont = false;
                }
            }
        }
        if !rec.contains_key("gone") {
            rec.insert("gone".into(), json!([]));
        }
        let dr: Vec<Value> = drops.iter().map(|(addr, dig)| json!([before.get(addr).copied().unwrap_or(0), dig])).collect();
        rec.insert("dr".into(), json!(dr));
        self.observe(&mut rec, quiet || !cont);
        self.tr.emit(&Value::Object(rec));
        if !cont {
            self.tr.emit(&json!({"ev": "end", "why": "unexpected-panic"}));
            // whatever is left is leaked deliberately: the pool may be in an arbitrary state
            for (_, e) in std::mem::take(&mut self.handles) {
                std::mem::forget(e.h);
            }
            if let Some(p) = self.pool.take() {
                std::mem::forget(p);
            }
            self.objs.clear();
        }
        cont
    }

    fn valid(&self, op: &Op) -> bool {
        let alive = self.pool.is_some();
        let shape = |h: &u32| self.handle_shape(*h);
        match op {
            Op::Insert { k } | Op::InsertWith { k, .. } => alive && self.class_allowed(*k),
            Op::Reserve { k, .. } => alive && self.class_allowed(*k),
            Op::Shrink | Op::DropPool => alive,
            Op::Destroy { o } | Op::TakeObj { o } => {
                self.objs.contains_key(o) && !self.handles_of(*o).is_empty() && (alive || self.owning)
            }
            Op::Remove { h } => self.raw && alive && shape(h).is_some(),
            Op::TakeH { h } => match shape(h) {
                Some((unique, 1, o)) => alive && (self.raw || (unique && self.handles_of(o).len() == 1)),
                _ => false,
            },
            Op::DropH { h } => shape(h).is_some(),
            Op::Share { h } => matches!(shape(h), Some((true, _, _))),
            Op::CloneH { h } => matches!(shape(h), Some((false, _, _))),
            Op::Erase { h } => matches!(shape(h), Some((_, 1 | 3, _))),
            Op::Cast { h } => matches!(shape(h), Some((_, 1, _))),
        }
    }

    fn perform(&mut self, op: &Op) -> Done {
        match *op {
            Op::Insert { k } => {
                let o = self.next_obj;
                let seed = self.seed_for(o);
                let h = self.pool.as_mut().expect("pool").insert(k, seed);
                self.inserted("insert", k, seed, h)
            }
            Op::InsertWith { k, panic } => {
                let o = self.next_obj;
                let seed = self.seed_for(o);
                let mode = if panic { WithMode::Panic } else { WithMode::Ok };
                let h = self.pool.as_mut().expect("pool").insert_with(k, seed, mode);
                self.inserted("insert_with", k, seed, h)
            }
            Op::Destroy { o } => self.destroy(o),
            Op::TakeObj { o } => {
                let hs = self.handles_of(o);
                let pick = hs.iter().copied().find(|h| {
                    let (unique, view, _) = self.handle_shape(*h).expect("handle");
                    view == 1 && (self.raw || (unique && hs.len() == 1))
                });
                match pick {
                    Some(h) if self.pool.is_some() => self.take(h),
                    _ => self.destroy(o),
                }
            }
            Op::Remove { h } => {
                let e = self.handles.remove(&h).expect("handle");
                let k = self.objs[&e.obj].k;
                self.pool.as_mut().expect("pool").remove(k, e.h);
                Done { name: "remove", fields: vec![("o", json!(e.obj)), ("h", json!(h))], gone: vec![e.obj] }
            }
            Op::TakeH { h } => self.take(h),
            Op::DropH { h } => {
                let e = self.handles.remove(&h).expect("handle");
                let o = e.obj;
                let last = self.handles_of(o).is_empty();
                drop(e.h);
                let gone = if self.owning && last { vec![o] } else { vec![] };
                Done { name: "drop", fields: vec![("o", json!(o)), ("h", json!(h)), ("last", json!(i32::from(last)))], gone }
            }
            Op::Share { h } => self.convert(h, "share", |x| x.share()),
            Op::Erase { h } => self.convert(h, "erase", |x| x.erase()),
            Op::Cast { h } => self.convert(h, "cast", |x| x.cast()),
            Op::CloneH { h } => {
                let e = self.handles.get(&h).expect("handle");
                let o = e.obj;
                let c = e.h.dup();
                let nh = self.next_h;
                self.next_h += 1;
                self.handles.insert(nh, HEntry { obj: o, h: c });
                Done { name: "clone", fields: vec![("o", json!(o)), ("h", json!(h)), ("nh", json!(nh))], gone: vec![] }
            }
            Op::Reserve { k, n } => {
                self.pool.as_mut().expect("pool").reserve(k, n);
                Done { name: "reserve", fields: vec![("k", json!(k)), ("arg", json!(n))], gone: vec![] }
            }
            Op::Shrink => {
                self.pool.as_mut().expect("pool").shrink();
                Done { name: "shrink", fields: vec![], gone: vec![] }
            }
            Op::DropPool => {
                let p = self.pool.take().expect("pool");
                let left = if self.raw { self.live_objects() } else { vec![] };
                drop(p);
                Done { name: "drop_pool", fields: vec![], gone: left }
            }
        }
    }

    fn inserted(&mut self, name: &'static str, k: usize, seed: u32, h: Box<dyn DynHandle>) -> Done {
        let o = self.next_obj;
        self.next_obj += 1;
        let hid = self.next_h;
        self.next_h += 1;
        let addr = h.addr();
        let a = self.aid(addr);
        self.objs.insert(o, ObjInfo { k, addr });
        self.handles.insert(hid, HEntry { obj: o, h });
        let v = expected_digest(seed, self.classes[k].2);
        Done {
            name,
            fields: vec![("o", json!(o)), ("h", json!(hid)), ("k", json!(k)), ("a", json!(a)), ("v", json!(v))],
            gone: vec![],
        }
    }

    fn destroy(&mut self, o: u32) -> Done {
        let hs = self.handles_of(o);
        if self.raw {
            let h = hs[0];
            let e = self.handles.remove(&h).expect("handle");
            let k = self.objs[&o].k;
            self.pool.as_mut().expect("pool").remove(k, e.h);
        } else {
            for h in &hs {
                let e = self.handles.remove(h).expect("handle");
                drop(e.h);
            }
        }
        Done { name: "destroy", fields: vec![("o", json!(o))], gone: vec![o] }
    }

    fn take(&mut self, h: u32) -> Done {
        let e = self.handles.remove(&h).expect("handle");
        let o = e.obj;
        let k = self.objs[&o].k;
        // for owning families the pool object may already be gone: into_inner only needs the handle
        let d = match self.pool.as_mut() {
            Some(p) => p.take(k, e.h),
            None => panic!("HARNESS: take after drop_pool is not supported by the adapter"),
        };
        Done { name: "take", fields: vec![("o", json!(o)), ("h", json!(h)), ("tk", json!(d))], gone: vec![o] }
    }

    fn convert(&mut self, h: u32, name: &'static str, f: impl FnOnce(Box<dyn DynHandle>) -> Box<dyn DynHandle>) -> Done {
        let e = self.handles.remove(&h).expect("handle");
        let o = e.obj;
        let nh = f(e.h);
        self.handles.insert(h, HEntry { obj: o, h: nh });
        Done { name, fields: vec![("o", json!(o)), ("h", json!(h))], gone: vec![] }
    }

    /// Everything observable after an operation.
    fn observe(&mut self, rec: &mut serde_json::Map<String, Value>, quiet: bool) {
        // pool-level scalars (cheap) are always recorded
        if let Some(p) = self.pool.as_ref() {
            rec.insert("pl".into(), json!(1));
            rec.insert("len".into(), json!(p.len()));
            rec.insert("emp".into(), json!(i32::from(p.is_empty())));
            let caps: Vec<i64> = (0..self.classes.len()).map(|k| if self.class_allowed(k) { p.capacity(k) as i64 } else { -1 }).collect();
            rec.insert("caps".into(), json!(caps));
        } else {
            rec.insert("pl".into(), json!(0));
        }
        if quiet {
            rec.insert("full".into(), json!(0));
            return;
        }
        rec.insert("full".into(), json!(1));
        // through every handle
        let mut hs = Vec::new();
        let ids: Vec<u32> = self.handles.keys().copied().collect();
        for id in ids {
            let (obj, addr, dig, inner, unique, view) = {
                let e = &self.handles[&id];
                (e.obj, e.h.addr(), e.h.read(), e.h.inner_addr(), e.h.is_unique(), e.h.view())
            };
            let a = self.aid(addr);
            let k = self.objs.get(&obj).map_or(0, |i| i.k);
            let al = addr % self.classes[k].1;
            let kind = match (self.raw, unique) {
                (false, true) => 1,
                (false, false) => 2,
                (true, true) => 3,
                (true, false) => 4,
            };
            hs.push(json!([id, obj, a, dig, al, kind, view, i32::from(inner != addr)]));
        }
        rec.insert("hs".into(), json!(hs));
        // byte ranges of the live objects, rank-compressed, sorted by start
        let mut ends: Vec<usize> = Vec::new();
        for i in self.objs.values() {
            ends.push(i.addr);
            ends.push(i.addr + self.classes[i.k].0);
        }
        ends.sort_unstable();
        ends.dedup();
        let rank = |x: usize| ends.binary_search(&x).expect("endpoint") + 1;
        let mut iv: Vec<(usize, usize, u32)> =
            self.objs.iter().map(|(o, i)| (rank(i.addr), rank(i.addr + self.classes[i.k].0), *o)).collect();
        iv.sort_unstable();
        rec.insert("iv".into(), json!(iv.iter().map(|(lo, hi, o)| json!([o, lo, hi])).collect::<Vec<_>>()));
        // probe + location of every live object inside the probed slabs
        let probes: Vec<PoolProbe> = self.pool.as_ref().map(|p| p.probe()).unwrap_or_default();
        if self.pool.is_some() {
            let mut loc = Vec::new();
            for (o, i) in &self.objs {
                let mut found = (0_usize, 0_usize, 0_usize);
                'search: for (pi, pr) in probes.iter().enumerate() {
                    for (si, sl) in pr.slabs.iter().enumerate() {
                        if i.addr >= sl.base && i.addr < sl.base + pr.slab_bytes {
                            found = (pi + 1, si + 1, i.addr - sl.base);
                            break 'search;
                        }
                    }
                }
                loc.push(json!([o, i.k, found.0, found.1, found.2]));
            }
            rec.insert("loc".into(), json!(loc));
            rec.insert("pr".into(), json!(probes.iter().map(probe_json).collect::<Vec<_>>()));
        }
        // iteration
        if let Some(it) = self.pool.as_ref().and_then(|p| p.iter3()) {
            let [f, b, m] = it;
            let fwd: Vec<u32> = f.into_iter().map(|a| self.aid(a)).collect();
            let bwd: Vec<u32> = b.into_iter().map(|a| self.aid(a)).collect();
            let mix: Vec<u32> = m.into_iter().map(|a| self.aid(a)).collect();
            rec.insert("fwd".into(), json!(fwd));
            rec.insert("bwd".into(), json!(bwd));
            rec.insert("mix".into(), json!(mix));
        }
    }

    /// Ends the history: whatever is left is dropped in an orderly way (handles first for owning families).
    pub fn finish(mut self) {
        let _ = vrt::catch(move || {
            let hs = std::mem::take(&mut self.handles);
            if self.owning {
                drop(hs);
            } else {
                for (_, e) in hs {
                    drop(e.h);
                }
            }
            drop(self.pool.take());
        });
        let _ = drain_drops();
    }
}

fn op_name(op: &Op) -> &'static str {
    match op {
        Op::Insert { .. } => "insert",
        Op::InsertWith { .. } => "insert_with",
        Op::Destroy { .. } => "destroy",
        Op::TakeObj { .. } | Op::TakeH { .. } => "take",
        Op::Remove { .. } => "remove",
        Op::DropH { .. } => "drop",
        Op::Share { .. } => "share",
        Op::CloneH { .. } => "clone",
        Op::Erase { .. } => "erase",
        Op::Cast { .. } => "cast",
        Op::Reserve { .. } => "reserve",
        Op::Shrink => "shrink",
        Op::DropPool => "drop_pool",
    }
}

/// The probe in the shape of the pool-state record of spec/pool/SlabInv.tla (1-based, 0 = occupied / none).
fn probe_json(p: &PoolProbe) -> Value {
    let detailed = p.slab_capacity <= 8;
    let slabs: Vec<Value> = p
        .slabs
        .iter()
        .map(|s| {
            let meta: Vec<usize> = if detailed {
                s.vacant_next.iter().map(|n| n.map_or(0, |x| x.min(1_000_000) + 1)).collect()
            } else {
                Vec::new()
            };
            json!([s.count, s.next_free_slot_index.min(1_000_000) + 1, meta])
        })
        .collect();
    // only the bits below len_bits are logged bit by bit; `lo1` says whether every leftover bit of the last block is 1
    let nbits = p.vacancy_len_bits;
    let blocks: Vec<Vec<u8>> = p
        .vacancy_blocks
        .iter()
        .enumerate()
        .map(|(bi, b)| (0..64).filter(|j| bi * 64 + j < nbits).map(|j| ((b >> j) & 1) as u8).collect())
        .collect();
    let leftover_ones = p.vacancy_blocks.last().is_none_or(|b| {
        let used = nbits.saturating_sub((p.vacancy_blocks.len() - 1) * 64);
        used >= 64 || (b >> used) == (u64::MAX >> used)
    });
    // g = [object size, object align, slab capacity, slot size, object offset in slot, tag size, slab bytes, detailed]
    json!({
        "g": [p.object_size, p.object_align, p.slab_capacity, p.slot_size, p.slot_to_object_offset, p.meta_size,
              p.slab_bytes, usize::from(detailed)],
        "length": p.len, "slabs": slabs, "lenBits": p.vacancy_len_bits, "blocks": blocks,
        "nextVac": p.next_vacancy.map_or(0, |x| x + 1), "nb": p.vacancy_blocks.len(), "lo1": i32::from(leftover_ones),
    })
}

/// Seeded extra handle conversions after an insert (they must leave the address and the value unchanged).
pub fn decorate(ex: &mut Exec<'_>, rng: &mut Rng, h: u32) -> bool {
    let mut hs = vec![h];
    if rng.chance(1, 3) && !ex.step(&Op::Cast { h }, false) {
        return false;
    }
    if rng.chance(1, 2) {
        if !ex.step(&Op::Share { h }, false) {
            return false;
        }
        for _ in 0..2 {
            if rng.chance(1, 2) {
                let before = ex.handle_ids();
                let src = *rng.pick(&hs);
                if !ex.step(&Op::CloneH { h: src }, false) {
                    return false;
                }
                if let Some(nh) = ex.handle_ids().into_iter().find(|x| !before.contains(x)) {
                    hs.push(nh);
                }
            }
        }
    }
    for x in hs {
        if rng.chance(1, 4) {
            if let Some((_, view, _)) = ex.handle_shape(x) {
                if view != 2 && !ex.step(&Op::Erase { h: x }, false) {
                    return false;
                }
            }
        }
    }
    true
}

/// Runs one stimulus.
pub fn run_stim(tr: &Tracer, st: &Stim) {
    let Some(mut ex) = Exec::start(tr, st) else {
        eprintln!("h_pool: unknown pool type / layout in stimulus {}: {} {}", st.id, st.pt, st.lay);
        return;
    };
    let mut rng = Rng::new(st.deco);
    for (si, (op, quiet)) in st.ops.iter().enumerate() {
        let before = ex.handle_ids();
        ex.cur_si = si as i64;
        let cont = ex.step(op, *quiet);
        ex.cur_si = -1;
        if !cont {
            return;
        }
        if st.deco != 0 && matches!(op, Op::Insert { .. } | Op::InsertWith { panic: false, .. }) {
            if let Some(nh) = ex.handle_ids().into_iter().find(|x| !before.contains(x)) {
                if !decorate(&mut ex, &mut rng, nh) {
                    return;
                }
            }
        }
    }
    if ex.skipped > 0 {
        eprintln!("h_pool: stimulus {}: {} operations not applicable to {} were skipped", st.id, ex.skipped, st.pt);
    }
    ex.finish();
}
