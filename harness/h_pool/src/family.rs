//! The six handle families of infinity_pool behind one adapter trait, and the type-erased handle object the executor
//! works with. A handle is unique (`U`) or shared (`S`) and views its object typed, erased (`()`) or as `dyn Canary`.
use std::any::Any;

use infinity_pool::{
    BlindPooled, BlindPooledMut, LocalBlindPooled, LocalBlindPooledMut, LocalPooled, LocalPooledMut, Pooled, PooledMut,
    RawBlindPooled, RawBlindPooledMut, RawPooled, RawPooledMut,
};

use crate::payload::{Canary, Payload};

// The crate's own cast machinery: generates PooledCastCanary (managed/local handles) and RawPooledCastCanary (raw).
infinity_pool::define_pooled_dyn_cast!(Canary);

pub trait Family: 'static {
    type U<T: ?Sized + Send + 'static>: 'static;
    type S<T: ?Sized + Send + 'static>: 'static;
    /// "raw" | "managed" | "local"
    const KIND: &'static str;
    /// Do handles own their object (drop of the last handle destroys it)?
    const OWNING: bool;

    fn u_addr<T: ?Sized + Send + 'static>(h: &Self::U<T>) -> usize;
    fn s_addr<T: ?Sized + Send + 'static>(h: &Self::S<T>) -> usize;
    fn u_ref<T: ?Sized + Send + 'static>(h: &Self::U<T>) -> &T;
    fn s_ref<T: ?Sized + Send + 'static>(h: &Self::S<T>) -> &T;
    fn share<T: ?Sized + Send + 'static>(h: Self::U<T>) -> Self::S<T>;
    fn dup<T: ?Sized + Send + 'static>(h: &Self::S<T>) -> Self::S<T>;
    fn u_erase<T: ?Sized + Send + 'static>(h: Self::U<T>) -> Self::U<()>;
    fn s_erase<T: ?Sized + Send + 'static>(h: Self::S<T>) -> Self::S<()>;
    fn u_cast<P: Payload>(h: Self::U<P>) -> Self::U<dyn Canary>;
    fn s_cast<P: Payload>(h: Self::S<P>) -> Self::S<dyn Canary>;
}

macro_rules! family {
    ($name:ident, $u:ident, $s:ident, $kind:literal, $owning:literal, raw = $raw:tt) => {
        pub struct $name;
        impl Family for $name {
            type U<T: ?Sized + Send + 'static> = $u<T>;
            type S<T: ?Sized + Send + 'static> = $s<T>;
            const KIND: &'static str = $kind;
            const OWNING: bool = $owning;

            fn u_addr<T: ?Sized + Send + 'static>(h: &Self::U<T>) -> usize {
                h.ptr().cast::<()>().as_ptr() as usize
            }
            fn s_addr<T: ?Sized + Send + 'static>(h: &Self::S<T>) -> usize {
                h.ptr().cast::<()>().as_ptr() as usize
            }
            fn u_ref<T: ?Sized + Send + 'static>(h: &Self::U<T>) -> &T {
                family!(@as_ref $raw, h)
            }
            fn s_ref<T: ?Sized + Send + 'static>(h: &Self::S<T>) -> &T {
                family!(@as_ref $raw, h)
            }
            fn share<T: ?Sized + Send + 'static>(h: Self::U<T>) -> Self::S<T> {
                h.into_shared()
            }
            #[allow(clippy::clone_on_copy)]
            fn dup<T: ?Sized + Send + 'static>(h: &Self::S<T>) -> Self::S<T> {
                h.clone()
            }
            fn u_erase<T: ?Sized + Send + 'static>(h: Self::U<T>) -> Self::U<()> {
                h.erase()
            }
            fn s_erase<T: ?Sized + Send + 'static>(h: Self::S<T>) -> Self::S<()> {
                h.erase()
            }
            fn u_cast<P: Payload>(h: Self::U<P>) -> Self::U<dyn Canary> {
                family!(@cast $raw, h)
            }
            fn s_cast<P: Payload>(h: Self::S<P>) -> Self::S<dyn Canary> {
                family!(@cast $raw, h)
            }
        }
    };
    (@as_ref true, $h:ident) => {
        // SAFETY: the harness keeps the pool alive while it reads through raw handles and never reads through a handle
        // whose object it has removed.
        unsafe { $h.as_ref() }
    };
    (@as_ref false, $h:ident) => {
        &**$h
    };
    (@cast true, $h:ident) => {
        // SAFETY: as above; the pool outlives the handle.
        unsafe { $h.cast_canary() }
    };
    (@cast false, $h:ident) => {
        $h.cast_canary()
    };
}

family!(RawFam, RawPooledMut, RawPooled, "raw", false, raw = true);
family!(ManagedFam, PooledMut, Pooled, "managed", true, raw = false);
family!(LocalFam, LocalPooledMut, LocalPooled, "local", true, raw = false);
family!(BlindRawFam, RawBlindPooledMut, RawBlindPooled, "raw", false, raw = true);
family!(BlindManagedFam, BlindPooledMut, BlindPooled, "managed", true, raw = false);
family!(BlindLocalFam, LocalBlindPooledMut, LocalBlindPooled, "local", true, raw = false);

/// One handle of family `F` to an object of payload type `P`, in any of its six shapes.
pub enum HI<F: Family, P: Payload> {
    UT(F::U<P>),
    UE(F::U<()>),
    UD(F::U<dyn Canary>),
    ST(F::S<P>),
    SE(F::S<()>),
    SD(F::S<dyn Canary>),
}

pub struct H<F: Family, P: Payload> {
    pub inner: HI<F, P>,
}

/// What the executor needs from a handle, whatever its family / payload / shape.
pub trait DynHandle: Any {
    fn addr(&self) -> usize;
    /// Digest of the object's bytes read THROUGH this handle (typed: Deref/as_ref; dyn: vtable call; erased: the
    /// handle's pointer cast back to the payload type the harness knows it has).
    fn read(&self) -> u32;
    /// For the dyn view: the address `self` has inside the vtable call (must equal `addr`); else `addr`.
    fn inner_addr(&self) -> usize;
    fn is_unique(&self) -> bool;
    /// 1 typed, 2 erased, 3 dyn
    fn view(&self) -> u8;
    fn share(self: Box<Self>) -> Box<dyn DynHandle>;
    fn dup(&self) -> Box<dyn DynHandle>;
    fn erase(self: Box<Self>) -> Box<dyn DynHandle>;
    fn cast(self: Box<Self>) -> Box<dyn DynHandle>;
    fn into_any(self: Box<Self>) -> Box<dyn Any>;
}

fn boxed<F: Family, P: Payload>(inner: HI<F, P>) -> Box<dyn DynHandle> {
    Box::new(H::<F, P> { inner })
}

pub fn new_handle<F: Family, P: Payload>(h: F::U<P>) -> Box<dyn DynHandle> {
    boxed::<F, P>(HI::UT(h))
}

impl<F: Family, P: Payload> DynHandle for H<F, P> {
    fn addr(&self) -> usize {
        match &self.inner {
            HI::UT(h) => F::u_addr(h),
            HI::UE(h) => F::u_addr(h),
            HI::UD(h) => F::u_addr(h),
            HI::ST(h) => F::s_addr(h),
            HI::SE(h) => F::s_addr(h),
            HI::SD(h) => F::s_addr(h),
        }
    }

    fn read(&self) -> u32 {
        match &self.inner {
            HI::UT(h) => F::u_ref(h).digest(),
            HI::ST(h) => F::s_ref(h).digest(),
            HI::UD(h) => F::u_ref(h).digest_dyn(),
            HI::SD(h) => F::s_ref(h).digest_dyn(),
            // SAFETY: the harness created this handle from a handle to a live `P` and has not removed the object.
            HI::UE(_) | HI::SE(_) => unsafe { &*(self.addr() as *const P) }.digest(),
        }
    }

    fn inner_addr(&self) -> usize {
        match &self.inner {
            HI::UD(h) => F::u_ref(h).self_addr(),
            HI::SD(h) => F::s_ref(h).self_addr(),
            HI::UT(h) => F::u_ref(h).self_addr(),
            HI::ST(h) => F::s_ref(h).self_addr(),
            _ => self.addr(),
        }
    }

    fn is_unique(&self) -> bool {
        matches!(self.inner, HI::UT(_) | HI::UE(_) | HI::UD(_))
    }

    fn view(&self) -> u8 {
        match self.inner {
            HI::UT(_) | HI::ST(_) => 1,
            HI::UE(_) | HI::SE(_) => 2,
            HI::UD(_) | HI::SD(_) => 3,
        }
    }

    fn share(self: Box<Self>) -> Box<dyn DynHandle> {
        match self.inner {
            HI::UT(h) => boxed::<F, P>(HI::ST(F::share(h))),
            HI::UE(h) => boxed::<F, P>(HI::SE(F::share(h))),
            HI::UD(h) => boxed::<F, P>(HI::SD(F::share(h))),
            _ => panic!("HARNESS: share of a shared handle"),
        }
    }

    fn dup(&self) -> Box<dyn DynHandle> {
        match &self.inner {
            HI::ST(h) => boxed::<F, P>(HI::ST(F::dup(h))),
            HI::SE(h) => boxed::<F, P>(HI::SE(F::dup(h))),
            HI::SD(h) => boxed::<F, P>(HI::SD(F::dup(h))),
            _ => panic!("HARNESS: clone of a unique handle"),
        }
    }

    fn erase(self: Box<Self>) -> Box<dyn DynHandle> {
        match self.inner {
            HI::UT(h) => boxed::<F, P>(HI::UE(F::u_erase(h))),
            HI::UD(h) => boxed::<F, P>(HI::UE(F::u_erase(h))),
            HI::ST(h) => boxed::<F, P>(HI::SE(F::s_erase(h))),
            HI::SD(h) => boxed::<F, P>(HI::SE(F::s_erase(h))),
            _ => panic!("HARNESS: erase of an erased handle"),
        }
    }

    fn cast(self: Box<Self>) -> Box<dyn DynHandle> {
        match self.inner {
            HI::UT(h) => boxed::<F, P>(HI::UD(F::u_cast::<P>(h))),
            HI::ST(h) => boxed::<F, P>(HI::SD(F::s_cast::<P>(h))),
            _ => panic!("HARNESS: cast of a handle that is not typed"),
        }
    }

    fn into_any(self: Box<Self>) -> Box<dyn Any> {
        self
    }
}
