//! Pool type x payload layout table: builds the pool under test for a stimulus.
use infinity_pool::{
    BlindPool, LocalBlindPool, LocalOpaquePool, LocalPinnedPool, OpaquePool, PinnedPool, RawBlindPool, RawOpaquePool,
    RawPinnedPool,
};

use crate::payload::{Pay, A1, A1024, A128, A16, A2, A2048, A256, A32, A4, A4096, A512, A64, A8};
use crate::pools::{DynPool, PoolBox};

pub const POOL_TYPES: [&str; 9] = [
    "RawOpaquePool", "OpaquePool", "LocalOpaquePool", "RawPinnedPool", "PinnedPool", "LocalPinnedPool", "RawBlindPool",
    "BlindPool", "LocalBlindPool",
];

/// layout name -> (payload type, the partner class used as class 1 in blind pools)
macro_rules! layouts {
    ($($name:literal => ($a:ident, $n:expr), partner ($pa:ident, $pn:expr);)*) => {
        pub const LAYOUTS: &[&str] = &[$($name),*];

        /// Class 0 = the named layout, class 1 = its partner layout (blind pools only), class 2 = a second Rust type
        /// with the SAME layout as class 0 (blind pools route it to the same inner pool).
        pub fn make_pool(pt: &str, lay: &str, must_not_drop: bool) -> Option<Box<dyn DynPool>> {
            match lay {
                $($name => {
                    type P0 = Pay<$a, { $n }, 0>;
                    type P1 = Pay<$pa, { $pn }, 0>;
                    type P2 = Pay<$a, { $n }, 1>;
                    Some(match pt {
                        "RawOpaquePool" => PoolBox::<RawOpaquePool, P0, P0, P2>::create(must_not_drop),
                        "OpaquePool" => PoolBox::<OpaquePool, P0, P0, P2>::create(must_not_drop),
                        "LocalOpaquePool" => PoolBox::<LocalOpaquePool, P0, P0, P2>::create(must_not_drop),
                        "RawPinnedPool" => PoolBox::<RawPinnedPool<P0>, P0, P0, P0>::create(must_not_drop),
                        "PinnedPool" => PoolBox::<PinnedPool<P0>, P0, P0, P0>::create(must_not_drop),
                        "LocalPinnedPool" => PoolBox::<LocalPinnedPool<P0>, P0, P0, P0>::create(must_not_drop),
                        "RawBlindPool" => PoolBox::<RawBlindPool, P0, P1, P2>::create(must_not_drop),
                        "BlindPool" => PoolBox::<BlindPool, P0, P1, P2>::create(must_not_drop),
                        "LocalBlindPool" => PoolBox::<LocalBlindPool, P0, P1, P2>::create(must_not_drop),
                        _ => return None,
                    })
                })*
                _ => None,
            }
        }
    };
}

layouts! {
    "s8a8" => (A8, 8), partner (A1, 3);
    "s1a1" => (A1, 1), partner (A8, 8);
    "s3a1" => (A1, 3), partner (A64, 64);
    "s24a8" => (A8, 24), partner (A4096, 4096);
    "s4096a4096" => (A4096, 4096), partner (A8, 24);
    "big" => (A64, 1_048_640), partner (A8, 8);
    "s2a2" => (A2, 2), partner (A8, 8);
    "s4a4" => (A4, 4), partner (A8, 8);
    "s8a4" => (A4, 5), partner (A16, 16);
    "s16a16" => (A16, 16), partner (A1, 1);
    "s48a16" => (A16, 40), partner (A2, 2);
    "s32a32" => (A32, 32), partner (A8, 8);
    "s64a64" => (A64, 64), partner (A1, 3);
    "s128a128" => (A128, 128), partner (A8, 8);
    "s256a256" => (A256, 256), partner (A4, 4);
    "s512a512" => (A512, 512), partner (A8, 24);
    "s1024a1024" => (A1024, 1024), partner (A2, 2);
    "s2048a2048" => (A2048, 2048), partner (A32, 32);
}
