//! Adapter over the nine pool types: `PoolCommon` + `PoolOps<P>` are implemented for each pool type (static dispatch),
//! `PoolBox<PL, P0, P1, P2>` wraps a pool with up to three payload classes behind the object-safe `DynPool`.
use std::marker::PhantomData;
use std::mem::MaybeUninit;

use infinity_pool::verif::PoolProbe;
use infinity_pool::{
    BlindPool, DropPolicy, LocalBlindPool, LocalOpaquePool, LocalPinnedPool, OpaquePool, PinnedPool, RawBlindPool,
    RawOpaquePool, RawPinnedPool,
};

use crate::family::{
    new_handle, BlindLocalFam, BlindManagedFam, BlindRawFam, DynHandle, Family, LocalFam, ManagedFam, RawFam, H, HI,
};
use crate::payload::Payload;

type U<PL, T> = <<PL as PoolCommon>::F as Family>::U<T>;
type S<PL, T> = <<PL as PoolCommon>::F as Family>::S<T>;

/// forward, backward and alternating (front, back, front, ...) iteration, as addresses
pub type Iter3 = [Vec<usize>; 3];

pub trait PoolCommon: Sized + 'static {
    type F: Family;
    const NAME: &'static str;
    const BLIND: bool;
    fn len(&self) -> usize;
    fn is_empty(&self) -> bool;
    fn shrink(&mut self);
    fn iter3(&self) -> Option<Iter3>;
    fn probe(&self) -> Vec<PoolProbe>;
    /// remove() of the raw pools; managed and local pools have no such operation
    fn remove_u<T: ?Sized + Send + 'static>(&mut self, h: U<Self, T>);
    fn remove_s<T: ?Sized + Send + 'static>(&mut self, h: S<Self, T>);
}

pub trait PoolOps<P: Payload>: PoolCommon {
    fn create(must_not_drop: bool) -> Self;
    fn insert(&mut self, v: P) -> U<Self, P>;
    fn insert_with(&mut self, f: impl FnOnce(&mut MaybeUninit<P>)) -> U<Self, P>;
    /// remove_unpin (raw) / into_inner (managed, local)
    fn take_u(&mut self, h: U<Self, P>) -> P;
    fn take_s(&mut self, h: S<Self, P>) -> P;
    fn capacity(&self) -> usize;
    fn reserve(&mut self, n: usize);
}

fn collect3<I, X>(mk: impl Fn() -> I, addr: impl Fn(X) -> usize) -> Iter3
where
    I: DoubleEndedIterator<Item = X>,
{
    let fwd = mk().map(&addr).collect::<Vec<_>>();
    let bwd = mk().rev().map(&addr).collect::<Vec<_>>();
    let mut mix = Vec::new();
    let mut it = mk();
    let mut front = true;
    loop {
        let x = if front { it.next() } else { it.next_back() };
        front = !front;
        match x {
            Some(x) => mix.push(addr(x)),
            None => break,
        }
        if mix.len() > fwd.len() + bwd.len() + 4 {
            break; // an iterator that never ends is recorded as a too-long sequence
        }
    }
    [fwd, bwd, mix]
}

fn policy(must_not_drop: bool) -> DropPolicy {
    if must_not_drop { DropPolicy::MustNotDropContents } else { DropPolicy::MayDropContents }
}

// ------------------------------------------------------------------------------------------------ raw pools

impl PoolCommon for RawOpaquePool {
    type F = RawFam;
    const NAME: &'static str = "RawOpaquePool";
    const BLIND: bool = false;
    fn len(&self) -> usize { RawOpaquePool::len(self) }
    fn is_empty(&self) -> bool { RawOpaquePool::is_empty(self) }
    fn shrink(&mut self) { self.shrink_to_fit(); }
    fn iter3(&self) -> Option<Iter3> { Some(collect3(|| self.iter(), |p| p.as_ptr() as usize)) }
    fn probe(&self) -> Vec<PoolProbe> { vec![self.verif_probe()] }
    fn remove_u<T: ?Sized + Send + 'static>(&mut self, h: U<Self, T>) {
        // SAFETY: the executor only passes handles of objects that are in this pool.
        unsafe { self.remove(h) }
    }
    fn remove_s<T: ?Sized + Send + 'static>(&mut self, h: S<Self, T>) {
        // SAFETY: as above.
        unsafe { self.remove(h) }
    }
}

impl<P: Payload> PoolOps<P> for RawOpaquePool {
    fn create(must_not_drop: bool) -> Self {
        RawOpaquePool::builder().layout_of::<P>().drop_policy(policy(must_not_drop)).build()
    }
    fn insert(&mut self, v: P) -> U<Self, P> { RawOpaquePool::insert(self, v) }
    fn insert_with(&mut self, f: impl FnOnce(&mut MaybeUninit<P>)) -> U<Self, P> {
        // SAFETY: the closure initialises every byte of the payload (or panics).
        unsafe { RawOpaquePool::insert_with(self, f) }
    }
    fn take_u(&mut self, h: U<Self, P>) -> P {
        // SAFETY: handle of an object in this pool.
        unsafe { self.remove_unpin(h) }
    }
    fn take_s(&mut self, h: S<Self, P>) -> P {
        // SAFETY: handle of an object in this pool.
        unsafe { self.remove_unpin(h) }
    }
    fn capacity(&self) -> usize { RawOpaquePool::capacity(self) }
    fn reserve(&mut self, n: usize) { RawOpaquePool::reserve(self, n); }
}

impl<P: Payload> PoolCommon for RawPinnedPool<P> {
    type F = RawFam;
    const NAME: &'static str = "RawPinnedPool";
    const BLIND: bool = false;
    fn len(&self) -> usize { RawPinnedPool::len(self) }
    fn is_empty(&self) -> bool { RawPinnedPool::is_empty(self) }
    fn shrink(&mut self) { self.shrink_to_fit(); }
    fn iter3(&self) -> Option<Iter3> { Some(collect3(|| self.iter(), |p| p.as_ptr() as usize)) }
    fn probe(&self) -> Vec<PoolProbe> { vec![self.verif_probe()] }
    fn remove_u<T: ?Sized + Send + 'static>(&mut self, h: U<Self, T>) {
        // SAFETY: handle of an object in this pool.
        unsafe { self.remove(h) }
    }
    fn remove_s<T: ?Sized + Send + 'static>(&mut self, h: S<Self, T>) {
        // SAFETY: handle of an object in this pool.
        unsafe { self.remove(h) }
    }
}

impl<P: Payload> PoolOps<P> for RawPinnedPool<P> {
    fn create(must_not_drop: bool) -> Self {
        RawPinnedPool::<P>::builder().drop_policy(policy(must_not_drop)).build()
    }
    fn insert(&mut self, v: P) -> U<Self, P> { RawPinnedPool::insert(self, v) }
    fn insert_with(&mut self, f: impl FnOnce(&mut MaybeUninit<P>)) -> U<Self, P> {
        // SAFETY: the closure initialises every byte of the payload (or panics).
        unsafe { RawPinnedPool::insert_with(self, f) }
    }
    fn take_u(&mut self, h: U<Self, P>) -> P {
        // SAFETY: handle of an object in this pool.
        unsafe { self.remove_unpin(h) }
    }
    fn take_s(&mut self, h: S<Self, P>) -> P {
        // SAFETY: handle of an object in this pool.
        unsafe { self.remove_unpin(h) }
    }
    fn capacity(&self) -> usize { RawPinnedPool::capacity(self) }
    fn reserve(&mut self, n: usize) { RawPinnedPool::reserve(self, n); }
}

impl PoolCommon for RawBlindPool {
    type F = BlindRawFam;
    const NAME: &'static str = "RawBlindPool";
    const BLIND: bool = true;
    fn len(&self) -> usize { RawBlindPool::len(self) }
    fn is_empty(&self) -> bool { RawBlindPool::is_empty(self) }
    fn shrink(&mut self) { self.shrink_to_fit(); }
    fn iter3(&self) -> Option<Iter3> { None }
    fn probe(&self) -> Vec<PoolProbe> { self.verif_probe() }
    fn remove_u<T: ?Sized + Send + 'static>(&mut self, h: U<Self, T>) {
        // SAFETY: handle of an object in this pool.
        unsafe { self.remove(h) }
    }
    fn remove_s<T: ?Sized + Send + 'static>(&mut self, h: S<Self, T>) {
        // SAFETY: handle of an object in this pool.
        unsafe { self.remove(h) }
    }
}

impl<P: Payload> PoolOps<P> for RawBlindPool {
    fn create(must_not_drop: bool) -> Self {
        RawBlindPool::builder().drop_policy(policy(must_not_drop)).build()
    }
    fn insert(&mut self, v: P) -> U<Self, P> { RawBlindPool::insert(self, v) }
    fn insert_with(&mut self, f: impl FnOnce(&mut MaybeUninit<P>)) -> U<Self, P> {
        // SAFETY: the closure initialises every byte of the payload (or panics).
        unsafe { RawBlindPool::insert_with(self, f) }
    }
    fn take_u(&mut self, h: U<Self, P>) -> P {
        // SAFETY: handle of an object in this pool.
        unsafe { self.remove_unpin(h) }
    }
    fn take_s(&mut self, h: S<Self, P>) -> P {
        // SAFETY: handle of an object in this pool.
        unsafe { self.remove_unpin(h) }
    }
    fn capacity(&self) -> usize { self.capacity_for::<P>() }
    fn reserve(&mut self, n: usize) { self.reserve_for::<P>(n); }
}

// ------------------------------------------------------------------------------- managed and local pools

macro_rules! owning_common {
    ($fam:ident, $name:literal, iter = yes) => {
        type F = $fam;
        const NAME: &'static str = $name;
        const BLIND: bool = false;
        fn len(&self) -> usize { Self::len(self) }
        fn is_empty(&self) -> bool { Self::is_empty(self) }
        fn shrink(&mut self) { self.shrink_to_fit(); }
        fn iter3(&self) -> Option<Iter3> {
            let fwd = self.with_iter(|it| it.map(|p| p.as_ptr() as usize).collect::<Vec<_>>());
            let bwd = self.with_iter(|it| it.rev().map(|p| p.as_ptr() as usize).collect::<Vec<_>>());
            let bound = fwd.len() + bwd.len() + 4;
            let mix = self.with_iter(|mut it| {
                let mut mix = Vec::new();
                let mut front = true;
                loop {
                    let x = if front { it.next() } else { it.next_back() };
                    front = !front;
                    match x {
                        Some(p) => mix.push(p.as_ptr() as usize),
                        None => break,
                    }
                    if mix.len() > bound {
                        break;
                    }
                }
                mix
            });
            Some([fwd, bwd, mix])
        }
        fn probe(&self) -> Vec<PoolProbe> { vec![self.verif_probe()] }
        fn remove_u<T: ?Sized + Send + 'static>(&mut self, _h: U<Self, T>) {
            panic!("HARNESS: remove() does not exist on managed/local pools");
        }
        fn remove_s<T: ?Sized + Send + 'static>(&mut self, _h: S<Self, T>) {
            panic!("HARNESS: remove() does not exist on managed/local pools");
        }
    };
    ($fam:ident, $name:literal, iter = no) => {
        type F = $fam;
        const NAME: &'static str = $name;
        const BLIND: bool = true;
        fn len(&self) -> usize { Self::len(self) }
        fn is_empty(&self) -> bool { Self::is_empty(self) }
        fn shrink(&mut self) { self.shrink_to_fit(); }
        fn iter3(&self) -> Option<Iter3> { None }
        fn probe(&self) -> Vec<PoolProbe> { self.verif_probe() }
        fn remove_u<T: ?Sized + Send + 'static>(&mut self, _h: U<Self, T>) {
            panic!("HARNESS: remove() does not exist on managed/local pools");
        }
        fn remove_s<T: ?Sized + Send + 'static>(&mut self, _h: S<Self, T>) {
            panic!("HARNESS: remove() does not exist on managed/local pools");
        }
    };
}

macro_rules! owning_ops {
    () => {
        fn insert(&mut self, v: P) -> U<Self, P> { Self::insert(self, v) }
        fn insert_with(&mut self, f: impl FnOnce(&mut MaybeUninit<P>)) -> U<Self, P> {
            // SAFETY: the closure initialises every byte of the payload (or panics).
            unsafe { Self::insert_with(self, f) }
        }
        fn take_u(&mut self, h: U<Self, P>) -> P { h.into_inner() }
        fn take_s(&mut self, _h: S<Self, P>) -> P {
            panic!("HARNESS: into_inner() needs a unique handle");
        }
    };
}

impl PoolCommon for OpaquePool { owning_common!(ManagedFam, "OpaquePool", iter = yes); }
impl<P: Payload> PoolOps<P> for OpaquePool {
    fn create(_must_not_drop: bool) -> Self { OpaquePool::with_layout_of::<P>() }
    owning_ops!();
    fn capacity(&self) -> usize { OpaquePool::capacity(self) }
    fn reserve(&mut self, n: usize) { OpaquePool::reserve(self, n); }
}

impl PoolCommon for LocalOpaquePool { owning_common!(LocalFam, "LocalOpaquePool", iter = yes); }
impl<P: Payload> PoolOps<P> for LocalOpaquePool {
    fn create(_must_not_drop: bool) -> Self { LocalOpaquePool::with_layout_of::<P>() }
    owning_ops!();
    fn capacity(&self) -> usize { LocalOpaquePool::capacity(self) }
    fn reserve(&mut self, n: usize) { LocalOpaquePool::reserve(self, n); }
}

impl<P: Payload> PoolCommon for PinnedPool<P> { owning_common!(ManagedFam, "PinnedPool", iter = yes); }
impl<P: Payload> PoolOps<P> for PinnedPool<P> {
    fn create(_must_not_drop: bool) -> Self { PinnedPool::<P>::new() }
    owning_ops!();
    fn capacity(&self) -> usize { PinnedPool::capacity(self) }
    fn reserve(&mut self, n: usize) { PinnedPool::reserve(self, n); }
}

impl<P: Payload> PoolCommon for LocalPinnedPool<P> { owning_common!(LocalFam, "LocalPinnedPool", iter = yes); }
impl<P: Payload> PoolOps<P> for LocalPinnedPool<P> {
    fn create(_must_not_drop: bool) -> Self { LocalPinnedPool::<P>::new() }
    owning_ops!();
    fn capacity(&self) -> usize { LocalPinnedPool::capacity(self) }
    fn reserve(&mut self, n: usize) { LocalPinnedPool::reserve(self, n); }
}

impl PoolCommon for BlindPool { owning_common!(BlindManagedFam, "BlindPool", iter = no); }
impl<P: Payload> PoolOps<P> for BlindPool {
    fn create(_must_not_drop: bool) -> Self { BlindPool::new() }
    owning_ops!();
    fn capacity(&self) -> usize { self.capacity_for::<P>() }
    fn reserve(&mut self, n: usize) { self.reserve_for::<P>(n); }
}

impl PoolCommon for LocalBlindPool { owning_common!(BlindLocalFam, "LocalBlindPool", iter = no); }
impl<P: Payload> PoolOps<P> for LocalBlindPool {
    fn create(_must_not_drop: bool) -> Self { LocalBlindPool::new() }
    owning_ops!();
    fn capacity(&self) -> usize { self.capacity_for::<P>() }
    fn reserve(&mut self, n: usize) { self.reserve_for::<P>(n); }
}

// ------------------------------------------------------------------------------------------ object-safe face

/// How an insert_with closure behaves.
#[derive(Clone, Copy)]
pub enum WithMode {
    /// write everything, return
    Ok,
    /// write half of the bytes, then panic
    Panic,
}

pub trait DynPool {
    fn name(&self) -> &'static str;
    fn family(&self) -> &'static str;
    fn owning(&self) -> bool;
    fn blind(&self) -> bool;
    /// (size, align, N) per payload class
    fn classes(&self) -> Vec<(usize, usize, usize)>;
    fn insert(&mut self, k: usize, seed: u32) -> Box<dyn DynHandle>;
    fn insert_with(&mut self, k: usize, seed: u32, mode: WithMode) -> Box<dyn DynHandle>;
    fn remove(&mut self, k: usize, h: Box<dyn DynHandle>);
    /// returns the digest of the extracted value; the value itself is forgotten (its destructor must not run)
    fn take(&mut self, k: usize, h: Box<dyn DynHandle>) -> u32;
    fn len(&self) -> usize;
    fn is_empty(&self) -> bool;
    fn capacity(&self, k: usize) -> usize;
    fn reserve(&mut self, k: usize, n: usize);
    fn shrink(&mut self);
    fn iter3(&self) -> Option<Iter3>;
    fn probe(&self) -> Vec<PoolProbe>;
}

pub struct PoolBox<PL, P0, P1, P2> {
    pool: PL,
    _p: PhantomData<(P0, P1, P2)>,
}

impl<PL, P0, P1, P2> PoolBox<PL, P0, P1, P2>
where
    PL: PoolOps<P0> + PoolOps<P1> + PoolOps<P2>,
    P0: Payload,
    P1: Payload,
    P2: Payload,
{
    pub fn create(must_not_drop: bool) -> Box<dyn DynPool> {
        Box::new(Self { pool: <PL as PoolOps<P0>>::create(must_not_drop), _p: PhantomData })
    }
}

fn ins<PL: PoolOps<P>, P: Payload>(pool: &mut PL, seed: u32) -> Box<dyn DynHandle> {
    new_handle::<PL::F, P>(pool.insert(P::make(seed)))
}

fn ins_with<PL: PoolOps<P>, P: Payload>(pool: &mut PL, seed: u32, mode: WithMode) -> Box<dyn DynHandle> {
    let h = pool.insert_with(|slot: &mut MaybeUninit<P>| match mode {
        WithMode::Ok => P::write_in_place(slot, seed, P::N),
        WithMode::Panic => {
            P::write_in_place(slot, seed ^ 0x5555_5555, P::N / 2 + 1);
            panic!("HARNESS-CLOSURE-PANIC");
        }
    });
    new_handle::<PL::F, P>(h)
}

fn rem<PL: PoolOps<P>, P: Payload>(pool: &mut PL, h: Box<dyn DynHandle>) {
    let h = h.into_any().downcast::<H<PL::F, P>>().expect("HARNESS: handle of another class");
    match h.inner {
        HI::UT(x) => pool.remove_u(x),
        HI::UE(x) => pool.remove_u(x),
        HI::UD(x) => pool.remove_u(x),
        HI::ST(x) => pool.remove_s(x),
        HI::SE(x) => pool.remove_s(x),
        HI::SD(x) => pool.remove_s(x),
    }
}

fn tak<PL: PoolOps<P>, P: Payload>(pool: &mut PL, h: Box<dyn DynHandle>) -> u32 {
    let h = h.into_any().downcast::<H<PL::F, P>>().expect("HARNESS: handle of another class");
    let v: P = match h.inner {
        HI::UT(x) => pool.take_u(x),
        HI::ST(x) => pool.take_s(x),
        _ => panic!("HARNESS: take needs a typed handle"),
    };
    let d = v.digest();
    std::mem::forget(v);
    d
}

impl<PL, P0, P1, P2> DynPool for PoolBox<PL, P0, P1, P2>
where
    PL: PoolOps<P0> + PoolOps<P1> + PoolOps<P2>,
    P0: Payload,
    P1: Payload,
    P2: Payload,
{
    fn name(&self) -> &'static str { PL::NAME }
    fn family(&self) -> &'static str { <PL::F as Family>::KIND }
    fn owning(&self) -> bool { <PL::F as Family>::OWNING }
    fn blind(&self) -> bool { PL::BLIND }
    fn classes(&self) -> Vec<(usize, usize, usize)> {
        vec![
            (size_of::<P0>(), align_of::<P0>(), P0::N),
            (size_of::<P1>(), align_of::<P1>(), P1::N),
            (size_of::<P2>(), align_of::<P2>(), P2::N),
        ]
    }
    fn insert(&mut self, k: usize, seed: u32) -> Box<dyn DynHandle> {
        match k {
            0 => ins::<PL, P0>(&mut self.pool, seed),
            1 => ins::<PL, P1>(&mut self.pool, seed),
            _ => ins::<PL, P2>(&mut self.pool, seed),
        }
    }
    fn insert_with(&mut self, k: usize, seed: u32, mode: WithMode) -> Box<dyn DynHandle> {
        match k {
            0 => ins_with::<PL, P0>(&mut self.pool, seed, mode),
            1 => ins_with::<PL, P1>(&mut self.pool, seed, mode),
            _ => ins_with::<PL, P2>(&mut self.pool, seed, mode),
        }
    }
    fn remove(&mut self, k: usize, h: Box<dyn DynHandle>) {
        match k {
            0 => rem::<PL, P0>(&mut self.pool, h),
            1 => rem::<PL, P1>(&mut self.pool, h),
            _ => rem::<PL, P2>(&mut self.pool, h),
        }
    }
    fn take(&mut self, k: usize, h: Box<dyn DynHandle>) -> u32 {
        match k {
            0 => tak::<PL, P0>(&mut self.pool, h),
            1 => tak::<PL, P1>(&mut self.pool, h),
            _ => tak::<PL, P2>(&mut self.pool, h),
        }
    }
    fn len(&self) -> usize { PoolCommon::len(&self.pool) }
    fn is_empty(&self) -> bool { PoolCommon::is_empty(&self.pool) }
    fn capacity(&self, k: usize) -> usize {
        match k {
            0 => <PL as PoolOps<P0>>::capacity(&self.pool),
            1 => <PL as PoolOps<P1>>::capacity(&self.pool),
            _ => <PL as PoolOps<P2>>::capacity(&self.pool),
        }
    }
    fn reserve(&mut self, k: usize, n: usize) {
        match k {
            0 => <PL as PoolOps<P0>>::reserve(&mut self.pool, n),
            1 => <PL as PoolOps<P1>>::reserve(&mut self.pool, n),
            _ => <PL as PoolOps<P2>>::reserve(&mut self.pool, n),
        }
    }
    fn shrink(&mut self) { PoolCommon::shrink(&mut self.pool); }
    fn iter3(&self) -> Option<Iter3> { PoolCommon::iter3(&self.pool) }
    fn probe(&self) -> Vec<PoolProbe> { PoolCommon::probe(&self.pool) }
}
