//! Append-mode ndjson writer that flushes after every record, so that a crash of the code under test loses nothing.
use std::fs::{File, OpenOptions};
use std::io::Write;
use std::path::Path;
use std::sync::Mutex;

use vrt::Value;

pub struct Tracer {
    out: Mutex<File>,
}

impl Tracer {
    pub fn append(path: impl AsRef<Path>) -> Self {
        let f = OpenOptions::new().create(true).append(true).open(path.as_ref()).expect("cannot open trace file");
        Self { out: Mutex::new(f) }
    }

    pub fn emit(&self, v: &Value) {
        let mut line = serde_json::to_vec(v).expect("trace serialise");
        line.push(b'\n');
        let mut g = self.out.lock().unwrap_or_else(|e| e.into_inner());
        g.write_all(&line).expect("trace write");
    }
}
