//! Harness for C01/C02: drives the nine pool types of `infinity_pool` (built with `--cfg folo_verif`, hook H1) through
//! TLC-generated and seeded random histories and records what the judges need as ndjson.
//!
//!   h_pool replay <stimuli.ndjson> <trace.ndjson>
//!   h_pool random <trace.ndjson> <histories> <ops-per-history> [<pool type>]
//!   h_pool layouts                       (prints the payload layout names)
//!
//! Both commands run the actual work in a child process: if the code under test aborts or crashes, the parent appends
//! an `abort` record to the trace (which the judges reject) and continues with the next history.
use std::env;
use std::fs;
use std::process::{Command, ExitCode};

mod exec;
mod family;
mod payload;
mod pools;
mod random;
mod table;
mod tracer;

use tracer::Tracer;

fn in_big_stack(f: impl FnOnce() + Send + 'static) {
    std::thread::Builder::new().stack_size(768 << 20).spawn(f).expect("spawn").join().expect("executor thread");
}

fn child(args: &[String]) {
    vrt::quiet_panics();
    let mode = args[2].clone();
    let rest: Vec<String> = args[3..].to_vec();
    in_big_stack(move || match mode.as_str() {
        "replay" => {
            let (stims, trace, start, progress) = (&rest[0], &rest[1], rest[2].parse::<usize>().unwrap(), &rest[3]);
            let tr = Tracer::append(trace);
            for (i, v) in vrt::read_ndjson(stims).iter().enumerate().skip(start) {
                fs::write(progress, i.to_string()).expect("progress");
                exec::run_stim(&tr, &exec::parse_stim(v));
            }
        }
        "random" => {
            let (trace, n, ops, start, progress) =
                (&rest[0], rest[1].parse::<u64>().unwrap(), rest[2].parse::<u64>().unwrap(), rest[3].parse::<u64>().unwrap(), &rest[4]);
            let only = rest.get(5).cloned();
            let tr = Tracer::append(trace);
            let seed = vrt::seed_from_env();
            for i in start..n {
                fs::write(progress, i.to_string()).expect("progress");
                random::run_history(&tr, seed, i, ops, only.as_deref());
            }
        }
        _ => panic!("bad child mode"),
    });
}

/// Runs the child until all `total` items are done; a crashed child is recorded and restarted after the crashing item.
fn supervise(trace: &str, total: usize, mk_args: impl Fn(usize, &str) -> Vec<String>) -> ExitCode {
    fs::write(trace, b"").expect("cannot create trace file");
    let progress = format!("{trace}.progress");
    let exe = env::current_exe().expect("current_exe");
    let mut start = 0_usize;
    let mut crashes = 0;
    while start < total {
        fs::write(&progress, start.to_string()).expect("progress");
        let status = Command::new(&exe).arg("child").args(mk_args(start, &progress)).status().expect("spawn child");
        if status.success() {
            break;
        }
        let at: usize = fs::read_to_string(&progress).ok().and_then(|s| s.trim().parse().ok()).unwrap_or(start);
        let tr = Tracer::append(trace);
        #[cfg(unix)]
        let sig = std::os::unix::process::ExitStatusExt::signal(&status).unwrap_or(0);
        #[cfg(not(unix))]
        let sig = 0;
        tr.emit(&vrt::json!({"ev": "abort", "idx": at, "sig": sig, "code": status.code().unwrap_or(-1)}));
        crashes += 1;
        start = at + 1;
    }
    let _ = fs::remove_file(&progress);
    if crashes > 0 {
        eprintln!("h_pool: {crashes} histories ended in a crash of the code under test (recorded as abort events)");
    }
    ExitCode::SUCCESS
}

fn main() -> ExitCode {
    let args: Vec<String> = env::args().collect();
    match args.get(1).map(String::as_str) {
        Some("child") => {
            child(&args);
            ExitCode::SUCCESS
        }
        Some("replay") => {
            let (stims, trace) = (args[2].clone(), args[3].clone());
            let total = vrt::read_ndjson(&stims).len();
            supervise(&trace, total, |start, progress| {
                vec!["replay".into(), stims.clone(), trace.clone(), start.to_string(), progress.to_string()]
            })
        }
        Some("random") => {
            let (trace, n, ops) = (args[2].clone(), args[3].clone(), args[4].clone());
            let only = args.get(5).cloned();
            supervise(&trace, n.parse().expect("histories"), |start, progress| {
                let mut v = vec!["random".into(), trace.clone(), n.clone(), ops.clone(), start.to_string(), progress.to_string()];
                if let Some(o) = &only {
                    v.push(o.clone());
                }
                v
            })
        }
        Some("layouts") => {
            println!("{}", table::LAYOUTS.join(" "));
            ExitCode::SUCCESS
        }
        _ => {
            eprintln!("usage: h_pool replay <stimuli.ndjson> <trace.ndjson> | random <trace.ndjson> <histories> <ops> [<pool type>] | layouts");
            ExitCode::from(2)
        }
    }
}
