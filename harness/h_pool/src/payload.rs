//! Payload types for the pool harness: `Pay<A, N, TAG>` is `N` canary bytes with the alignment of the zero-sized
//! aligner `A` (so size = N rounded up to the alignment). Every payload counts its drops (address + digest at drop
//! time go to a thread-local log) and can be viewed through the trait object `dyn Canary`.
use std::cell::RefCell;
use std::mem::MaybeUninit;

/// Trait used for the trait-object view of a pooled object (cast via `define_pooled_dyn_cast!(Canary)`).
pub trait Canary: Send + Sync {
    /// Digest of the canary bytes, computed through the vtable.
    fn digest_dyn(&self) -> u32;
    /// Address of `self` as seen through the vtable call.
    fn self_addr(&self) -> usize;
}

pub trait Aligner: Copy + Send + Sync + Unpin + 'static {}

macro_rules! aligners {
    ($($name:ident = $n:literal),*) => {$(
        #[derive(Clone, Copy)]
        #[repr(align($n))]
        pub struct $name;
        impl Aligner for $name {}
    )*};
}
aligners!(A1 = 1, A2 = 2, A4 = 4, A8 = 8, A16 = 16, A32 = 32, A64 = 64, A128 = 128, A256 = 256, A512 = 512, A1024 = 1024,
          A2048 = 2048, A4096 = 4096);

/// `N` canary bytes aligned like `A`. `TAG` only makes distinct Rust types with the same layout.
#[repr(C)]
pub struct Pay<A: Aligner, const N: usize, const TAG: u8> {
    _align: [A; 0],
    bytes: [u8; N],
}

#[inline]
pub fn pattern_byte(seed: u32, j: usize) -> u8 {
    let x = seed.wrapping_mul(2_654_435_761) ^ (j as u32).wrapping_mul(40_503).wrapping_add(0x9E37);
    (x ^ (x >> 13) ^ (x >> 7)) as u8
}

#[inline]
fn fnv(bytes: impl Iterator<Item = u8>) -> u32 {
    let mut h: u32 = 0x811C_9DC5;
    for b in bytes {
        h ^= u32::from(b);
        h = h.wrapping_mul(0x0100_0193);
    }
    (h ^ (h >> 30)) & 0x3FFF_FFFF
}

/// Digest of the bytes a payload of `n` bytes written from `seed` must contain (computed without touching memory).
pub fn expected_digest(seed: u32, n: usize) -> u32 {
    fnv((0..n).map(|j| pattern_byte(seed, j)))
}

thread_local! {
    /// (address of the dropped payload, digest of its bytes at drop time)
    pub static DROPS: RefCell<Vec<(usize, u32)>> = const { RefCell::new(Vec::new()) };
}

pub fn drain_drops() -> Vec<(usize, u32)> {
    DROPS.with(|d| std::mem::take(&mut *d.borrow_mut()))
}

pub trait Payload: Canary + Unpin + Send + Sync + Sized + 'static {
    const N: usize;
    /// A value whose bytes follow the pattern of `seed`.
    fn make(seed: u32) -> Self;
    /// Writes the first `upto` pattern bytes in place (all of them initialise the object).
    fn write_in_place(slot: &mut MaybeUninit<Self>, seed: u32, upto: usize);
    fn digest(&self) -> u32;
}

impl<A: Aligner, const N: usize, const TAG: u8> Payload for Pay<A, N, TAG> {
    const N: usize = N;

    fn make(seed: u32) -> Self {
        let mut v = Self { _align: [], bytes: [0_u8; N] };
        for (j, b) in v.bytes.iter_mut().enumerate() {
            *b = pattern_byte(seed, j);
        }
        v
    }

    fn write_in_place(slot: &mut MaybeUninit<Self>, seed: u32, upto: usize) {
        let p = slot.as_mut_ptr().cast::<u8>();
        for j in 0..upto.min(N) {
            // SAFETY: `bytes` is the only sized field and starts at offset 0 (repr(C), zero-length array first).
            unsafe { p.add(j).write(pattern_byte(seed, j)) };
        }
    }

    fn digest(&self) -> u32 {
        fnv(self.bytes.iter().copied())
    }
}

impl<A: Aligner, const N: usize, const TAG: u8> Canary for Pay<A, N, TAG> {
    fn digest_dyn(&self) -> u32 {
        fnv(self.bytes.iter().copied())
    }
    fn self_addr(&self) -> usize {
        std::ptr::from_ref(self) as usize
    }
}

impl<A: Aligner, const N: usize, const TAG: u8> Drop for Pay<A, N, TAG> {
    fn drop(&mut self) {
        let rec = (std::ptr::from_ref(self) as usize, fnv(self.bytes.iter().copied()));
        DROPS.with(|d| d.borrow_mut().push(rec));
    }
}
