//! Seeded random histories: the operation is chosen from what is applicable in the executor's current tables.
use vrt::Rng;

use crate::exec::{decorate, Exec, Op, Stim};
use crate::table::{LAYOUTS, POOL_TYPES};
use crate::tracer::Tracer;

pub fn run_history(tr: &Tracer, seed: u64, index: u64, n_ops: u64, only_pt: Option<&str>) {
    let mut rng = Rng::new(seed ^ index.wrapping_mul(0x9E37_79B9_7F4A_7C15).rotate_left(17));
    let pt = only_pt.map_or_else(|| POOL_TYPES[(index % 9) as usize].to_string(), str::to_string);
    // small layouts most of the time; page-aligned and > 1 MiB payloads now and then (short histories)
    let lay = match rng.below(40) {
        0 => "big",
        1 | 2 => "s4096a4096",
        3..=19 => "s8a8",
        _ => *rng.pick(LAYOUTS),
    };
    let lay = if lay == "big" && rng.chance(1, 2) { "s24a8" } else { lay };
    let raw = pt.starts_with("Raw");
    let cap = *rng.pick(&[2_usize, 2, 2, 3, 3, 0]);
    let must = raw && rng.chance(1, 3);
    let n_ops = if lay == "big" { n_ops.min(40) } else { n_ops };
    let st = Stim { id: format!("rnd-{index}"), pt, lay: lay.to_string(), cap, must, deco: 0, ops: Vec::new() };
    let Some(mut ex) = Exec::start(tr, &st) else { return };
    let max_live = 2 + rng.below(if cap == 0 { 6 } else { 13 }) as usize;
    let deco = rng.chance(1, 3);
    let mut done = 0;
    while done < n_ops {
        done += 1;
        let live = ex.live_objects();
        let hs = ex.handle_ids();
        let alive = ex.pool_alive();
        if !alive && hs.is_empty() {
            break;
        }
        let mut cands: Vec<(u64, Op)> = Vec::new();
        let ncls = ex.n_classes();
        let k = {
            let mut k = rng.below(ncls as u64) as usize;
            if !ex.class_allowed(k) {
                k = 0;
            }
            k
        };
        if alive {
            let room = live.len() < max_live;
            cands.push((if room { 30 } else { 2 }, Op::Insert { k }));
            cands.push((if room { 8 } else { 1 }, Op::InsertWith { k, panic: false }));
            cands.push((3, Op::InsertWith { k, panic: true }));
            cands.push((4, Op::Reserve { k, n: 1 + rng.below(2 * cap.max(2) as u64 + 2) as usize }));
            cands.push((6, Op::Shrink));
            if done + 8 > n_ops || rng.chance(1, 4 * n_ops) {
                cands.push((40, Op::DropPool));
            }
        }
        if !live.is_empty() {
            let o = *rng.pick(&live);
            cands.push((if live.len() >= max_live { 40 } else { 18 }, Op::Destroy { o }));
            if alive {
                cands.push((8, Op::TakeObj { o }));
            }
        }
        if !hs.is_empty() {
            let h = *rng.pick(&hs);
            let (unique, view, _) = ex.handle_shape(h).expect("handle");
            if unique {
                cands.push((5, Op::Share { h }));
            } else {
                cands.push((6, Op::CloneH { h }));
            }
            if view != 2 {
                cands.push((4, Op::Erase { h }));
            }
            if view == 1 {
                cands.push((4, Op::Cast { h }));
                if alive {
                    cands.push((3, Op::TakeH { h }));
                }
            }
            // raw family: never forget the last handle of a live object on purpose (it would only leak)
            let siblings = ex.handles_of(ex.handle_shape(h).expect("handle").2).len();
            if !ex.is_raw() || siblings > 1 {
                cands.push((if alive { 7 } else { 30 }, Op::DropH { h }));
            }
            if ex.is_raw() && alive {
                cands.push((6, Op::Remove { h }));
            }
        }
        if cands.is_empty() {
            break;
        }
        // must-not-drop pools: half of the time empty the pool before the final drop
        if matches!(cands.last(), Some((40, Op::DropPool))) && st.must && !live.is_empty() && rng.chance(1, 2) {
            for o in live {
                if !ex.step(&Op::Destroy { o }, false) {
                    return;
                }
            }
            if !ex.step(&Op::DropPool, false) {
                return;
            }
            continue;
        }
        let total: u64 = cands.iter().map(|c| c.0).sum();
        let mut x = rng.below(total);
        let mut chosen = cands[0].1.clone();
        for (w, op) in cands {
            if x < w {
                chosen = op;
                break;
            }
            x -= w;
        }
        let before = ex.handle_ids();
        if !ex.step(&chosen, false) {
            return;
        }
        if deco && matches!(chosen, Op::Insert { .. }) {
            if let Some(nh) = ex.handle_ids().into_iter().find(|x| !before.contains(x)) {
                if !decorate(&mut ex, &mut rng, nh) {
                    return;
                }
            }
        }
    }
    if ex.pool_alive() && !ex.step(&Op::DropPool, false) {
        return;
    }
    ex.finish();
}
