//! Deterministic scheduler for the concurrency harnesses.
//!
//! Tasks are real OS threads, but exactly one of them runs between two *scheduling points*; everything a task does
//! between two points is one atomic step as far as the other tasks can tell, so the event log is totally ordered and
//! sequentially consistent.  Code under test reaches a scheduling point through the `folo_verif` hooks (shim atomics,
//! named yield points, shim mutexes), which call [`point`], [`spin`] or [`block_until`].  Threads that are not tasks of
//! an executor (the harness main thread, threads spawned by the code under test that the harness does not own) pass
//! through all of these as no-ops.
//!
//! Strategies: `Script` follows a TLC behaviour (sequence of task indexes, optionally with the operation each step is
//! expected to perform; a mismatch is *drift*: it is counted, and the run continues under the seeded random strategy),
//! `Random` (seeded), `Pct` (seeded priorities with a few change points).
//!
//! Deadlock is detected structurally: no task is runnable and not all are finished.  The executor then returns
//! `Outcome::Deadlock` and leaves the stuck threads parked (they are leaked; run such stimuli in a child process if the
//! leaked state matters).
use std::cell::RefCell;
use std::sync::{Arc, Condvar, Mutex};
use std::thread;
use std::time::{Duration, Instant};

use crate::{json, Rng, Value};

#[derive(Clone, Debug, PartialEq, Eq)]
pub enum Status {
    /// Parked at a scheduling point (or not started), may be chosen.
    Runnable,
    /// In a spin loop: only eligible again after another task has taken a step.
    Spinning,
    /// Waiting for a condition that another task must establish (cooperative block); re-evaluated when chosen.
    Blocked(String),
    Finished,
}

#[derive(Clone, Debug)]
pub struct Step {
    pub task: usize,
    /// Operation the task announced at the scheduling point it was resumed from ("start" for the first step).
    pub op: String,
}

#[derive(Clone, Debug)]
pub enum Strategy {
    /// (task index, expected op prefix or "" for any)
    Script(Vec<(usize, String)>),
    Random,
    Pct { changes: usize },
}

#[derive(Debug)]
pub enum Outcome {
    Completed,
    /// (task, status) of every unfinished task
    Deadlock(Vec<(usize, Status)>),
    /// the step budget was exhausted (live-lock or runaway)
    StepLimit,
    /// wall-clock watchdog fired while a task was running (code under test blocked outside scheduler control)
    Stuck(usize),
}

struct TaskInfo {
    name: String,
    status: Status,
    pending_op: String,
    panicked: Option<String>,
    priority: u64,
}

struct State {
    tasks: Vec<TaskInfo>,
    /// task that currently holds the token (None while the executor decides or before start)
    current: Option<usize>,
    /// set by the executor when it gives up (deadlock / limits): parked tasks stay parked forever
    abandoned: bool,
    steps: Vec<Step>,
    log: Vec<Value>,
    since_spin: Vec<bool>, // since_spin[t]: some other task stepped since t began spinning
    drift: usize,
}

struct Shared {
    st: Mutex<State>,
    cv: Condvar,
}

thread_local! {
    static CURRENT: RefCell<Option<(Arc<Shared>, usize)>> = const { RefCell::new(None) };
}

/// True if the calling thread is a task of a running executor.
pub fn in_task() -> bool {
    CURRENT.with(|c| c.borrow().is_some())
}

/// Index of the calling task, if any.
pub fn task_id() -> Option<usize> {
    CURRENT.with(|c| c.borrow().as_ref().map(|(_, t)| *t))
}

fn with_current<R>(f: impl FnOnce(&Arc<Shared>, usize) -> R) -> Option<R> {
    CURRENT.with(|c| c.borrow().as_ref().map(|(s, t)| f(s, *t)))
}

/// Scheduling point: the calling task is about to perform `op`.  Returns when the scheduler resumes the task.
pub fn point(op: &str) {
    with_current(|sh, me| yield_with(sh, me, Status::Runnable, op));
}

/// Scheduling point inside a spin loop: the task will not be resumed until some other task has taken a step.
pub fn spin(op: &str) {
    with_current(|sh, me| yield_with(sh, me, Status::Spinning, op));
}

/// Cooperative blocking: yields until `ready()` is true.  `ready` is evaluated while holding the token, so it may
/// look at shared state of the code under test.  Outside a task it busy-waits with thread::yield_now.
pub fn block_until(reason: &str, mut ready: impl FnMut() -> bool) {
    if !in_task() {
        while !ready() {
            thread::yield_now();
        }
        return;
    }
    loop {
        if ready() {
            return;
        }
        with_current(|sh, me| yield_with(sh, me, Status::Blocked(reason.to_string()), reason));
    }
}

/// Appends a record to the executor's totally ordered log (adds "task" and "seq").  Outside a task: ignored.
pub fn emit(mut v: Value) {
    with_current(|sh, me| {
        let mut st = sh.st.lock().unwrap_or_else(|e| e.into_inner());
        if let Some(o) = v.as_object_mut() {
            o.insert("task".into(), json!(me));
            o.insert("seq".into(), json!(st.log.len() + 1));
        }
        st.log.push(v);
    });
}

fn yield_with(sh: &Arc<Shared>, me: usize, status: Status, op: &str) {
    let mut st = sh.st.lock().unwrap_or_else(|e| e.into_inner());
    st.tasks[me].status = status.clone();
    st.tasks[me].pending_op = op.to_string();
    if status != Status::Runnable {
        st.since_spin[me] = false;
    }
    st.current = None;
    sh.cv.notify_all();
    // park until chosen again
    loop {
        if st.current == Some(me) {
            st.tasks[me].status = Status::Runnable;
            return;
        }
        st = sh.cv.wait(st).unwrap_or_else(|e| e.into_inner());
    }
}

pub struct Exec {
    shared: Arc<Shared>,
    handles: Vec<thread::JoinHandle<()>>,
    strategy: Strategy,
    rng: Rng,
    pub max_steps: usize,
    /// how long a single step may run before the executor declares the task stuck outside scheduler control
    pub step_timeout: Duration,
}

pub struct Report {
    pub outcome: Outcome,
    pub steps: Vec<Step>,
    pub log: Vec<Value>,
    pub drift: usize,
    /// panic message per task (None = returned normally or never finished)
    pub panics: Vec<Option<String>>,
    pub names: Vec<String>,
}

impl Exec {
    pub fn new(strategy: Strategy, seed: u64) -> Self {
        Self {
            shared: Arc::new(Shared {
                st: Mutex::new(State { tasks: vec![], current: None, abandoned: false, steps: vec![], log: vec![], since_spin: vec![], drift: 0 }),
                cv: Condvar::new(),
            }),
            handles: vec![],
            strategy,
            rng: Rng::new(seed),
            max_steps: 200_000,
            step_timeout: Duration::from_secs(20),
        }
    }

    /// Registers a task; it starts parked and runs only when scheduled.  A panic inside `f` is captured (data).
    pub fn spawn(&mut self, name: &str, f: impl FnOnce() + Send + 'static) -> usize {
        let id;
        {
            let mut st = self.shared.st.lock().unwrap();
            id = st.tasks.len();
            let pr = self.rng.next();
            st.tasks.push(TaskInfo { name: name.to_string(), status: Status::Runnable, pending_op: "start".into(), panicked: None, priority: pr });
            st.since_spin.push(true);
        }
        let sh = Arc::clone(&self.shared);
        let h = thread::Builder::new()
            .name(format!("task-{name}"))
            .spawn(move || {
                CURRENT.with(|c| *c.borrow_mut() = Some((Arc::clone(&sh), id)));
                // wait for the first grant
                {
                    let mut st = sh.st.lock().unwrap_or_else(|e| e.into_inner());
                    while st.current != Some(id) {
                        st = sh.cv.wait(st).unwrap_or_else(|e| e.into_inner());
                    }
                }
                let r = crate::catch(f);
                let mut st = sh.st.lock().unwrap_or_else(|e| e.into_inner());
                st.tasks[id].status = Status::Finished;
                st.tasks[id].pending_op = "finished".into();
                if let Err(m) = r {
                    st.tasks[id].panicked = Some(m);
                }
                st.current = None;
                sh.cv.notify_all();
                CURRENT.with(|c| *c.borrow_mut() = None);
            })
            .expect("spawn task thread");
        self.handles.push(h);
        id
    }

    fn eligible(st: &State) -> Vec<usize> {
        st.tasks
            .iter()
            .enumerate()
            .filter(|(i, t)| match t.status {
                Status::Runnable => true,
                // a blocked task may be resumed to re-evaluate its condition, but only after someone else moved
                Status::Spinning | Status::Blocked(_) => st.since_spin[*i],
                Status::Finished => false,
            })
            .map(|(i, _)| i)
            .collect()
    }

    pub fn run(mut self) -> Report {
        let sh = Arc::clone(&self.shared);
        let mut script_pos = 0usize;
        let mut scripted = matches!(self.strategy, Strategy::Script(_));
        let mut pct_changes: Vec<usize> = vec![];
        if let Strategy::Pct { changes } = self.strategy {
            for _ in 0..changes {
                pct_changes.push(self.rng.below(400) as usize);
            }
        }
        let outcome;
        let mut nsteps = 0usize;
        loop {
            let mut st = sh.st.lock().unwrap_or_else(|e| e.into_inner());
            // wait until the token is free (the running task reached its next point or finished)
            let t0 = Instant::now();
            let mut stuck = None;
            while let Some(cur) = st.current {
                let (g, to) = sh.cv.wait_timeout(st, Duration::from_millis(200)).unwrap_or_else(|e| e.into_inner());
                st = g;
                if to.timed_out() && t0.elapsed() > self.step_timeout && st.current == Some(cur) {
                    stuck = Some(cur);
                    break;
                }
            }
            if let Some(cur) = stuck {
                st.abandoned = true;
                outcome = Outcome::Stuck(cur);
                break;
            }
            if st.tasks.iter().all(|t| t.status == Status::Finished) {
                outcome = Outcome::Completed;
                break;
            }
            let el = Self::eligible(&st);
            if el.is_empty() {
                st.abandoned = true;
                outcome = Outcome::Deadlock(
                    st.tasks.iter().enumerate().filter(|(_, t)| t.status != Status::Finished).map(|(i, t)| (i, t.status.clone())).collect(),
                );
                break;
            }
            if nsteps >= self.max_steps {
                st.abandoned = true;
                outcome = Outcome::StepLimit;
                break;
            }
            // choose
            let mut choice = None;
            if scripted {
                if let Strategy::Script(sc) = &self.strategy {
                    if script_pos < sc.len() {
                        let (t, exp) = &sc[script_pos];
                        // a script may resume a spinning/blocked task even without intervening progress (the model allows
                        // a spin loop to iterate as often as it likes); only finished tasks are out of reach
                        let alive = st.tasks.get(*t).map(|x| x.status != Status::Finished).unwrap_or(false);
                        let ok = alive && (exp.is_empty() || st.tasks[*t].pending_op.starts_with(exp.as_str()));
                        if ok {
                            choice = Some(*t);
                            script_pos += 1;
                        } else {
                            st.drift += 1;
                            let pend = st.tasks.get(*t).map(|x| x.pending_op.clone()).unwrap_or_default();
                            st.log.push(json!({"ev":"drift","at":script_pos,"want_task":t,"want_op":exp,"pending":pend}));
                            scripted = false;
                        }
                    } else {
                        scripted = false;
                    }
                }
            }
            let t = match choice {
                Some(t) => t,
                None => match self.strategy {
                    Strategy::Pct { .. } => {
                        if pct_changes.contains(&nsteps) {
                            // demote the currently highest-priority eligible task
                            if let Some(&hi) = el.iter().max_by_key(|i| st.tasks[**i].priority) {
                                st.tasks[hi].priority = self.rng.below(1000);
                            }
                        }
                        *el.iter().max_by_key(|i| st.tasks[**i].priority).unwrap()
                    }
                    _ => el[self.rng.below(el.len() as u64) as usize],
                },
            };
            let op = st.tasks[t].pending_op.clone();
            st.steps.push(Step { task: t, op });
            // Progress = resuming a task that was parked at a real operation.  Resuming a waiting task only lets it
            // re-evaluate its condition; if that were progress, two tasks blocked on each other would ping-pong forever
            // instead of being reported as a deadlock.
            if st.tasks[t].status == Status::Runnable {
                for (i, f) in st.since_spin.iter_mut().enumerate() {
                    if i != t {
                        *f = true;
                    }
                }
            }
            st.current = Some(t);
            nsteps += 1;
            drop(st);
            sh.cv.notify_all();
        }
        let completed = matches!(outcome, Outcome::Completed);
        if completed {
            for h in self.handles.drain(..) {
                let _ = h.join();
            }
        }
        // otherwise: stuck threads are leaked on purpose
        let st = sh.st.lock().unwrap_or_else(|e| e.into_inner());
        Report {
            outcome,
            steps: st.steps.clone(),
            log: st.log.clone(),
            drift: st.drift,
            panics: st.tasks.iter().map(|t| t.panicked.clone()).collect(),
            names: st.tasks.iter().map(|t| t.name.clone()).collect(),
        }
    }
}

/// A mutex whose lock acquisition is a scheduling point and whose contention is visible to the scheduler
/// (a task that cannot take it is `Blocked`, so a self-deadlock is a structural deadlock, not a hang).
/// Poisoning follows std: a panic while the guard is held poisons it.
pub struct SchedMutex<T> {
    inner: std::sync::Mutex<T>,
}

impl<T> SchedMutex<T> {
    pub const fn new(v: T) -> Self {
        Self { inner: std::sync::Mutex::new(v) }
    }

    pub fn lock(&self) -> std::sync::LockResult<std::sync::MutexGuard<'_, T>> {
        if !in_task() {
            return self.inner.lock();
        }
        point("mutex.lock");
        loop {
            match self.inner.try_lock() {
                Ok(g) => return Ok(g),
                Err(std::sync::TryLockError::Poisoned(p)) => return Err(p),
                Err(std::sync::TryLockError::WouldBlock) => {
                    with_current(|sh, me| yield_with(sh, me, Status::Blocked("mutex".into()), "mutex.lock(contended)"));
                }
            }
        }
    }
}

// ------------------------------------------------------------------------------------------------------------------
// Adoption of threads created by the code under test (added for C14: vicinal's worker threads).
//
// The task that is about to create a thread calls [`adopt_child`] (it holds the token, so the registration is ordered
// with everything else); the new thread calls [`ChildToken::attach`] first thing and [`detach`] last thing.  Between the
// two it is an ordinary task: it parks at every scheduling point, shows up in `Report`, counts for deadlock detection,
// and `Exec::run` only reports `Completed` once it has detached.  The executor never joins adopted threads (the code
// under test owns their join handles).

/// Registration of a thread that the calling task is about to create.
pub struct ChildToken {
    shared: Arc<Shared>,
    id: usize,
}

/// Registers a new task for a thread the calling task is about to create.  `None` if the caller is not a task.
pub fn adopt_child(name: &str) -> Option<ChildToken> {
    with_current(|sh, me| {
        let mut st = sh.st.lock().unwrap_or_else(|e| e.into_inner());
        let id = st.tasks.len();
        // deterministic priority for PCT derived from the parent's
        let pr = st.tasks[me].priority.wrapping_mul(0x9E37_79B9_7F4A_7C15).wrapping_add(id as u64);
        st.tasks.push(TaskInfo { name: name.to_string(), status: Status::Runnable, pending_op: "start".into(), panicked: None, priority: pr });
        st.since_spin.push(true);
        ChildToken { shared: Arc::clone(sh), id }
    })
}

impl ChildToken {
    /// Index of the adopted task (as used in `Strategy::Script` and `Report`).
    pub fn id(&self) -> usize {
        self.id
    }

    /// Called on the new thread before anything else: parks until the scheduler grants the first step.
    pub fn attach(self) {
        let ChildToken { shared, id } = self;
        CURRENT.with(|c| *c.borrow_mut() = Some((Arc::clone(&shared), id)));
        let mut st = shared.st.lock().unwrap_or_else(|e| e.into_inner());
        while st.current != Some(id) {
            st = shared.cv.wait(st).unwrap_or_else(|e| e.into_inner());
        }
    }
}

/// Called on an adopted thread as its last action: the task is finished and the token is released.
pub fn detach() {
    let cur = CURRENT.with(|c| c.borrow_mut().take());
    if let Some((sh, id)) = cur {
        let mut st = sh.st.lock().unwrap_or_else(|e| e.into_inner());
        st.tasks[id].status = Status::Finished;
        st.tasks[id].pending_op = "finished".into();
        if st.current == Some(id) {
            st.current = None;
        }
        sh.cv.notify_all();
    }
}

/// Has task `id` of the caller's executor finished?  `None` if the caller is not a task.
pub fn task_finished(id: usize) -> Option<bool> {
    with_current(|sh, _| {
        let st = sh.st.lock().unwrap_or_else(|e| e.into_inner());
        st.tasks.get(id).map(|t| t.status == Status::Finished).unwrap_or(true)
    })
}

/// Yields once as blocked on `reason` (for hook tables whose `blocked` callback re-tests the condition itself).
pub fn yield_blocked(reason: &str) {
    with_current(|sh, me| yield_with(sh, me, Status::Blocked(reason.to_string()), reason));
}

#[cfg(test)]
mod tests {
    use super::*;
    use std::sync::atomic::{AtomicUsize, Ordering};

    #[test]
    fn script_is_followed_and_log_is_ordered() {
        let mut ex = Exec::new(Strategy::Script(vec![(0, String::new()), (1, String::new()), (1, "b".into()), (0, "a".into())]), 1);
        ex.spawn("a", || {
            point("a1");
            emit(json!({"ev":"a"}));
        });
        ex.spawn("b", || {
            point("b1");
            emit(json!({"ev":"b"}));
        });
        let r = ex.run();
        assert!(matches!(r.outcome, Outcome::Completed));
        assert_eq!(r.drift, 0);
        let evs: Vec<&str> = r.log.iter().map(|v| v["ev"].as_str().unwrap()).collect();
        assert_eq!(evs, vec!["b", "a"]);
    }

    #[test]
    fn mutual_block_is_a_deadlock() {
        let flag = Arc::new(AtomicUsize::new(0));
        let mut ex = Exec::new(Strategy::Random, 7);
        for _ in 0..2 {
            let f = Arc::clone(&flag);
            ex.spawn("w", move || {
                point("x");
                block_until("never", || f.load(Ordering::SeqCst) == 1);
            });
        }
        let r = ex.run();
        assert!(matches!(r.outcome, Outcome::Deadlock(_)), "{:?}", r.outcome);
    }

    #[test]
    fn spinner_waits_for_the_other_task() {
        let flag = Arc::new(AtomicUsize::new(0));
        let mut ex = Exec::new(Strategy::Random, 3);
        let f = Arc::clone(&flag);
        ex.spawn("spinner", move || {
            while f.load(Ordering::SeqCst) == 0 {
                spin("spin");
            }
        });
        let f = Arc::clone(&flag);
        ex.spawn("setter", move || {
            point("p1");
            point("p2");
            f.store(1, Ordering::SeqCst);
        });
        let r = ex.run();
        assert!(matches!(r.outcome, Outcome::Completed));
        assert!(r.steps.len() < 20);
    }
}
