//! Deterministic scheduler (filled in with the concurrency harnesses).
