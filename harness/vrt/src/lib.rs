//! Shared runtime of the verification harnesses: ndjson tracer, panic capture, seeded RNG helpers.
//! The deterministic scheduler lives in `sched`.
use std::fs::File;
use std::io::{BufRead, BufReader, BufWriter, Write};
use std::panic::{self, AssertUnwindSafe, UnwindSafe};
use std::path::Path;
use std::sync::Mutex;

pub use serde_json::{json, Value};

pub mod sched;

/// ndjson trace writer; one JSON object per line.
pub struct Tracer {
    out: Mutex<BufWriter<File>>,
}

impl Tracer {
    pub fn create(path: impl AsRef<Path>) -> Self {
        let f = File::create(path.as_ref()).expect("cannot create trace file");
        Self { out: Mutex::new(BufWriter::with_capacity(1 << 20, f)) }
    }

    pub fn emit(&self, v: &Value) {
        let mut g = self.out.lock().unwrap_or_else(|e| e.into_inner());
        serde_json::to_writer(&mut *g, v).expect("trace write");
        g.write_all(b"\n").expect("trace write");
        // run boundaries reach the file at once: if the code under test crashes the process, the trace still holds
        // every completed run and the `reset` of the run that crashed (lib/vlib.py run_stimuli appends the `abort`)
        if matches!(v.get("ev").and_then(Value::as_str), Some("reset" | "end" | "abort")) {
            g.flush().expect("trace flush");
        }
    }

    pub fn flush(&self) {
        let mut g = self.out.lock().unwrap_or_else(|e| e.into_inner());
        g.flush().expect("trace flush");
    }
}

impl Drop for Tracer {
    fn drop(&mut self) {
        self.flush();
    }
}

/// Reads an ndjson file into values.
pub fn read_ndjson(path: impl AsRef<Path>) -> Vec<Value> {
    let f = File::open(path.as_ref()).expect("cannot open ndjson input");
    BufReader::new(f)
        .lines()
        .map(|l| l.expect("read"))
        .filter(|l| !l.trim().is_empty())
        .map(|l| serde_json::from_str(&l).expect("bad json line"))
        .collect()
}

/// Silences the default panic message; panics of the code under test are data.
pub fn quiet_panics() {
    panic::set_hook(Box::new(|_| {}));
}

/// Runs `f`, returning Err(message) if it panicked.
pub fn catch<T>(f: impl FnOnce() -> T) -> Result<T, String> {
    match panic::catch_unwind(AssertUnwindSafe(f)) {
        Ok(v) => Ok(v),
        Err(e) => Err(panic_message(&e)),
    }
}

pub fn catch_us<T>(f: impl FnOnce() -> T + UnwindSafe) -> Result<T, String> {
    catch(f)
}

pub fn panic_message(e: &Box<dyn std::any::Any + Send>) -> String {
    if let Some(s) = e.downcast_ref::<&str>() {
        (*s).to_string()
    } else if let Some(s) = e.downcast_ref::<String>() {
        s.clone()
    } else {
        "<non-string panic>".to_string()
    }
}

/// Small deterministic RNG (splitmix64) so that harnesses do not depend on rand's version-specific streams.
#[derive(Clone, Debug)]
pub struct Rng(pub u64);

impl Rng {
    pub fn new(seed: u64) -> Self {
        Self(seed ^ 0x9E37_79B9_7F4A_7C15)
    }
    pub fn next(&mut self) -> u64 {
        self.0 = self.0.wrapping_add(0x9E37_79B9_7F4A_7C15);
        let mut z = self.0;
        z = (z ^ (z >> 30)).wrapping_mul(0xBF58_476D_1CE4_E5B9);
        z = (z ^ (z >> 27)).wrapping_mul(0x94D0_49BB_1331_11EB);
        z ^ (z >> 31)
    }
    /// uniform in 0..n (n > 0)
    pub fn below(&mut self, n: u64) -> u64 {
        self.next() % n
    }
    pub fn chance(&mut self, num: u64, den: u64) -> bool {
        self.below(den) < num
    }
    pub fn pick<'a, T>(&mut self, xs: &'a [T]) -> &'a T {
        &xs[self.below(xs.len() as u64) as usize]
    }
}

pub fn seed_from_env() -> u64 {
    std::env::var("VERIF_SEED").ok().and_then(|s| s.parse().ok()).unwrap_or(20_260_923)
}
