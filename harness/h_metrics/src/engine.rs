//! Executes one behaviour (real-space) on real threads through the public nm API and logs it.
use std::sync::atomic::{AtomicU64, Ordering};
use std::sync::mpsc::{channel, Receiver, Sender};
use std::thread::{self, JoinHandle};

use nm::{Event, Magnitude, MetricsPusher, Pull, Push, Report};
use vrt::{json, Tracer, Value};

#[derive(Clone, Debug)]
pub struct EventCfg {
    pub push: bool,
    pub table: usize, // index into Tables (ignored when nb == 0)
    pub nb: usize,
}

#[derive(Clone, Debug)]
pub enum Op {
    Obs { t: usize, e: usize, m: i64, n: usize },
    Push { t: usize },
    Exit { t: usize },
    Start { t: usize },
}

#[derive(Clone, Debug)]
pub struct Behaviour {
    pub nt: usize,
    pub events: Vec<EventCfg>,
    pub ops: Vec<Op>,
    pub tag: Value, // provenance (case index, embedding) - carried into the cfg record
}

/// Bound tables; each leaked once so that it can be handed to `EventBuilder::histogram(&'static [Magnitude])`.
#[derive(Default)]
pub struct Tables {
    pub tabs: Vec<&'static [Magnitude]>,
}

impl Tables {
    pub fn add(&mut self, v: Vec<Magnitude>) -> usize {
        if let Some(i) = self.tabs.iter().position(|t| **t == v[..]) {
            return i;
        }
        self.tabs.push(Box::leak(v.into_boxed_slice()));
        self.tabs.len() - 1
    }
    pub fn record(&self) -> Value {
        let t: Vec<Vec<[u16; 4]>> = self.tabs.iter().map(|t| t.iter().map(|&m| limbs(m)).collect()).collect();
        json!({"ev":"tables","tables":t})
    }
}

/// i64 as four 16-bit limbs of its two's-complement pattern, most significant first.
pub fn limbs(x: i64) -> [u16; 4] {
    let u = x as u64;
    [(u >> 48) as u16, (u >> 32) as u16, (u >> 16) as u16, u as u16]
}

enum Cmd {
    Obs { e: usize, m: i64, n: usize },
    Push,
    Exit,
}

enum AnyEvent {
    Pull(Event<Pull>),
    Push(Event<Push>),
}

struct Worker {
    tx: Sender<Cmd>,
    ack: Receiver<Result<(), String>>,
    handle: JoinHandle<()>,
}

static UNIQUE: AtomicU64 = AtomicU64::new(0);

fn spawn_worker(names: Vec<String>, events: Vec<EventCfg>, tabs: Vec<&'static [Magnitude]>) -> Result<Worker, String> {
    let (tx, rx) = channel::<Cmd>();
    let (atx, ack) = channel::<Result<(), String>>();
    let handle = thread::spawn(move || {
        // every thread owns one pusher and its own Event of every name (push events register with the pusher in order)
        let built = vrt::catch(|| {
            let pusher = MetricsPusher::new();
            let mut evs = Vec::new();
            for (i, c) in events.iter().enumerate() {
                let mut b = Event::builder().name(names[i].clone());
                if c.nb > 0 {
                    b = b.histogram(tabs[c.table]);
                }
                evs.push(if c.push { AnyEvent::Push(b.pusher(&pusher).build()) } else { AnyEvent::Pull(b.build()) });
            }
            (pusher, evs)
        });
        let (pusher, evs) = match built {
            Ok(x) => {
                atx.send(Ok(())).ok();
                x
            }
            Err(msg) => {
                atx.send(Err(msg)).ok();
                return;
            }
        };
        let mut flip = false;
        while let Ok(cmd) = rx.recv() {
            let r = match cmd {
                Cmd::Obs { e, m, n } => vrt::catch(|| {
                    flip = !flip;
                    match &evs[e] {
                        AnyEvent::Pull(ev) => observe(ev, m, n, flip),
                        AnyEvent::Push(ev) => observe(ev, m, n, flip),
                    }
                }),
                Cmd::Push => vrt::catch(|| pusher.push()),
                Cmd::Exit => break,
            };
            atx.send(r).ok();
        }
        // events and pusher are dropped here; the thread-local registry is torn down when the thread exits
        drop(evs);
        drop(pusher);
    });
    let w = Worker { tx, ack, handle };
    match w.ack.recv() {
        Ok(Ok(())) => Ok(w),
        Ok(Err(m)) => Err(m),
        Err(_) => Err("worker died while building events".into()),
    }
}

fn observe<P: nm::PublishModel>(ev: &Event<P>, m: i64, n: usize, flip: bool) {
    if n == 1 && m == 1 && flip {
        ev.observe_once();
    } else if n == 1 && flip {
        ev.observe(m);
    } else if m == 1 && flip {
        ev.batch(n).observe_once();
    } else {
        ev.batch(n).observe(m);
    }
}

/// What Report::collect() says about the given event names right now (missing names are logged as such).
pub fn collect(names: &[String]) -> Value {
    let rep = match vrt::catch(Report::collect) {
        Ok(r) => r,
        Err(msg) => return json!({"panic": msg}),
    };
    let mut out = Vec::new();
    for name in names {
        let mut found = None;
        for em in rep.events() {
            if em.name().as_ref() == name.as_str() {
                found = Some(em);
                break;
            }
        }
        out.push(match found {
            None => json!({"c":0,"s":limbs(0),"b":[],"absent":true}),
            Some(em) => {
                let mut b = Vec::new();
                if let Some(h) = em.histogram() {
                    for (k, (mag, cnt)) in h.buckets().enumerate() {
                        if cnt != 0 {
                            // (TLC integers are 32-bit: a count beyond 2e9 - never legitimate here - is logged as 2e9)
                            b.push(json!([k + 1, cnt.min(2_000_000_000), limbs(mag)]));
                        }
                    }
                }
                json!({"c":em.count().min(2_000_000_000),"s":limbs(em.sum()),"b":b})
            }
        });
    }
    Value::Array(out)
}

pub fn fresh_names(n: usize) -> Vec<String> {
    let u = UNIQUE.fetch_add(1, Ordering::Relaxed);
    (0..n).map(|i| format!("v{}_{}_e{}", std::process::id(), u, i + 1)).collect()
}

/// Runs one behaviour; every step is one record carrying the report taken right after it.
pub fn run(tr: &Tracer, tables: &Tables, id: usize, b: &Behaviour) {
    let names = fresh_names(b.events.len());
    let mut workers: Vec<Option<Worker>> = Vec::new();
    for _ in 0..b.nt {
        workers.push(Some(spawn_worker(names.clone(), b.events.clone(), tables.tabs.clone()).expect("worker start")));
    }
    let evj: Vec<Value> = b
        .events
        .iter()
        .map(|c| json!({"kind": if c.push {"push"} else {"pull"}, "tab": c.table + 1, "nb": c.nb}))
        .collect();
    tr.emit(&json!({"ev":"cfg","id":id,"nt":b.nt,"events":evj,"tag":b.tag,"r":collect(&names)}));
    for op in &b.ops {
        let mut rec = match op {
            Op::Obs { t, e, m, n } => {
                let w = workers[*t].as_ref().expect("obs on a live thread");
                w.tx.send(Cmd::Obs { e: *e, m: *m, n: *n }).unwrap();
                let r = w.ack.recv().unwrap();
                let mut rec = json!({"ev":"obs","t":t + 1,"e":e + 1,"m":limbs(*m),"n":n});
                if let Err(msg) = r {
                    rec["panic"] = json!(msg);
                }
                rec
            }
            Op::Push { t } => {
                let w = workers[*t].as_ref().expect("push on a live thread");
                w.tx.send(Cmd::Push).unwrap();
                let r = w.ack.recv().unwrap();
                let mut rec = json!({"ev":"push","t":t + 1});
                if let Err(msg) = r {
                    rec["panic"] = json!(msg);
                }
                rec
            }
            Op::Exit { t } => {
                let w = workers[*t].take().expect("exit of a live thread");
                w.tx.send(Cmd::Exit).unwrap();
                // JoinHandle::join returns after the thread's thread-local destructors ran (pthread_join)
                let r = w.handle.join();
                let mut rec = json!({"ev":"exit","t":t + 1});
                if r.is_err() {
                    rec["panic"] = json!("worker panicked at exit");
                }
                rec
            }
            Op::Start { t } => {
                let mut rec = json!({"ev":"start","t":t + 1});
                match spawn_worker(names.clone(), b.events.clone(), tables.tabs.clone()) {
                    Ok(w) => workers[*t] = Some(w),
                    Err(msg) => rec["panic"] = json!(msg),
                }
                rec
            }
        };
        rec["r"] = collect(&names);
        tr.emit(&rec);
    }
    for w in workers.into_iter().flatten() {
        w.tx.send(Cmd::Exit).ok();
        w.handle.join().ok();
    }
}


// ------------------------------------------------------------------------------------------ timed routes

/// `timed <out>`: the observation routes whose magnitude is a measured duration (Event::observe_duration_millis,
/// Event::batch(n).observe_duration_millis, observe_millis with a known duration, each alone and batched), on a fresh
/// pull and a fresh push event with ONE bucket bound far above anything measured here.  The magnitude is unknown, the
/// number of observations each call stands for is not.  One record per (kind, route).
pub fn timed(out: &str) {
    let tr = vrt::Tracer::create(out);
    static BOUNDS: [Magnitude; 1] = [3_600_000];
    for push in [false, true] {
        for route in 0..4 {
            let name = fresh_names(1).remove(0);
            let name2 = name.clone();
            let r = vrt::catch(move || {
                let pusher = MetricsPusher::new();
                let calls: [usize; 4] = [1, 3, 5, 2];
                let mut n = 0usize;
                macro_rules! drive {
                    ($ev:expr) => {{
                        let ev = $ev;
                        for k in calls {
                            match route {
                                0 => ev.batch(k).observe_duration_millis(|| ()),
                                1 => {
                                    for _ in 0..k {
                                        ev.observe_duration_millis(|| ());
                                    }
                                }
                                2 => ev.batch(k).observe_millis(std::time::Duration::from_millis(7)),
                                _ => {
                                    for _ in 0..k {
                                        ev.observe_millis(std::time::Duration::from_millis(7));
                                    }
                                }
                            }
                            n += k;
                        }
                    }};
                }
                if push {
                    let ev: Event<Push> = Event::builder().name(name2.clone()).histogram(&BOUNDS).pusher(&pusher).build();
                    drive!(&ev);
                    pusher.push();
                } else {
                    let ev: Event<Pull> = Event::builder().name(name2.clone()).histogram(&BOUNDS).build();
                    drive!(&ev);
                }
                n
            });
            let rep = collect(&[name.clone()]);
            let e = &rep[0];
            let (mut b1, mut inf) = (0u64, 0u64);
            if let Some(bs) = e["b"].as_array() {
                for b in bs {
                    match b[0].as_u64() {
                        Some(1) => b1 = b[1].as_u64().unwrap_or(0),
                        _ => inf += b[1].as_u64().unwrap_or(0),
                    }
                }
            }
            // limbs: most significant first? the sign lives in the top limb: negative iff top bit of limb 0 .. use the report directly
            let neg = match vrt::catch(|| Report::collect()) {
                Ok(r) => r.events().find(|x| x.name().as_ref() == name.as_str()).map(|x| x.sum() < 0).unwrap_or(false),
                Err(_) => false,
            };
            tr.emit(&json!({"ev":"timed","kind": if push {"push"} else {"pull"},"route":route,"n": r.clone().unwrap_or(0),
                            "c": e["c"], "b1": b1, "inf": inf, "neg": u8::from(neg), "panic": r.err().unwrap_or_default()}));
        }
    }
    tr.flush();
}
