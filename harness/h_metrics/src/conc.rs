//! Concurrent driver for C16: several threads observe / push while another thread collects reports.
//! Every operation is logged twice, with stamps drawn from one global counter by the performing thread itself:
//! `inv` right before the call and `res` right after it returned.  Stamps are totally ordered consistently with real
//! time, so "res(op) < inv(report)" implies the operation completed before the report began, and an operation whose
//! inv stamp is above res(report) cannot have influenced it.  The merged log (sorted by stamp) is judged by TLC.
use std::sync::atomic::{AtomicBool, AtomicU64, Ordering};
use std::sync::{Arc, Barrier};
use std::thread;

use nm::{Event, Magnitude, MetricsPusher, Report};
use vrt::{json, Rng, Tracer, Value};

use crate::engine::{collect, fresh_names, limbs};

static CLOCK: AtomicU64 = AtomicU64::new(1);

fn stamp() -> u64 {
    CLOCK.fetch_add(1, Ordering::SeqCst)
}

const BOUNDS: &[Magnitude] = &[10, 20, 30];
const MAGS: &[i64] = &[0, 5, 10, 11, 20, 25, 30, 31, 1000];
const WIDE: usize = 600; // e3: a wide histogram; the hammer phase observes into its LAST bucket

fn wide_bounds() -> &'static [Magnitude] {
    static B: std::sync::OnceLock<Vec<Magnitude>> = std::sync::OnceLock::new();
    B.get_or_init(|| (1..=WIDE as i64).map(|i| i * 10).collect())
}

pub fn run(out: &str, writers: usize, n: usize, stream: u64, bursts: usize) {
    let seed = vrt::seed_from_env().wrapping_mul(77).wrapping_add(stream);
    // e1: pull-model, e2: push-model, e3: pull-model, wide; e4: like e3 but NEVER observed beyond its largest bound (its
    // overflow bucket is 0 at all times: a report that reads its count before its buckets must still say 0, not a wrapped
    // or negative remainder); every writer owns one of each
    let names = fresh_names(4);
    let stop = Arc::new(AtomicBool::new(false));
    let start = Arc::new(Barrier::new(writers + 2));
    let mut handles = Vec::new();
    for w in 0..writers {
        let names = names.clone();
        let start = Arc::clone(&start);
        handles.push(thread::spawn(move || {
            let mut log: Vec<(u64, Value)> = Vec::with_capacity(4 * n + 64);
            let mut rng = Rng::new(seed ^ ((w as u64 + 1) << 32));
            let pusher = MetricsPusher::new();
            let pull = Event::builder().name(names[0].clone()).histogram(BOUNDS).build();
            let push = Event::builder().name(names[1].clone()).histogram(BOUNDS).pusher(&pusher).build();
            let wide = Event::builder().name(names[2].clone()).histogram(wide_bounds()).build();
            let wide0 = Event::builder().name(names[3].clone()).histogram(wide_bounds()).build();
            let t = w + 1;
            let mut op = |log: &mut Vec<(u64, Value)>, e: usize, m: i64, cnt: usize| {
                let a = json!({"k":"obs","t":t,"e":e,"m":limbs(m),"n":cnt});
                let i = stamp();
                if e == 1 {
                    if cnt == 1 { pull.observe(m) } else { pull.batch(cnt).observe(m) }
                } else if cnt == 1 {
                    push.observe(m)
                } else {
                    push.batch(cnt).observe(m)
                }
                let r = stamp();
                let mut x = a.clone();
                x["ev"] = json!("inv");
                log.push((i, x));
                let mut y = a;
                y["ev"] = json!("res");
                log.push((r, y));
            };
            let do_push = |log: &mut Vec<(u64, Value)>| {
                let i = stamp();
                pusher.push();
                let r = stamp();
                log.push((i, json!({"ev":"inv","k":"push","t":t})));
                log.push((r, json!({"ev":"res","k":"push","t":t})));
            };
            let mut scratch: Vec<Event> = Vec::new();
            // phase 0 (before any report): observations that belong to the +inf bucket, published
            for _ in 0..20 {
                op(&mut log, 1, 1000, 1);
                op(&mut log, 2, 1000, 1);
                let i = stamp();
                wide.observe(1_000_000);
                let r = stamp();
                log.push((i, json!({"ev":"inv","k":"obs","t":t,"e":3,"m":limbs(1_000_000),"n":1})));
                log.push((r, json!({"ev":"res","k":"obs","t":t,"e":3,"m":limbs(1_000_000),"n":1})));
            }
            do_push(&mut log);
            start.wait();
            for i in 0..n {
                let e = 1 + (rng.below(3) == 0) as usize;
                let m = *rng.pick(MAGS);
                let cnt = if rng.below(8) == 0 { 2 } else { 1 };
                op(&mut log, e, m, cnt);
                if i % 37 == 36 {
                    do_push(&mut log);
                }
                if i % 5 == 4 {
                    // a thread also REGISTERS new events while reports are being collected (its event table is being
                    // written): the judged events of this thread must stay in every report all the same
                    let tmp = Event::builder().name(format!("tmp_{t}_{i}")).build();
                    tmp.observe_once();
                    scratch.push(tmp);
                    if scratch.len() > 64 {
                        scratch.clear();
                    }
                }
            }
            do_push(&mut log);
            // hammer phase: bursts of in-bucket observations with no logging in between (one record pair per burst:
            // every observation of the burst is invoked after the burst's inv stamp and returns before its res stamp).
            // This is the schedule of the model's counterexample (MetricsConc, InfBucketLowOk): a report that reads a
            // bag's count before its buckets while in-bucket observations land in between.
            for bi in 0..bursts {
                let cnt = 4_000_usize;
                let m = (WIDE as i64) * 10;
                let e = if bi % 2 == 0 { 3 } else { 4 };
                let a = json!({"k":"obs","t":t,"e":e,"m":limbs(m),"n":cnt,"burst":true});
                let i = stamp();
                for _ in 0..cnt {
                    if e == 3 { wide.observe(m) } else { wide0.observe(m) }
                }
                let r = stamp();
                let mut x = a.clone();
                x["ev"] = json!("inv");
                log.push((i, x));
                let mut y = a;
                y["ev"] = json!("res");
                log.push((r, y));
            }
            log
        }));
    }
    // reporter
    let rep = {
        let names = names.clone();
        let stop = Arc::clone(&stop);
        let start = Arc::clone(&start);
        thread::spawn(move || {
            let mut log: Vec<(u64, Value)> = Vec::new();
            let mut one = |log: &mut Vec<(u64, Value)>| {
                let i = stamp();
                let r = collect(&names);
                let s = stamp();
                log.push((i, json!({"ev":"inv","k":"rep","t":1})));
                log.push((s, json!({"ev":"res","k":"rep","t":1,"r":r})));
            };
            one(&mut log); // quiescent: writers wait at the barrier
            start.wait();
            let mut k = 0;
            while !stop.load(Ordering::SeqCst) && k < 3000 {
                one(&mut log);
                k += 1;
            }
            log
        })
    };
    start.wait();
    let mut all: Vec<(u64, Value)> = Vec::new();
    for h in handles {
        all.extend(h.join().expect("writer")); // thread exit: archive merge, possibly while a report runs
    }
    stop.store(true, Ordering::SeqCst);
    all.extend(rep.join().expect("reporter"));
    // final quiescent report: everything has returned, every writer has exited
    let i = stamp();
    let r = collect(&names);
    let s = stamp();
    all.push((i, json!({"ev":"inv","k":"rep","t":2})));
    all.push((s, json!({"ev":"res","k":"rep","t":2,"r":r})));
    all.sort_by_key(|x| x.0);
    let tr = Tracer::create(out);
    let b: Vec<[u16; 4]> = BOUNDS.iter().map(|&m| limbs(m)).collect();
    let wb: Vec<[u16; 4]> = wide_bounds().iter().map(|&m| limbs(m)).collect();
    tr.emit(&json!({"ev":"cfg","writers":writers,"reporters":2,
        "events":[{"kind":"pull","bounds":b},{"kind":"push","bounds":b},{"kind":"pull","bounds":wb},{"kind":"pull","bounds":wb}]}));
    for (_, v) in all {
        tr.emit(&v);
    }
    tr.flush();
    let _ = Report::collect;
}
