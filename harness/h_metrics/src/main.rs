//! Harness for C16: drives the real `nm` crate (public API only) with behaviours produced by TLC or by seeded random
//! generators, on real threads, and records what `Report::collect()` returned after every step as ndjson for TLC.
use std::env;

mod conc;
mod engine;
mod stim;

fn main() {
    vrt::quiet_panics();
    let a: Vec<String> = env::args().collect();
    match a.get(1).map(String::as_str) {
        // replay <cases.ndjson> <out.ndjson> <first> <count>
        Some("replay") => stim::replay(&a[2], &a[3], a[4].parse().unwrap(), a[5].parse().unwrap()),
        // random <out.ndjson> <count> <stream>
        Some("random") => stim::random(&a[2], a[3].parse().unwrap(), a[4].parse().unwrap()),
        // conc <out.ndjson> <writers> <observations per writer> <stream> <bursts>
        Some("timed") => engine::timed(&a[2]),
        Some("conc") => conc::run(&a[2], a[3].parse().unwrap(), a[4].parse().unwrap(), a[5].parse().unwrap(), a[6].parse().unwrap()),
        _ => {
            eprintln!("usage: h_metrics replay|random|conc ...");
            std::process::exit(2);
        }
    }
}
