//! Behaviour sources: TLC-generated cases under bucket / magnitude embeddings, and seeded random histories.
use vrt::{json, Rng, Tracer};

use crate::engine::{run, Behaviour, EventCfg, Op, Tables};

/// Where the model's buckets (0-based index j) sit among the real buckets.  The model's dirty-bitmap overflow index
/// is 2: model buckets 0,1 have their own dirty bit, 2,3 share the overflow bit.  The code's index is 63, so every
/// embedding but "small" puts model buckets 0,1 below real index 63 and model buckets 2,3 at or above it.
struct Embedding {
    name: &'static str,
    nb: usize,
    pos: [usize; 4],
    flavour: u8, // 0 ordinary, 1 first bound = i64::MIN, 2 last bound = i64::MAX - 1
}

const EMBEDDINGS: &[Embedding] = &[
    Embedding { name: "small", nb: 4, pos: [0, 1, 2, 3], flavour: 0 },
    Embedding { name: "b62-63-64", nb: 71, pos: [0, 62, 63, 64], flavour: 0 },
    Embedding { name: "b61-63-70", nb: 72, pos: [1, 61, 63, 70], flavour: 1 },
    Embedding { name: "b1-64-70", nb: 75, pos: [0, 1, 64, 70], flavour: 2 },
    Embedding { name: "b61-62-63-64of65", nb: 65, pos: [61, 62, 63, 64], flavour: 0 },
    Embedding { name: "b62-70-74", nb: 75, pos: [2, 62, 70, 74], flavour: 2 },
];

/// Ascending bounds; the bound at `zero_at` is 0 (so -1, 0, 1 are magnitudes next to a bound).
fn table(rng: &mut Rng, nb: usize, zero_at: usize, flavour: u8) -> Vec<i64> {
    let gaps = [3_i64, 4, 7, 1000, 1 << 20, 1 << 33, 1 << 50];
    let mut v = vec![0_i64; nb];
    for i in (0..zero_at).rev() {
        v[i] = v[i + 1] - *rng.pick(&gaps);
    }
    for i in zero_at + 1..nb {
        v[i] = v[i - 1] + *rng.pick(&gaps);
    }
    if flavour == 1 && zero_at != 0 {
        v[0] = i64::MIN;
    }
    if flavour == 2 && zero_at != nb - 1 {
        v[nb - 1] = i64::MAX - 1;
    }
    v
}

fn embed_mag(m: i64, mb: &[i64], tab: &[i64], pos: &[usize]) -> i64 {
    if mb.is_empty() {
        return match m {
            -9 => i64::MIN,
            9 => i64::MAX,
            _ => m * 1_000_003,
        };
    }
    if m < mb[0] - 1 {
        return i64::MIN;
    }
    if m > mb[mb.len() - 1] + 1 {
        return i64::MAX;
    }
    let j = (0..mb.len()).min_by_key(|&j| (m - mb[j]).abs()).unwrap();
    tab[pos[j]].saturating_add(m - mb[j])
}

/// replay: cases[first .. first+count] x every embedding
pub fn replay(cases: &str, out: &str, first: usize, count: usize) {
    let all = vrt::read_ndjson(cases);
    let mut rng = Rng::new(vrt::seed_from_env() ^ 0xC16);
    let mut tables = Tables::default();
    let mut todo: Vec<Behaviour> = Vec::new();
    let mut cache: std::collections::HashMap<(usize, usize, usize), Vec<i64>> = std::collections::HashMap::new();
    for (ci, case) in all.iter().enumerate().skip(first).take(count) {
        let cfg = case["cfg"].as_array().unwrap();
        for (vi, emb) in EMBEDDINGS.iter().enumerate() {
            // one embedding = a rotating choice per case keeps the volume down; "small" and one big one always run
            if !(vi == 0 || vi == 1 + (ci % (EMBEDDINGS.len() - 1))) {
                continue;
            }
            let mut events = Vec::new();
            let mut mbs: Vec<Vec<i64>> = Vec::new();
            let mut tabs: Vec<Vec<i64>> = Vec::new();
            let mut poss: Vec<Vec<usize>> = Vec::new();
            for ec in cfg {
                let mb: Vec<i64> = ec["bounds"].as_array().unwrap().iter().map(|x| x.as_i64().unwrap()).collect();
                let push = ec["kind"].as_str().unwrap() == "push";
                if mb.is_empty() {
                    events.push(EventCfg { push, table: 0, nb: 0 });
                    tabs.push(vec![]);
                    poss.push(vec![]);
                } else {
                    assert!(mb.len() == 4, "embeddings are defined for 4 model buckets");
                    let pos = emb.pos.to_vec();
                    let zero_j = mb.iter().position(|&b| b == 0).unwrap_or(1);
                    // a few tables per embedding are enough (they differ between processes and seeds)
                    let key = (vi, ci % 3, mbs.len());
                    let t = cache.entry(key).or_insert_with(|| table(&mut rng, emb.nb, pos[zero_j], emb.flavour)).clone();
                    let ti = tables.add(t.clone());
                    events.push(EventCfg { push, table: ti, nb: emb.nb });
                    tabs.push(t);
                    poss.push(pos);
                }
                mbs.push(mb);
            }
            let mut nt = 1;
            let mut ops = Vec::new();
            for h in case["h"].as_array().unwrap() {
                let t = h["t"].as_u64().unwrap() as usize - 1;
                nt = nt.max(t + 1);
                match h["op"].as_str().unwrap() {
                    "obs" => {
                        let e = h["e"].as_u64().unwrap() as usize - 1;
                        let m = embed_mag(h["m"].as_i64().unwrap(), &mbs[e], &tabs[e], &poss[e]);
                        ops.push(Op::Obs { t, e, m, n: h["n"].as_u64().unwrap() as usize });
                    }
                    "push" => ops.push(Op::Push { t }),
                    "exit" => ops.push(Op::Exit { t }),
                    "start" => ops.push(Op::Start { t }),
                    x => panic!("unknown op {x}"),
                }
            }
            let nt = case["nt"].as_u64().map(|x| x as usize).unwrap_or(nt.max(2));
            todo.push(Behaviour { nt, events, ops, tag: json!({"case": ci, "emb": emb.name}) });
        }
    }
    execute(out, &tables, &todo);
}

fn execute(out: &str, tables: &Tables, todo: &[Behaviour]) {
    let tr = Tracer::create(out);
    tr.emit(&tables.record());
    for (i, b) in todo.iter().enumerate() {
        run(&tr, tables, i, b);
    }
    tr.flush();
}

fn rand_mag(rng: &mut Rng, tab: &[i64]) -> i64 {
    match rng.below(10) {
        0..=5 if !tab.is_empty() => {
            let b = *rng.pick(tab);
            b.saturating_add(rng.below(3) as i64 - 1)
        }
        6 => *rng.pick(&[i64::MIN, i64::MAX, i64::MIN + 1, i64::MAX - 1]),
        7 => rng.below(3) as i64 - 1,
        _ => (rng.next() as i64) >> rng.below(64),
    }
}

/// Seeded random histories, generated directly in real space (1..4 thread slots, 1..3 event names, 0..100 buckets).
pub fn random(out: &str, count: usize, stream: u64) {
    let mut rng = Rng::new(vrt::seed_from_env().wrapping_mul(31).wrapping_add(stream));
    let mut tables = Tables::default();
    let mut todo = Vec::new();
    for i in 0..count {
        let nt = 1 + rng.below(4) as usize;
        let ne = 1 + rng.below(3) as usize;
        let mut events = Vec::new();
        let mut tabs = Vec::new();
        for _ in 0..ne {
            let nb = *rng.pick(&[0_usize, 1, 2, 5, 10, 63, 64, 65, 100]);
            if nb == 0 {
                events.push(EventCfg { push: rng.chance(1, 2), table: 0, nb: 0 });
                tabs.push(vec![]);
            } else {
                let zero_at = rng.below(nb as u64) as usize;
                let fl = rng.below(3) as u8;
                let t = table(&mut rng, nb, zero_at, fl);
                let ti = tables.add(t.clone());
                events.push(EventCfg { push: rng.chance(1, 2), table: ti, nb });
                tabs.push(t);
            }
        }
        let mut alive = vec![true; nt];
        let mut ops = Vec::new();
        let steps = 8 + rng.below(40);
        for _ in 0..steps {
            let live: Vec<usize> = (0..nt).filter(|&t| alive[t]).collect();
            let dead: Vec<usize> = (0..nt).filter(|&t| !alive[t]).collect();
            if live.is_empty() || (!dead.is_empty() && rng.chance(1, 6)) {
                let t = *rng.pick(&dead);
                alive[t] = true;
                ops.push(Op::Start { t });
                continue;
            }
            let t = *rng.pick(&live);
            match rng.below(100) {
                0..=71 => {
                    let e = rng.below(ne as u64) as usize;
                    let m = rand_mag(&mut rng, &tabs[e]);
                    let n = match rng.below(10) {
                        0 => 0,
                        1..=6 => 1,
                        7 | 8 => 2 + rng.below(5) as usize,
                        _ => 1 + rng.below(30_000) as usize,
                    };
                    ops.push(Op::Obs { t, e, m, n });
                }
                72..=89 => ops.push(Op::Push { t }),
                _ => {
                    alive[t] = false;
                    ops.push(Op::Exit { t });
                }
            }
        }
        todo.push(Behaviour { nt, events, ops, tag: json!({"random": i, "stream": stream}) });
    }
    execute(out, &tables, &todo);
}
