//! Child side: interprets one program on one real pool type with scripted destructors / closures.
//!
//! Event vocabulary (same as `hist` of spec/poolcb/PoolCallbacks.tla): {"ev","a","o","v"} (+ "msg", "ids")
//!   call/ret      a top-level operation of main and its outcome (ret.a = returned | panicked)
//!   cb/cbend      user code starts / ends normally (a = dtor | init | iter, o = object)
//!   act/actret    a re-entrant pool operation made by user code (a = len | insert | drop), and its normal return
//!   upanic        user code is about to panic;   panic: the panic hook saw a panic (a = message class)
//!   ins           an object is now in the pool;  iterated: an iteration ran to its end (v = count, ids)
use std::any::Any;
use std::cell::{Cell, RefCell, UnsafeCell};
use std::collections::BTreeMap;
use std::mem::MaybeUninit;
use std::rc::Rc;

use infinity_pool::{
    BlindPool, BlindPooledMut, DropPolicy, LocalBlindPool, LocalBlindPooledMut, LocalOpaquePool, LocalPinnedPool, LocalPooledMut,
    OpaquePool, PinnedPool, PooledMut, RawBlindPool, RawBlindPooledMut, RawOpaquePool, RawPinnedPool, RawPooledMut,
};
use vrt::{json, Value};

const FILLER: u32 = 1000;

fn emit(v: Value) {
    let mut s = v.to_string();
    s.push('\n');
    // SAFETY: plain write(2) of a valid buffer to stdout; one call per event so a later hang/abort loses nothing.
    unsafe {
        libc::write(1, s.as_ptr().cast(), s.len());
    }
}

fn ev(e: &str, a: &str, o: u32, v: usize) {
    emit(json!({"ev":e,"a":a,"o":o,"v":v}));
}

fn classify(msg: &str) -> &'static str {
    if msg.starts_with("user panic") {
        "user"
    } else if msg.contains("we never panic while holding this lock") || msg.contains("PoisonError") {
        "poisoned"
    } else if msg.contains("already borrowed") || msg.contains("already mutably borrowed") {
        "borrow"
    } else if msg.contains("there must still be a slab") {
        "slab"
    } else if msg.contains("panic in a destructor during cleanup") {
        "cleanup"
    } else {
        "other"
    }
}

// ------------------------------------------------------------------------------------------ scripted payload

#[derive(Clone, Copy, PartialEq, Debug)]
enum Body {
    Ret,
    Panic,
    Len,
    Insert,
}

fn body_of(s: &str) -> Body {
    match s {
        "ret" => Body::Ret,
        "panic" => Body::Panic,
        "len" => Body::Len,
        "insert" => Body::Insert,
        x => panic!("harness: unknown destructor body {x}"),
    }
}

/// A handle to another object of the same pool, held as a field of an object.
struct Owned {
    id: u32,
    h: Option<Box<dyn Any>>,
}

impl Drop for Owned {
    fn drop(&mut self) {
        ev("act", "drop", self.id, 0);
        drop(self.h.take());
        ev("actret", "drop", 0, 0);
    }
}

pub struct Obj {
    id: u32,
    body: Body,
    /// Set once the object is in the pool. A value that never got in (its insert was refused) is dropped silently.
    armed: Cell<bool>,
    #[allow(dead_code)] // owned for its Drop
    owned: Vec<Owned>,
}

// SAFETY: the child process is single-threaded; the marker is needed only because the thread-safe pools demand
// `T: Send` while the same payload type also carries handles of the single-threaded pools.
unsafe impl Send for Obj {}

impl Obj {
    fn new(id: u32, body: Body, owned: Vec<Owned>) -> Self {
        Self { id, body, armed: Cell::new(false), owned }
    }
    fn plain(id: u32) -> Self {
        Self::new(id, Body::Ret, Vec::new())
    }
}

impl Drop for Obj {
    fn drop(&mut self) {
        if !self.armed.get() || self.id >= FILLER {
            return;
        }
        ev("cb", "dtor", self.id, 0);
        match self.body {
            Body::Ret => {}
            Body::Panic => {
                ev("upanic", "dtor", self.id, 0);
                panic!("user panic {}", self.id);
            }
            Body::Len => {
                ev("act", "len", 0, 0);
                let v = ctx().ops.len();
                ev("actret", "len", 0, v);
            }
            Body::Insert => {
                ev("act", "insert", 0, 0);
                ctx_insert_plain();
                ev("actret", "insert", 0, 0);
            }
        }
        ev("cbend", "dtor", self.id, 0);
        // the fields (`owned`) are dropped after this body, also when it panicked
    }
}

// ------------------------------------------------------------------------------------------ context

trait PoolOps {
    fn len(&self) -> usize;
    fn insert_plain(&self, o: Obj) -> Box<dyn Any>;
}

struct Ctx {
    ops: Rc<dyn PoolOps>,
    /// handles held by main: object id -> handle clones
    table: RefCell<BTreeMap<u32, Vec<Box<dyn Any>>>>,
    next: Cell<u32>,
}

thread_local! {
    static CTX: RefCell<Option<Rc<Ctx>>> = const { RefCell::new(None) };
    static FILL_ONE: Cell<bool> = const { Cell::new(false) };
}

fn ctx() -> Rc<Ctx> {
    CTX.with(|c| c.borrow().as_ref().expect("no ctx").clone())
}

fn fresh_id() -> u32 {
    let c = ctx();
    let id = c.next.get();
    c.next.set(id + 1);
    id
}

/// user code inserts a fresh plain object; main keeps the handle
fn ctx_insert_plain() {
    let c = ctx();
    let id = fresh_id();
    let h = c.ops.insert_plain(Obj::plain(id));
    ev("ins", "insert", id, 0);
    c.table.borrow_mut().insert(id, vec![h]);
}

// ------------------------------------------------------------------------------------------ pool adapters

trait Adapter: Sized + 'static {
    type H: 'static;
    const HAS_ITER: bool;
    const RAW: bool = false;
    fn new() -> Self;
    /// raw pools only: main drops the pool itself
    fn drop_pool(&self) {
        unreachable!()
    }
    fn insert(&self, o: Obj) -> Self::H;
    fn insert_with(&self, f: &mut dyn FnMut() -> Obj) -> Self::H;
    /// with_iter(closure): `f` runs inside the closure and gets the ids of the iterated objects
    fn iterate(&self, f: &mut dyn FnMut(&mut dyn Iterator<Item = u32>));
    fn len(&self) -> usize;
    fn capacity(&self) -> usize;
    fn obj(h: &Self::H) -> &Obj;
    fn share(h: Self::H) -> (Box<dyn Any>, Box<dyn Any>);
    /// the handle(s) with the payload type erased (`.erase()`: `PooledMut<()>` ...); raw adapters keep the typed handle
    fn erased(h: Self::H) -> Box<dyn Any> {
        Box::new(h)
    }
    fn share_erased(h: Self::H) -> (Box<dyn Any>, Box<dyn Any>) {
        Self::share(h)
    }
    /// drop one handle (managed/local: the handle's Drop; raw: pool.remove(handle))
    fn drop_handle(&self, h: Box<dyn Any>);
}

fn id_at<T>(p: std::ptr::NonNull<T>) -> u32 {
    // SAFETY: the pools iterate occupied slots only and every object in these pools is an `Obj`.
    unsafe { (*p.cast::<Obj>().as_ptr()).id }
}

macro_rules! write_with {
    ($f:ident) => {
        |u: &mut MaybeUninit<Obj>| {
            u.write($f());
        }
    };
}

macro_rules! managed_like {
    ($name:ident, $pool:ty, $handle:ty, $ctor:expr, $iter:tt) => {
        struct $name($pool);
        impl Adapter for $name {
            type H = $handle;
            const HAS_ITER: bool = $iter;
            fn new() -> Self {
                Self($ctor)
            }
            fn insert(&self, o: Obj) -> Self::H {
                self.0.insert(o)
            }
            fn insert_with(&self, f: &mut dyn FnMut() -> Obj) -> Self::H {
                // SAFETY: the closure initialises the object (or panics).
                unsafe { self.0.insert_with(write_with!(f)) }
            }
            fn iterate(&self, f: &mut dyn FnMut(&mut dyn Iterator<Item = u32>)) {
                managed_like!(@iter $iter, self, f)
            }
            fn len(&self) -> usize {
                self.0.len()
            }
            fn capacity(&self) -> usize {
                managed_like!(@cap $iter, self)
            }
            fn obj(h: &Self::H) -> &Obj {
                h
            }
            fn share(h: Self::H) -> (Box<dyn Any>, Box<dyn Any>) {
                let s = h.into_shared();
                let c = s.clone();
                (Box::new(s), Box::new(c))
            }
            fn erased(h: Self::H) -> Box<dyn Any> {
                Box::new(h.erase())
            }
            fn share_erased(h: Self::H) -> (Box<dyn Any>, Box<dyn Any>) {
                let s = h.erase().into_shared();
                let c = s.clone();
                (Box::new(s), Box::new(c))
            }
            fn drop_handle(&self, h: Box<dyn Any>) {
                drop(h);
            }
        }
    };
    (@iter true, $s:ident, $f:ident) => {
        $s.0.with_iter(|it| {
            let mut ids = it.map(id_at);
            $f(&mut ids)
        })
    };
    (@iter false, $s:ident, $f:ident) => {{
        let _ = $f;
        unreachable!("no iteration on blind pools")
    }};
    (@cap true, $s:ident) => {
        $s.0.capacity()
    };
    (@cap false, $s:ident) => {
        $s.0.capacity_for::<Obj>()
    };
}

managed_like!(AOpaque, OpaquePool, PooledMut<Obj>, OpaquePool::with_layout_of::<Obj>(), true);
managed_like!(APinned, PinnedPool<Obj>, PooledMut<Obj>, PinnedPool::<Obj>::new(), true);
managed_like!(ABlind, BlindPool, BlindPooledMut<Obj>, BlindPool::new(), false);
managed_like!(ALocalOpaque, LocalOpaquePool, LocalPooledMut<Obj>, LocalOpaquePool::with_layout_of::<Obj>(), true);
managed_like!(ALocalPinned, LocalPinnedPool<Obj>, LocalPooledMut<Obj>, LocalPinnedPool::<Obj>::new(), true);
managed_like!(ALocalBlind, LocalBlindPool, LocalBlindPooledMut<Obj>, LocalBlindPool::new(), false);

/// Raw pools take `&mut self`; user code cannot reach them while they run, so only main calls in here and the
/// exclusive reference handed out below is never aliased.
macro_rules! raw_like {
    ($name:ident, $pool:ty, $handle:ty, $ctor:expr, $iter:tt) => {
        struct $name(UnsafeCell<Option<$pool>>);
        impl $name {
            #[allow(clippy::mut_from_ref)]
            fn p(&self) -> &mut $pool {
                // SAFETY: see the comment on the macro: single-threaded, never re-entered.
                unsafe { (*self.0.get()).as_mut().expect("harness: raw pool already dropped") }
            }
        }
        impl Adapter for $name {
            type H = $handle;
            const HAS_ITER: bool = $iter;
            const RAW: bool = true;
            fn new() -> Self {
                Self(UnsafeCell::new(Some($ctor)))
            }
            fn drop_pool(&self) {
                // SAFETY: see the comment on the macro.
                let p = unsafe { (*self.0.get()).take() };
                drop(p);
            }
            fn insert(&self, o: Obj) -> Self::H {
                self.p().insert(o)
            }
            fn insert_with(&self, f: &mut dyn FnMut() -> Obj) -> Self::H {
                // SAFETY: the closure initialises the object (or panics).
                unsafe { self.p().insert_with(write_with!(f)) }
            }
            fn iterate(&self, f: &mut dyn FnMut(&mut dyn Iterator<Item = u32>)) {
                raw_like!(@iter $iter, self, f)
            }
            fn len(&self) -> usize {
                self.p().len()
            }
            fn capacity(&self) -> usize {
                raw_like!(@cap $iter, self)
            }
            fn obj(h: &Self::H) -> &Obj {
                // SAFETY: the object is in the pool while main holds its handle.
                unsafe { h.as_ref() }
            }
            fn share(_h: Self::H) -> (Box<dyn Any>, Box<dyn Any>) {
                unreachable!("raw handles are not reference counted")
            }
            fn drop_handle(&self, h: Box<dyn Any>) {
                let h = *h.downcast::<$handle>().expect("raw handle");
                // SAFETY: the handle came from this pool and the object is still in it.
                unsafe { self.p().remove(h) };
            }
        }
    };
    (@iter true, $s:ident, $f:ident) => {{
        let mut ids = $s.p().iter().map(id_at);
        $f(&mut ids)
    }};
    (@iter false, $s:ident, $f:ident) => {{
        let _ = $f;
        unreachable!("no iteration on blind pools")
    }};
    (@cap true, $s:ident) => {
        $s.p().capacity()
    };
    (@cap false, $s:ident) => {
        $s.p().capacity_for::<Obj>()
    };
}

raw_like!(ARawOpaque, RawOpaquePool, RawPooledMut<Obj>, RawOpaquePool::builder().layout_of::<Obj>().drop_policy(DropPolicy::MustNotDropContents).build(), true);
raw_like!(ARawPinned, RawPinnedPool<Obj>, RawPooledMut<Obj>, RawPinnedPool::<Obj>::builder().drop_policy(DropPolicy::MustNotDropContents).build(), true);
raw_like!(ARawBlind, RawBlindPool, RawBlindPooledMut<Obj>, RawBlindPool::builder().drop_policy(DropPolicy::MustNotDropContents).build(), false);

struct Ops<A: Adapter>(Rc<A>);

impl<A: Adapter> PoolOps for Ops<A> {
    fn len(&self) -> usize {
        self.0.len()
    }
    fn insert_plain(&self, o: Obj) -> Box<dyn Any> {
        let h = self.0.insert(o);
        A::obj(&h).armed.set(true);
        Box::new(h)
    }
}

// ------------------------------------------------------------------------------------------ interpreter

/// a top-level operation of main: logged, caught, outcome logged
fn call(a: &str, o: u32, f: impl FnOnce() -> usize) {
    ev("call", a, o, 0);
    match vrt::catch(f) {
        Ok(v) => ev("ret", "returned", 0, v),
        Err(_) => ev("ret", "panicked", 0, 0),
    }
}

fn take_handle(c: &Ctx, id: u32) -> Box<dyn Any> {
    let mut t = c.table.borrow_mut();
    let v = t.get_mut(&id).expect("harness: no such handle");
    let h = v.pop().expect("harness: no handle left");
    if v.is_empty() {
        t.remove(&id);
    }
    h
}

/// the scripted action of a closure (init / iter); `kind` names the callback
fn closure_action<A: Adapter>(pool: &A, kind: &str, sc: &str, captured: &mut Option<Box<dyn Any>>) {
    ev("cb", kind, 0, 0);
    match sc {
        "plain" => {}
        "panic" => {
            ev("upanic", kind, 0, 0);
            panic!("user panic closure");
        }
        "len" => {
            ev("act", "len", 0, 0);
            let v = pool.len();
            ev("actret", "len", 0, v);
        }
        "insert" => {
            ev("act", "insert", 0, 0);
            ctx_insert_plain();
            ev("actret", "insert", 0, 0);
        }
        "drop" => {
            ev("act", "drop", 1, 0);
            pool.drop_handle(captured.take().expect("harness: nothing captured"));
            ev("actret", "drop", 0, 0);
        }
        x => panic!("harness: unknown closure script {x}"),
    }
}

thread_local! {
    /// this run holds every scripted object through type-erased handles
    static ERASED: Cell<bool> = const { Cell::new(false) };
}

fn run<A: Adapter>(p: &Value, fill: bool) {
    let erased = ERASED.with(Cell::get);
    let pool = Rc::new(A::new());
    let c = Rc::new(Ctx { ops: Rc::new(Ops(pool.clone())), table: RefCell::new(BTreeMap::new()), next: Cell::new(1) });
    CTX.with(|x| *x.borrow_mut() = Some(c.clone()));

    let n = p["n"].as_u64().unwrap() as u32;
    let by = p["by"].as_u64().unwrap() as u32;
    let par: Vec<u32> = p["par"].as_array().unwrap().iter().map(|v| v.as_u64().unwrap() as u32).collect();
    let dt: Vec<Body> = p["dt"].as_array().unwrap().iter().map(|v| body_of(v.as_str().unwrap())).collect();
    let op = p["op"].as_str().unwrap();
    let sc = p["sc"].as_str().unwrap();
    let shared = p["hk"].as_str().unwrap() == "shared";

    // ---- setup: children have larger ids than their parents, so build from the highest id down
    let mut pending: BTreeMap<u32, A::H> = BTreeMap::new();
    for i in (1..=n).rev() {
        let kids: Vec<u32> = (i + 1..=n).filter(|j| par[(*j - 1) as usize] == i).collect();
        let owned = kids
            .iter()
            .map(|j| {
                let h = pending.remove(j).unwrap();
                Owned { id: *j, h: Some(if erased { A::erased(h) } else { Box::new(h) as Box<dyn Any> }) }
            })
            .collect();
        let h = pool.insert(Obj::new(i, dt[(i - 1) as usize], owned));
        A::obj(&h).armed.set(true);
        pending.insert(i, h);
    }
    let mut setup = Vec::new();
    for i in 1..=n {
        setup.push(json!({"o":i,"owner":par[(i - 1) as usize],"rc": if i == 1 && shared {2} else {1}}));
    }
    if let Some(h) = pending.remove(&1) {
        let hs: Vec<Box<dyn Any>> = if shared {
            let (a, b) = if erased { A::share_erased(h) } else { A::share(h) };
            vec![a, b]
        } else if erased {
            vec![A::erased(h)]
        } else {
            vec![Box::new(h)]
        };
        c.table.borrow_mut().insert(1, hs);
    }
    assert!(pending.is_empty(), "harness: object graph is not a tree rooted at 1");
    for b in 0..by {
        let id = n + 1 + b;
        let h = c.ops.insert_plain(Obj::plain(id));
        c.table.borrow_mut().insert(id, vec![h]);
        setup.push(json!({"o":id,"owner":0,"rc":1}));
    }
    c.next.set(n + by + 1);
    // ---- optional: make the slab of the scripted objects full (vacancy bookkeeping path on removal)
    let mut fillers = Vec::new();
    if fill {
        // "one": leave exactly one vacant slot (the trigger's insertion is the one that fills the slab - or fails to)
        let one = FILL_ONE.with(Cell::get);
        if pool.capacity() == 0 {
            fillers.push(pool.insert(Obj::plain(FILLER)));
        }
        while pool.len() + usize::from(one) < pool.capacity() {
            let h = pool.insert(Obj::plain(FILLER));
            fillers.push(h);
        }
    }
    emit(json!({"ev":"setup","a":"-","o":0,"v":fillers.len(),"objs":setup,"cap":pool.capacity(),"len":pool.len()}));
    let nfill = fillers.len();

    // ---- trigger
    match op {
        "drop" => {
            for _ in 0..(if shared { 2 } else { 1 }) {
                let h = take_handle(&c, 1);
                call("drop", 1, || {
                    pool.drop_handle(h);
                    0
                });
            }
        }
        "iw" => {
            let mut captured = if sc == "drop" { Some(take_handle(&c, 1)) } else { None };
            call("iw", 0, || {
                let mut id = 0;
                let h = pool.insert_with(&mut || {
                    closure_action(&*pool, "init", sc, &mut captured);
                    id = fresh_id();
                    ev("cbend", "init", id, 0);
                    Obj::plain(id)
                });
                A::obj(&h).armed.set(true);
                ev("ins", "iw", id, 0);
                c.table.borrow_mut().insert(id, vec![Box::new(h)]);
                0
            });
        }
        "wi" => {
            let mut captured = if sc == "drop" { Some(take_handle(&c, 1)) } else { None };
            call("wi", 0, || {
                let mut count = 0;
                pool.iterate(&mut |it| {
                    closure_action(&*pool, "iter", sc, &mut captured);
                    count = consume(it, nfill);
                });
                count
            });
        }
        x => panic!("harness: unknown trigger {x}"),
    }

    // ---- probes
    call("len", 0, || pool.len());
    if A::HAS_ITER {
        call("iter", 0, || {
            let mut count = 0;
            pool.iterate(&mut |it| {
                ev("cb", "iter", 0, 0);
                count = consume(it, nfill);
            });
            count
        });
    }
    call("cap", 0, || pool.capacity());
    call("ins", 0, || {
        let id = fresh_id();
        let h = c.ops.insert_plain(Obj::plain(id));
        ev("ins", "insert", id, 0);
        c.table.borrow_mut().insert(id, vec![h]);
        id as usize
    });
    call("len", 0, || pool.len());
    // ---- drop everything main still holds, lowest id first (destructors may hand main new handles)
    loop {
        let id = match c.table.borrow().keys().next() {
            Some(id) => *id,
            None => break,
        };
        let h = take_handle(&c, id);
        call("drop", id, || {
            pool.drop_handle(h);
            0
        });
    }
    call("len", 0, || pool.len());
    // capacity() promises room for capacity-len more objects without allocating: take it at its word
    call("capfill", 0, || {
        let cap0 = pool.capacity();
        let room = cap0.saturating_sub(pool.len());
        let hs: Vec<A::H> = (0..room).map(|_| pool.insert(Obj::plain(FILLER))).collect();
        let cap1 = pool.capacity();
        for h in hs {
            pool.drop_handle(Box::new(h));
        }
        cap1 - cap0
    });
    if A::RAW && !fill {
        // built with DropPolicy::MustNotDropContents: dropping the (now empty) pool must not panic
        call("droppool", 0, || {
            pool.drop_pool();
            0
        });
    }
    emit(json!({"ev":"finished"}));
    // no destructor of a leaked object may add events after the end: leave without unwinding anything
    // SAFETY: plain process exit.
    unsafe { libc::_exit(0) };
}

/// drives the iterator to its end; logs what it yielded (fillers are counted, not listed)
fn consume(it: &mut dyn Iterator<Item = u32>, _nfill: usize) -> usize {
    let mut ids = Vec::new();
    let mut count = 0;
    for id in it {
        count += 1;
        if id < FILLER {
            ids.push(id);
        }
    }
    ids.sort_unstable();
    emit(json!({"ev":"iterated","a":"iter","o":0,"v":count,"ids":ids}));
    ev("cbend", "iter", 0, 0);
    count
}

pub fn main(program: &str) {
    std::panic::set_hook(Box::new(|info| {
        let msg = if let Some(s) = info.payload().downcast_ref::<&str>() {
            (*s).to_string()
        } else if let Some(s) = info.payload().downcast_ref::<String>() {
            s.clone()
        } else {
            "<non-string panic>".to_string()
        };
        let msg: String = msg.chars().take(160).collect();
        emit(json!({"ev":"panic","a":classify(&msg),"o":0,"v":0,"msg":msg}));
    }));
    let v: Value = serde_json::from_str(program).expect("bad program json");
    let p = &v["prog"];
    let fill = v["fill"].as_bool().unwrap_or(false) || v["fill"] == "one";
    FILL_ONE.with(|e| e.set(v["fill"] == "one"));
    ERASED.with(|e| e.set(v["erased"].as_bool().unwrap_or(false)));
    match v["pool"].as_str().unwrap() {
        "OpaquePool" => run::<AOpaque>(p, fill),
        "PinnedPool" => run::<APinned>(p, fill),
        "BlindPool" => run::<ABlind>(p, fill),
        "LocalOpaquePool" => run::<ALocalOpaque>(p, fill),
        "LocalPinnedPool" => run::<ALocalPinned>(p, fill),
        "LocalBlindPool" => run::<ALocalBlind>(p, fill),
        "RawOpaquePool" => run::<ARawOpaque>(p, fill),
        "RawPinnedPool" => run::<ARawPinned>(p, fill),
        "RawBlindPool" => run::<ARawBlind>(p, fill),
        x => {
            eprintln!("unknown pool type {x}");
            std::process::exit(3);
        }
    }
}
