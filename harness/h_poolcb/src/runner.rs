//! Parent side: one child process per program, many at a time (a deadlocked child sleeps in a futex and costs
//! nothing), each under a watchdog. A child that is still alive at the deadline is killed and recorded as "hung".
use std::io::Read;
use std::os::unix::process::ExitStatusExt;
use std::process::{Command, Stdio};
use std::sync::atomic::{AtomicUsize, Ordering};
use std::sync::{Arc, Mutex};
use std::time::{Duration, Instant};

use vrt::{json, Value};

fn run_one(exe: &std::path::Path, idx: usize, prog: &Value, watchdog: Duration) -> Vec<Value> {
    let mut out = vec![json!({"ev":"reset","idx":idx,"pool":prog["pool"],"fill":prog["fill"],"prog":prog["prog"]})];
    let mut ch = Command::new(exe)
        .arg("child")
        .arg(prog.to_string())
        .stdin(Stdio::null())
        .stdout(Stdio::piped())
        .stderr(Stdio::null())
        .spawn()
        .expect("cannot spawn child");
    let start = Instant::now();
    let deadline = start + watchdog;
    let hard_cap = start + watchdog * 9;
    let mut nap = Duration::from_micros(200);
    let mut hung = false;
    let mut timed_out = false;
    // "hung" is decided structurally, not by the clock alone: after the watchdog period the (single-threaded) child
    // must be asleep in futex(2) with unchanged CPU time on two looks one second apart; such a process can never be
    // woken. A child that is merely slow (loaded machine) is given more time, up to 9 watchdog periods.
    let mut blocked_seen: Option<(u64, Instant)> = None;
    let status = loop {
        match ch.try_wait().expect("try_wait") {
            Some(st) => break st,
            None => {
                let now = Instant::now();
                if now >= deadline {
                    match blocked_in_futex(ch.id()) {
                        Some(cpu) => match blocked_seen {
                            Some((cpu0, t0)) if cpu0 == cpu => {
                                if now.duration_since(t0) >= Duration::from_secs(1) {
                                    hung = true;
                                }
                            }
                            _ => blocked_seen = Some((cpu, now)),
                        },
                        None => blocked_seen = None,
                    }
                    if !hung && now >= hard_cap {
                        timed_out = true;
                    }
                    if hung || timed_out {
                        let _ = ch.kill();
                        break ch.wait().expect("wait");
                    }
                    std::thread::sleep(Duration::from_millis(100));
                    continue;
                }
                std::thread::sleep(nap);
                nap = (nap * 2).min(Duration::from_millis(25));
            }
        }
    };
    let mut buf = String::new();
    let _ = ch.stdout.take().unwrap().read_to_string(&mut buf);
    let mut finished = false;
    for line in buf.lines() {
        if let Ok(v) = serde_json::from_str::<Value>(line) {
            if v["ev"] == "finished" {
                finished = true;
            } else {
                out.push(v);
            }
        }
    }
    let end = if timed_out {
        json!({"ev":"end","a":"harness-error","o":0,"v":0,"msg":"child neither finished nor blocked in futex within 9 watchdog periods"})
    } else if hung {
        json!({"ev":"end","a":"hung","o":0,"v":0})
    } else if let Some(sig) = status.signal() {
        json!({"ev":"end","a":"abort","o":0,"v":sig})
    } else if status.code() == Some(0) && finished {
        json!({"ev":"end","a":"exit","o":0,"v":0})
    } else {
        json!({"ev":"end","a":"harness-error","o":0,"v":status.code().unwrap_or(-1)})
    };
    out.push(end);
    out
}

/// Some(cpu ticks) iff the process is sleeping inside futex(2) (x86-64 syscall 202)
fn blocked_in_futex(pid: u32) -> Option<u64> {
    let stat = std::fs::read_to_string(format!("/proc/{pid}/stat")).ok()?;
    let rest = &stat[stat.rfind(')')? + 2..];
    let f: Vec<&str> = rest.split(' ').collect();
    let state = f.first()?;
    let cpu = f.get(11)?.parse::<u64>().ok()? + f.get(12)?.parse::<u64>().ok()?;
    let sc = std::fs::read_to_string(format!("/proc/{pid}/syscall")).ok()?;
    if *state == "S" && sc.starts_with("202 ") {
        Some(cpu)
    } else {
        if std::env::var("H_POOLCB_DEBUG").is_ok() {
            eprintln!("watchdog: pid {pid} not blocked in futex: state={state} syscall={}", sc.trim());
        }
        None
    }
}

pub fn run(programs: &str, trace: &str, jobs: usize, watchdog_ms: u64) {
    let progs = Arc::new(vrt::read_ndjson(programs));
    let exe = std::env::current_exe().expect("current_exe");
    let next = Arc::new(AtomicUsize::new(0));
    let results: Arc<Mutex<Vec<Option<Vec<Value>>>>> = Arc::new(Mutex::new(vec![None; progs.len()]));
    let mut ths = Vec::new();
    for _ in 0..jobs.max(1).min(progs.len().max(1)) {
        let (progs, exe, next, results) = (progs.clone(), exe.clone(), next.clone(), results.clone());
        ths.push(
            std::thread::Builder::new()
                .stack_size(256 * 1024)
                .spawn(move || loop {
                    let i = next.fetch_add(1, Ordering::SeqCst);
                    if i >= progs.len() {
                        break;
                    }
                    let r = run_one(&exe, i, &progs[i], Duration::from_millis(watchdog_ms));
                    results.lock().unwrap()[i] = Some(r);
                })
                .expect("spawn worker"),
        );
    }
    for t in ths {
        t.join().expect("worker panicked");
    }
    let tr = vrt::Tracer::create(trace);
    for r in results.lock().unwrap().iter() {
        for v in r.as_ref().expect("missing result") {
            tr.emit(v);
        }
    }
    tr.flush();
}
