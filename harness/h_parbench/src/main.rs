//! C17 harness: drives the real `par_bench` (`Run` -> `ConfiguredRun::execute_on` on a `ThreadPool` of real pinned threads)
//! with callbacks that are harness code, and records every callback entry/exit and every other access to the state
//! the callbacks borrow as ndjson for TLC (Trace_ParBench).
//!
//! The "borrowed state" is one heap object per run ([`Borrowed`]) that is intentionally leaked, never freed: an access
//! after `execute_on` returned or unwound is therefore an *event* (`"late":true`), not undefined behaviour, even when
//! the code under test lets a worker run a lifetime-erased closure too late.
//!
//!   h_parbench healthy <out.ndjson> <kmax> <stagger_ms>
//!   h_parbench faults  <cases.ndjson> <out.ndjson> <gate_ms> <reps>
//!
//! Nothing here decides anything: the judge is ParBenchAbs.tla.
use std::cell::Cell;
use std::fs::File;
use std::io::{BufWriter, Write};
use std::num::NonZero;
use std::sync::atomic::{AtomicBool, AtomicUsize, Ordering::SeqCst};
use std::sync::{mpsc, Condvar, Mutex};
use std::time::{Duration, Instant};

use many_cpus::SystemHardware;
use par_bench::{Run, ThreadPool};
use vrt::{json, Value};

/// How long `execute_on` may take before the run is recorded as hung (its thread is then leaked).
const WATCHDOG: Duration = Duration::from_secs(12);
/// After this many hung runs the remaining stimuli are skipped (each costs a watchdog period).
const MAX_HUNG: usize = 2;

static LOG: Mutex<Option<BufWriter<File>>> = Mutex::new(None);

fn log_line(v: &Value) {
    let mut g = LOG.lock().unwrap_or_else(|e| e.into_inner());
    if let Some(w) = g.as_mut() {
        serde_json::to_writer(&mut *w, v).expect("trace write");
        w.write_all(b"\n").expect("trace write");
    }
}

fn log_flush() {
    let mut g = LOG.lock().unwrap_or_else(|e| e.into_inner());
    if let Some(w) = g.as_mut() {
        w.flush().expect("flush");
    }
}

/// State borrowed by the callbacks of one run.  Leaked on purpose.
static NEXT_RUN: AtomicUsize = AtomicUsize::new(1);

struct Borrowed {
    /// distinguishes the runs a pool thread takes part in
    run_id: usize,
    /// "poison": set (under the log lock) as soon as `execute_on` returned or unwound
    returned: AtomicBool,
    next_ord: AtomicUsize,
    k: usize,
    /// panic position per worker ordinal (arrival order at prepare_thread), 0 = never; empty = healthy run
    panic_at: Vec<usize>,
    /// ordinal that dawdles in prepare_thread (0 = nobody) and for how long
    stagger: (usize, u64),
    gate_ms: u64,
    gate: Mutex<GateState>,
    gate_cv: Condvar,
}

#[derive(Default)]
struct GateState {
    panics: usize,
    last_panic: Option<Instant>,
    opened_by_return: usize,
    opened_by_timeout: usize,
}

thread_local! {
    static ORD: Cell<usize> = const { Cell::new(0) };
    static POS: Cell<usize> = const { Cell::new(0) };
    static GRP: Cell<usize> = const { Cell::new(0) };
    static GATED: Cell<bool> = const { Cell::new(false) };
    static LAST_RUN: Cell<usize> = const { Cell::new(0) };
}

impl Borrowed {
    /// Every access to the borrowed object goes through here: reads the poison flag and writes the record atomically
    /// with respect to the `ret` record of the thread that called `execute_on`.
    fn access(&self, mut v: Value) {
        let mut g = LOG.lock().unwrap_or_else(|e| e.into_inner());
        let late = self.returned.load(SeqCst);
        v["late"] = json!(late);
        if let Some(w) = g.as_mut() {
            serde_json::to_writer(&mut *w, &v).expect("trace write");
            w.write_all(b"\n").expect("trace write");
        }
    }

    fn mark_returned(&self, v: &Value) {
        let mut g = LOG.lock().unwrap_or_else(|e| e.into_inner());
        self.returned.store(true, SeqCst);
        if let Some(w) = g.as_mut() {
            serde_json::to_writer(&mut *w, v).expect("trace write");
            w.write_all(b"\n").expect("trace write");
        }
        drop(g);
        self.gate_cv.notify_all();
    }

    fn pre_barrier(&self, pos: usize) -> bool {
        pos >= 1 && pos <= self.k + 1
    }

    /// Position at which healthy workers are held back so that the fault on another worker happens first and the
    /// thread in `execute_on` gets the chance to leave early: 1 if someone panics during preparation, else k+2.
    fn gate_position(&self) -> Option<(usize, usize)> {
        let pre = self.panic_at.iter().filter(|&&p| self.pre_barrier(p)).count();
        let post = self.panic_at.iter().filter(|&&p| p > self.k + 1).count();
        if pre > 0 {
            Some((1, pre))
        } else if post > 0 {
            Some((self.k + 2, post))
        } else {
            None
        }
    }

    fn maybe_gate(&self, w: usize, pos: usize) {
        if self.gate_ms == 0 || GATED.get() {
            return;
        }
        let my_panic = self.panic_at.get(w - 1).copied().unwrap_or(0);
        if my_panic != 0 {
            return; // workers that are going to panic are never held back (no deadlock by construction)
        }
        let Some((gpos, expected)) = self.gate_position() else { return };
        if pos != gpos {
            return;
        }
        GATED.set(true);
        let t = Duration::from_millis(self.gate_ms);
        let t0 = Instant::now();
        let mut g = self.gate.lock().unwrap_or_else(|e| e.into_inner());
        loop {
            if self.returned.load(SeqCst) {
                g.opened_by_return += 1;
                return;
            }
            // the planned panic never came (the code under test skipped the callback it was planned in): do not wait for ever
            if t0.elapsed() > Duration::from_secs(2) {
                g.opened_by_timeout += 1;
                return;
            }
            if g.panics >= expected {
                if let Some(lp) = g.last_panic {
                    if lp.elapsed() >= t {
                        g.opened_by_timeout += 1;
                        return;
                    }
                }
            }
            let (ng, _) = self.gate_cv.wait_timeout(g, Duration::from_millis(2)).unwrap_or_else(|e| e.into_inner());
            g = ng;
        }
    }

    /// One callback invocation.
    fn callback(&self, name: &str, grp: Option<usize>) {
        let first_of_run = LAST_RUN.get() != self.run_id;
        LAST_RUN.set(self.run_id);
        if name == "prepare_thread" {
            ORD.set(self.next_ord.fetch_add(1, SeqCst) + 1);
            POS.set(1);
            GATED.set(false);
        } else if first_of_run {
            // a run configured WITHOUT prepare_thread (builder: groups(..).prepare_iter(..)): the (empty) per-thread
            // preparation is recorded when the worker's first callback arrives, so that the same judge applies
            ORD.set(self.next_ord.fetch_add(1, SeqCst) + 1);
            GATED.set(false);
            if let Some(g) = grp {
                GRP.set(g);
            }
            self.access(json!({"ev":"enter","w":ORD.get(),"cb":"prepare_thread","grp":GRP.get()}));
            self.access(json!({"ev":"exit","w":ORD.get(),"cb":"prepare_thread","panic":false}));
            POS.set(2);
        }
        if let Some(g) = grp {
            GRP.set(g);
        }
        let w = ORD.get();
        let pos = POS.get();
        POS.set(pos + 1);
        self.maybe_gate(w, pos);
        self.access(json!({"ev":"enter","w":w,"cb":name,"grp":GRP.get()}));
        if name == "prepare_thread" && self.stagger.0 == w {
            std::thread::sleep(Duration::from_millis(self.stagger.1));
        }
        let pan = self.panic_at.get(w - 1).copied().unwrap_or(0) == pos;
        self.access(json!({"ev":"exit","w":w,"cb":name,"panic":pan}));
        if pan {
            {
                let mut g = self.gate.lock().unwrap_or_else(|e| e.into_inner());
                g.panics += 1;
                g.last_panic = Some(Instant::now());
            }
            self.gate_cv.notify_all();
            panic!("injected panic in {name} on worker {w}");
        }
    }
}

/// Thread state returned by prepare_thread; its destructor touches the borrowed object.
struct TState {
    b: &'static Borrowed,
    w: usize,
}

impl Drop for TState {
    fn drop(&mut self) {
        self.b.access(json!({"ev":"touch","w":self.w,"what":"drop_thread_state"}));
    }
}

struct Outcome {
    kind: &'static str,
    outs: usize,
}

/// Runs one configured run on `pool`; returns None if it hung (the pool is then lost with the stuck thread).
fn run_one(pool: ThreadPool, n: usize, g: usize, k: usize, panic_at: Vec<usize>, stagger: (usize, u64), gate_ms: u64) -> (Option<ThreadPool>, bool) {
    run_one_cfg(pool, n, g, k, panic_at, stagger, gate_ms, false)
}

/// `no_pt`: the run is configured without `prepare_thread` (builder order `Run::new().groups(g).prepare_iter(..)`).
#[allow(clippy::too_many_arguments)]
fn run_one_cfg(pool: ThreadPool, n: usize, g: usize, k: usize, panic_at: Vec<usize>, stagger: (usize, u64), gate_ms: u64, no_pt: bool) -> (Option<ThreadPool>, bool) {
    let faulty = panic_at.iter().any(|&p| p != 0);
    let b: &'static Borrowed = Box::leak(Box::new(Borrowed {
        run_id: NEXT_RUN.fetch_add(1, SeqCst),
        returned: AtomicBool::new(false),
        next_ord: AtomicUsize::new(0),
        k,
        panic_at: panic_at.clone(),
        stagger,
        gate_ms,
        gate: Mutex::new(GateState::default()),
        gate_cv: Condvar::new(),
    }));
    log_line(&json!({"ev":"run","n":n,"g":g,"k":k,"faulty":faulty,"panic_at":panic_at,"stagger":stagger.0}));
    let (tx, rx) = mpsc::channel::<(ThreadPool, Outcome)>();
    std::thread::Builder::new()
        .name("execute_on".into())
        .spawn(move || {
            let mut pool = pool;
            // The configured run owns the boxed callbacks; it is leaked as well so that the closures themselves stay
            // valid memory whatever the code under test does with them later.
            let r = if no_pt {
                let run = Box::leak(Box::new(
                    Run::new()
                        .groups(NonZero::new(g).unwrap())
                        .prepare_iter(move |a| {
                            b.callback("prepare_iter", Some(a.meta().group_index()));
                            ORD.get()
                        })
                        .measure_wrapper(
                            move |a| {
                                b.callback("begin", Some(a.meta().group_index()));
                                ORD.get()
                            },
                            move |w: usize| {
                                b.callback("end", None);
                                w
                            },
                        )
                        .iter(move |a| {
                            b.callback("iter", Some(a.meta().group_index()));
                        }),
                ));
                vrt::catch(|| {
                    let summary = run.execute_on(&mut pool, k as u64);
                    summary.measure_outputs().count()
                })
            } else {
                let run = Box::leak(Box::new(
                    Run::new()
                        .groups(NonZero::new(g).unwrap())
                        .prepare_thread(move |a| {
                            b.callback("prepare_thread", Some(a.meta().group_index()));
                            TState { b, w: ORD.get() }
                        })
                        .prepare_iter(move |a| {
                            b.callback("prepare_iter", Some(a.meta().group_index()));
                            a.thread_state().w
                        })
                        .measure_wrapper(
                            move |a| {
                                b.callback("begin", Some(a.meta().group_index()));
                                a.thread_state().w
                            },
                            move |w: usize| {
                                b.callback("end", None);
                                w
                            },
                        )
                        .iter(move |a| {
                            b.callback("iter", Some(a.meta().group_index()));
                        }),
                ));
                vrt::catch(|| {
                    let summary = run.execute_on(&mut pool, k as u64);
                    summary.measure_outputs().count()
                })
            };
            let out = match r {
                Ok(outs) => Outcome { kind: "ok", outs },
                Err(_) => Outcome { kind: "panic", outs: 0 },
            };
            b.mark_returned(&json!({"ev":"ret","kind":out.kind,"outs":out.outs}));
            let _ = tx.send((pool, out));
        })
        .expect("spawn");
    match rx.recv_timeout(WATCHDOG) {
        Ok((pool, _out)) => {
            // Give late workers (if the code under test leaves any) the time to show themselves, then close the run.
            if faulty {
                std::thread::sleep(Duration::from_millis(gate_ms.max(5)));
            }
            let gs = b.gate.lock().unwrap_or_else(|e| e.into_inner());
            log_line(&json!({"ev":"quiet","gate_return":gs.opened_by_return,"gate_timeout":gs.opened_by_timeout}));
            (Some(pool), false)
        }
        Err(_) => {
            b.mark_returned(&json!({"ev":"ret","kind":"hung","outs":0}));
            log_line(&json!({"ev":"quiet","gate_return":0,"gate_timeout":0}));
            (None, true)
        }
    }
}

fn new_pool(n: usize) -> Option<ThreadPool> {
    let procs = SystemHardware::current().processors().to_builder().take(NonZero::new(n).unwrap())?;
    Some(ThreadPool::new(&procs))
}

/// Dropping a pool whose workers died panics inside `Drop` (data, not a harness failure); surviving workers then exit
/// on their own because their command channel closes.
fn drop_pool(pool: ThreadPool) {
    let _ = vrt::catch(move || drop(pool));
}

fn healthy(out: &str, kmax: usize, stagger_ms: u64) {
    *LOG.lock().unwrap() = Some(BufWriter::with_capacity(1 << 20, File::create(out).expect("create trace")));
    let ncpu = SystemHardware::current().processors().len().min(16);
    let mut hung = 0usize;
    let mut runs = 0usize;
    'outer: for n in 1..=ncpu {
        let Some(mut pool) = new_pool(n) else { continue };
        for g in (1..=n).filter(|g| n % g == 0) {
            for k in 0..=kmax {
                // the same pool is reused across runs, as a benchmark does; a few runs make one worker dawdle in
                // prepare_thread so that a barrier that lets the others go early is visible
                let stagger = if stagger_ms > 0 && k == 1 && n >= 2 && n <= 6 { (n, stagger_ms) } else { (0, 0) };
                log_line(&json!({"ev":"reset"}));
                // every other configuration is built without prepare_thread (another legal builder order)
                let no_pt = k >= 1 && (n + g + k) % 2 == 1 && stagger.0 == 0; // (k = 0: no callback before the start barrier to hang the recorded preparation on)
                let (p, h) = run_one_cfg(pool, n, g, k, vec![], stagger, 0, no_pt);
                runs += 1;
                match p {
                    Some(p) => pool = p,
                    None => {
                        hung += usize::from(h);
                        if hung >= MAX_HUNG {
                            log_line(&json!({"ev":"reset"}));
                            log_line(&json!({"ev":"aborted","why":"too many hung runs","runs":runs}));
                            break 'outer;
                        }
                        match new_pool(n) {
                            Some(p) => pool = p,
                            None => continue 'outer,
                        }
                    }
                }
            }
        }
        drop_pool(pool);
    }
    log_flush();
    println!("{}", json!({"runs":runs,"hung":hung,"max_threads":ncpu}));
}

fn faults(cases: &str, out: &str, gate_ms: u64, reps: usize) {
    *LOG.lock().unwrap() = Some(BufWriter::with_capacity(1 << 20, File::create(out).expect("create trace")));
    let cases = vrt::read_ndjson(cases);
    let mut hung = 0usize;
    let mut runs = 0usize;
    let mut skipped = 0usize;
    'outer: for c in &cases {
        let n = c["n"].as_u64().unwrap() as usize;
        let g = c["g"].as_u64().unwrap() as usize;
        let k = c["k"].as_u64().unwrap() as usize;
        let panic_at: Vec<usize> = c["panic_at"].as_array().unwrap().iter().map(|x| x.as_u64().unwrap() as usize).collect();
        let healthy = panic_at.iter().all(|&p| p == 0);
        for _ in 0..(if healthy { 1 } else { reps }) {
            let Some(pool) = new_pool(n) else {
                skipped += 1;
                continue 'outer;
            };
            log_line(&json!({"ev":"reset"}));
            let (p, h) = run_one(pool, n, g, k, panic_at.clone(), (0, 0), gate_ms);
            runs += 1;
            if let Some(p) = p {
                // a benchmark goes on using its pool after a run whose callback panicked: the next, healthy run on the SAME
                // pool must be a complete, ordinary run (every worker still there, nothing unwinds early)
                if !healthy {
                    log_line(&json!({"ev":"reset"}));
                    let (p2, h2) = run_one(p, n, g, k, vec![], (0, 0), 0);
                    runs += 1;
                    hung += usize::from(h2);
                    if let Some(p2) = p2 {
                        drop_pool(p2);
                    }
                } else {
                    drop_pool(p);
                }
            }
            if h {
                hung += 1;
                if hung >= MAX_HUNG {
                    log_line(&json!({"ev":"reset"}));
                    log_line(&json!({"ev":"aborted","why":"too many hung runs","runs":runs}));
                    break 'outer;
                }
            }
        }
    }
    log_flush();
    println!("{}", json!({"runs":runs,"hung":hung,"skipped":skipped,"cases":cases.len()}));
}

fn main() {
    vrt::quiet_panics();
    let args: Vec<String> = std::env::args().collect();
    match args.get(1).map(String::as_str) {
        Some("healthy") => healthy(&args[2], args[3].parse().unwrap(), args[4].parse().unwrap()),
        Some("faults") => faults(&args[2], &args[3], args[4].parse().unwrap(), args[5].parse().unwrap()),
        _ => {
            eprintln!("usage: h_parbench healthy <out> <kmax> <stagger_ms> | faults <cases> <out> <gate_ms> <reps>");
            std::process::exit(2);
        }
    }
    // stuck threads (if any) must not keep the process alive
    std::process::exit(0);
}
