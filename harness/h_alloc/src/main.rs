//! Harness for C18: a RECORDING inner allocator wrapped in `alloc_tracker::Allocator::new`, whose `GlobalAlloc` methods
//! are called directly (it is NOT the process's global allocator, so nothing but the harness allocates through it;
//! the tracker's counters are thread-locals / statics updated by those methods regardless of installation).
//! Sessions, operations, spans and reports go through the public API.  Everything is recorded as ndjson for TLC.
use std::alloc::{GlobalAlloc, Layout, System};
use std::cell::RefCell;
use std::collections::HashMap;
use std::env;
use std::sync::atomic::{AtomicU64, Ordering};
use std::sync::mpsc::{channel, Receiver, Sender};
use std::sync::{Arc, Mutex};
use std::thread::{self, JoinHandle};

use alloc_tracker::{Allocator, ProcessSpan, Report, Session, ThreadSpan};
use vrt::{json, Rng, Tracer, Value};

// ------------------------------------------------------------------------------------------ gate allocator (the harness's own)

/// The harness process's global allocator: System, except that a thread can ask to be PARKED inside its n-th allocation
/// from now on (command `oprace`).  alloc_tracker's bookkeeping (Session::operation, spans, reports) allocates through
/// the global allocator, so this places one thread at a chosen point INSIDE such a call with no hook in the crate.
struct GateAlloc;

thread_local! {
    /// 0 = not armed; k > 0: the k-th allocation of this thread from now parks
    static PARK_AT: std::cell::Cell<u32> = const { std::cell::Cell::new(0) };
}
static PARKED: std::sync::atomic::AtomicBool = std::sync::atomic::AtomicBool::new(false);
static RELEASE: std::sync::atomic::AtomicBool = std::sync::atomic::AtomicBool::new(false);

fn gate() {
    let hit = PARK_AT.try_with(|c| {
        let k = c.get();
        if k == 0 {
            return false;
        }
        c.set(k - 1);
        k == 1
    });
    if hit == Ok(true) {
        PARKED.store(true, Ordering::SeqCst);
        while !RELEASE.load(Ordering::SeqCst) {
            std::thread::yield_now();
        }
    }
}

// SAFETY: forwards to System unchanged.
unsafe impl GlobalAlloc for GateAlloc {
    unsafe fn alloc(&self, layout: Layout) -> *mut u8 {
        gate();
        unsafe { System.alloc(layout) }
    }
    unsafe fn dealloc(&self, ptr: *mut u8, layout: Layout) {
        unsafe { System.dealloc(ptr, layout) }
    }
    unsafe fn alloc_zeroed(&self, layout: Layout) -> *mut u8 {
        gate();
        unsafe { System.alloc_zeroed(layout) }
    }
    unsafe fn realloc(&self, ptr: *mut u8, layout: Layout, new_size: usize) -> *mut u8 {
        gate();
        unsafe { System.realloc(ptr, layout, new_size) }
    }
}

#[global_allocator]
static GLOBAL: GateAlloc = GateAlloc;

/// oprace <out> <max n>: for n = 1..max: thread A calls session.operation("x") and is parked inside its n-th allocation;
/// thread B then calls operation("x") for the same new name and records a span (it may have to wait for A, if A holds
/// the session's lock); A is released, finishes and records its span.  Both spans belong to operation "x": the report
/// must account for both, wherever inside operation() the first caller was overtaken.
fn oprace(out: &str, max_n: u32) {
    let tr = Tracer::create(out);
    for n in 1..=max_n {
        let session = Arc::new(Session::new().no_stdout().no_file());
        PARKED.store(false, Ordering::SeqCst);
        RELEASE.store(false, Ordering::SeqCst);
        let done_a = Arc::new(std::sync::atomic::AtomicBool::new(false));
        let (sa, da) = (Arc::clone(&session), Arc::clone(&done_a));
        let a = thread::spawn(move || {
            PARK_AT.with(|c| c.set(n));
            let op = sa.operation("x");
            PARK_AT.with(|c| c.set(0));
            drop(op.measure_thread().iterations(1));
            da.store(true, Ordering::SeqCst);
        });
        let t0 = std::time::Instant::now();
        while !PARKED.load(Ordering::SeqCst) && !done_a.load(Ordering::SeqCst) && t0.elapsed().as_millis() < 2000 {
            thread::yield_now();
        }
        let overtaken = PARKED.load(Ordering::SeqCst);
        let done_b = Arc::new(std::sync::atomic::AtomicBool::new(false));
        let (sb, db) = (Arc::clone(&session), Arc::clone(&done_b));
        let b = thread::spawn(move || {
            let op = sb.operation("x");
            drop(op.measure_thread().iterations(1));
            db.store(true, Ordering::SeqCst);
        });
        let t1 = std::time::Instant::now();
        while !done_b.load(Ordering::SeqCst) && t1.elapsed().as_millis() < 150 {
            thread::yield_now();
        }
        let b_overtook = done_b.load(Ordering::SeqCst);
        RELEASE.store(true, Ordering::SeqCst);
        let pa = a.join().is_err();
        let pb = b.join().is_err();
        tr.emit(&json!({"ev":"reset","id":n,"tag":{"oprace":n,"a_parked":overtaken,"b_finished_while_a_parked":b_overtook}}));
        tr.emit(&json!({"ev":"span_start","id":1,"t":1,"kind":"thread","s":1,"o":"x"}));
        tr.emit(&json!({"ev":"span_end","id":1,"t":1,"iters":1}));
        tr.emit(&json!({"ev":"span_start","id":2,"t":2,"kind":"thread","s":1,"o":"x"}));
        let mut last = json!({"ev":"span_end","id":2,"t":2,"iters":1,"rep":[report_json(&session.to_report())]});
        if pa || pb {
            last["panic"] = json!("operation() or a span panicked");
        }
        tr.emit(&last);
    }
    tr.flush();
}

// ------------------------------------------------------------------------------------------ recording allocator

#[derive(Clone, Debug)]
struct InnerCall {
    m: &'static str,
    size: usize,
    align: usize,
    ptr: usize,
    nsize: usize,
    ret: usize,
}

thread_local! {
    static INNER_LOG: RefCell<Vec<InnerCall>> = const { RefCell::new(Vec::new()) };
}

fn log_inner(c: InnerCall) {
    INNER_LOG.with(|l| l.borrow_mut().push(c));
}

/// Serves from the System allocator and logs every request with its layout, pointers and return value.  Requests whose
/// (new) size is a "refusal size" (size % 64 == 61) are refused like an exhausted allocator would: null is returned, a block
/// being reallocated stays valid.  A refused request is still a request: it is forwarded, logged and must be counted.
struct Recorder;

fn refused(size: usize) -> bool {
    size % 64 == 61
}

// SAFETY: every method forwards to System with the arguments it was given.
unsafe impl GlobalAlloc for Recorder {
    unsafe fn alloc(&self, layout: Layout) -> *mut u8 {
        let r = if refused(layout.size()) { std::ptr::null_mut() } else { unsafe { System.alloc(layout) } };
        log_inner(InnerCall { m: "alloc", size: layout.size(), align: layout.align(), ptr: 0, nsize: 0, ret: r as usize });
        r
    }
    unsafe fn dealloc(&self, ptr: *mut u8, layout: Layout) {
        log_inner(InnerCall { m: "dealloc", size: layout.size(), align: layout.align(), ptr: ptr as usize, nsize: 0, ret: 0 });
        unsafe { System.dealloc(ptr, layout) }
    }
    unsafe fn alloc_zeroed(&self, layout: Layout) -> *mut u8 {
        let r = if refused(layout.size()) { std::ptr::null_mut() } else { unsafe { System.alloc_zeroed(layout) } };
        log_inner(InnerCall { m: "alloc_zeroed", size: layout.size(), align: layout.align(), ptr: 0, nsize: 0, ret: r as usize });
        r
    }
    unsafe fn realloc(&self, ptr: *mut u8, layout: Layout, new_size: usize) -> *mut u8 {
        let r = if refused(new_size) { std::ptr::null_mut() } else { unsafe { System.realloc(ptr, layout, new_size) } };
        log_inner(InnerCall { m: "realloc", size: layout.size(), align: layout.align(), ptr: ptr as usize, nsize: new_size, ret: r as usize });
        r
    }
}

static TRACKER: Allocator<Recorder> = Allocator::new(Recorder);

/// addresses -> small ids (0 = null); an address that is reused keeps its id
static PTR_IDS: Mutex<Option<HashMap<usize, u32>>> = Mutex::new(None);

fn pid(addr: usize) -> u32 {
    if addr == 0 {
        return 0;
    }
    let mut g = PTR_IDS.lock().unwrap();
    let m = g.get_or_insert_with(HashMap::new);
    let n = m.len() as u32 + 1;
    *m.entry(addr).or_insert(n)
}

// ------------------------------------------------------------------------------------------ behaviours

#[derive(Clone, Debug)]
enum Op {
    /// m: alloc | alloc_zeroed; p = model pointer id the result is bound to
    Alloc { t: usize, zeroed: bool, p: u32, size: usize, align: usize },
    Realloc { t: usize, p: u32, q: u32, nsize: usize },
    Dealloc { t: usize, p: u32 },
    SpanStart { t: usize, id: u32, process: bool, s: usize, o: String },
    SpanEnd { t: usize, id: u32, iters: u64 },
    Merge { a: usize, b: usize },
}

#[derive(Clone, Debug)]
struct Behaviour {
    nt: usize,
    ns: usize,
    ops: Vec<Op>,
    tag: Value,
}

enum Cmd {
    Call { m: &'static str, ptr: usize, layout: Layout, nsize: usize },
    ThreadSpanStart { id: u32, s: usize, o: String },
    ProcessSpanStart { s: usize, o: String },
    ThreadSpanEnd { id: u32, iters: u64 },
    ProcessSpanEnd { span: ProcessSpan, iters: u64 },
    Exit,
}

enum Ack {
    Called { ret: usize, inner: Vec<InnerCall> },
    Started(Option<ProcessSpan>),
    Done,
    Panic(String),
}

struct Worker {
    tx: Sender<Cmd>,
    ack: Receiver<Ack>,
    handle: JoinHandle<()>,
}

fn spawn_worker(sessions: Arc<Vec<Session>>) -> Worker {
    let (tx, rx) = channel::<Cmd>();
    let (atx, ack) = channel::<Ack>();
    let handle = thread::spawn(move || {
        let mut spans: HashMap<u32, ThreadSpan> = HashMap::new();
        while let Ok(cmd) = rx.recv() {
            let a = match cmd {
                Cmd::Call { m, ptr, layout, nsize } => {
                    INNER_LOG.with(|l| l.borrow_mut().clear());
                    // SAFETY: the coordinator only issues calls that respect the GlobalAlloc contract (non-zero sizes,
                    // pointers obtained from this allocator with the layout they were allocated with).
                    let r = vrt::catch(|| unsafe {
                        match m {
                            "alloc" => TRACKER.alloc(layout) as usize,
                            "alloc_zeroed" => TRACKER.alloc_zeroed(layout) as usize,
                            "realloc" => TRACKER.realloc(ptr as *mut u8, layout, nsize) as usize,
                            _ => {
                                TRACKER.dealloc(ptr as *mut u8, layout);
                                0
                            }
                        }
                    });
                    let inner = INNER_LOG.with(|l| std::mem::take(&mut *l.borrow_mut()));
                    match r {
                        Ok(ret) => Ack::Called { ret, inner },
                        Err(msg) => Ack::Panic(msg),
                    }
                }
                Cmd::ThreadSpanStart { id, s, o } => match vrt::catch(|| sessions[s].operation(o).measure_thread()) {
                    Ok(sp) => {
                        spans.insert(id, sp);
                        Ack::Started(None)
                    }
                    Err(msg) => Ack::Panic(msg),
                },
                Cmd::ProcessSpanStart { s, o } => match vrt::catch(|| sessions[s].operation(o).measure_process()) {
                    Ok(sp) => Ack::Started(Some(sp)),
                    Err(msg) => Ack::Panic(msg),
                },
                Cmd::ThreadSpanEnd { id, iters } => {
                    let sp = spans.remove(&id).expect("thread span ends on the thread that started it");
                    match vrt::catch(move || drop(sp.iterations(iters))) {
                        Ok(()) => Ack::Done,
                        Err(msg) => Ack::Panic(msg),
                    }
                }
                Cmd::ProcessSpanEnd { span, iters } => match vrt::catch(move || drop(span.iterations(iters))) {
                    Ok(()) => Ack::Done,
                    Err(msg) => Ack::Panic(msg),
                },
                Cmd::Exit => break,
            };
            atx.send(a).ok();
        }
        // spans still open at the end of a behaviour are closed (the judge is not told: nothing reads them afterwards)
        for (_, sp) in spans.drain() {
            drop(sp.iterations(1));
        }
    });
    Worker { tx, ack, handle }
}

fn report_json(r: &Report) -> Value {
    let mut v: Vec<Value> = r
        .operations()
        .map(|(name, op)| json!({"o": name, "bytes": op.total_bytes_allocated(), "count": op.total_allocations_count(), "iters": op.total_iterations()}))
        .collect();
    v.sort_by(|a, b| a["o"].as_str().cmp(&b["o"].as_str()));
    Value::Array(v)
}

fn all_reports(sessions: &[Session]) -> Value {
    Value::Array(sessions.iter().map(|s| report_json(&s.to_report())).collect())
}

fn inner_json(inner: &[InnerCall]) -> Value {
    Value::Array(
        inner
            .iter()
            .map(|c| json!({"m": c.m, "size": c.size, "align": c.align, "ptr": pid(c.ptr), "nsize": c.nsize, "ret": pid(c.ret)}))
            .collect(),
    )
}

struct Block {
    addr: usize,
    layout: Layout,
}

fn run(tr: &Tracer, id: usize, b: &Behaviour) {
    let sessions: Arc<Vec<Session>> = Arc::new((0..b.ns).map(|_| Session::new().no_stdout().no_file()).collect());
    let workers: Vec<Worker> = (0..b.nt).map(|_| spawn_worker(Arc::clone(&sessions))).collect();
    let mut blocks: HashMap<u32, Block> = HashMap::new();
    let mut pspans: HashMap<u32, ProcessSpan> = HashMap::new();
    let mut is_process: HashMap<u32, bool> = HashMap::new();
    tr.emit(&json!({"ev":"reset","id":id,"tag":b.tag}));
    for op in &b.ops {
        let mut rec = match op {
            Op::Alloc { t, zeroed, p, size, align } => {
                let layout = Layout::from_size_align(*size, *align).expect("layout");
                let m = if *zeroed { "alloc_zeroed" } else { "alloc" };
                workers[*t].tx.send(Cmd::Call { m, ptr: 0, layout, nsize: 0 }).unwrap();
                let mut rec = json!({"ev":"call","t":t + 1,"m":m,"size":size,"align":align,"ptr":0,"nsize":0});
                match workers[*t].ack.recv().unwrap() {
                    Ack::Called { ret, inner } => {
                        rec["ret"] = json!(pid(ret));
                        rec["inner"] = inner_json(&inner);
                        if ret != 0 {
                            blocks.insert(*p, Block { addr: ret, layout });
                        }
                    }
                    Ack::Panic(msg) => {
                        rec["ret"] = json!(0);
                        rec["inner"] = json!([]);
                        rec["panic"] = json!(msg);
                    }
                    _ => unreachable!(),
                }
                rec
            }
            Op::Realloc { t, p, q, nsize } => {
                let Some(blk) = blocks.remove(p) else { continue };
                workers[*t].tx.send(Cmd::Call { m: "realloc", ptr: blk.addr, layout: blk.layout, nsize: *nsize }).unwrap();
                let mut rec = json!({"ev":"call","t":t + 1,"m":"realloc","size":blk.layout.size(),"align":blk.layout.align(),
                                     "ptr":pid(blk.addr),"nsize":nsize});
                match workers[*t].ack.recv().unwrap() {
                    Ack::Called { ret, inner } => {
                        rec["ret"] = json!(pid(ret));
                        rec["inner"] = inner_json(&inner);
                        if ret != 0 {
                            let layout = Layout::from_size_align(*nsize, blk.layout.align()).expect("layout");
                            blocks.insert(*q, Block { addr: ret, layout });
                        } else {
                            blocks.insert(*p, blk);
                        }
                    }
                    Ack::Panic(msg) => {
                        rec["ret"] = json!(0);
                        rec["inner"] = json!([]);
                        rec["panic"] = json!(msg);
                    }
                    _ => unreachable!(),
                }
                rec
            }
            Op::Dealloc { t, p } => {
                let Some(blk) = blocks.remove(p) else { continue };
                workers[*t].tx.send(Cmd::Call { m: "dealloc", ptr: blk.addr, layout: blk.layout, nsize: 0 }).unwrap();
                let mut rec = json!({"ev":"call","t":t + 1,"m":"dealloc","size":blk.layout.size(),"align":blk.layout.align(),
                                     "ptr":pid(blk.addr),"nsize":0,"ret":0});
                match workers[*t].ack.recv().unwrap() {
                    Ack::Called { inner, .. } => rec["inner"] = inner_json(&inner),
                    Ack::Panic(msg) => {
                        rec["inner"] = json!([]);
                        rec["panic"] = json!(msg);
                    }
                    _ => unreachable!(),
                }
                rec
            }
            Op::SpanStart { t, id, process, s, o } => {
                let cmd = if *process { Cmd::ProcessSpanStart { s: *s, o: o.clone() } } else { Cmd::ThreadSpanStart { id: *id, s: *s, o: o.clone() } };
                workers[*t].tx.send(cmd).unwrap();
                let mut rec = json!({"ev":"span_start","id":id,"t":t + 1,"kind": if *process {"process"} else {"thread"},"s":s + 1,"o":o});
                match workers[*t].ack.recv().unwrap() {
                    Ack::Started(Some(sp)) => {
                        pspans.insert(*id, sp);
                    }
                    Ack::Started(None) => {}
                    Ack::Panic(msg) => rec["panic"] = json!(msg),
                    _ => unreachable!(),
                }
                is_process.insert(*id, *process);
                rec
            }
            Op::SpanEnd { t, id, iters } => {
                let Some(process) = is_process.remove(id) else { continue };
                let cmd = if process {
                    // a process span may end on any thread (ProcessSpan is Send)
                    Cmd::ProcessSpanEnd { span: pspans.remove(id).expect("open process span"), iters: *iters }
                } else {
                    Cmd::ThreadSpanEnd { id: *id, iters: *iters }
                };
                workers[*t].tx.send(cmd).unwrap();
                let mut rec = json!({"ev":"span_end","id":id,"t":t + 1,"iters":iters});
                if let Ack::Panic(msg) = workers[*t].ack.recv().unwrap() {
                    rec["panic"] = json!(msg);
                }
                rec
            }
            Op::Merge { a, b } => {
                let ra = sessions[*a].to_report();
                let rb = sessions[*b].to_report();
                let m = Report::merge(&ra, &rb);
                json!({"ev":"merge","a":report_json(&ra),"b":report_json(&rb),"m":report_json(&m)})
            }
        };
        rec["rep"] = all_reports(&sessions);
        tr.emit(&rec);
        // flushed record by record: if the code under test corrupts memory and the process dies, what happened before is judged
        tr.flush();
    }
    // release what is still allocated (not part of the judged history: free calls count nothing)
    for (_, blk) in blocks.drain() {
        // SAFETY: the block was obtained from TRACKER with this layout.
        unsafe { TRACKER.dealloc(blk.addr as *mut u8, blk.layout) };
    }
    for (_, sp) in pspans.drain() {
        drop(sp.iterations(1));
    }
    for w in workers {
        w.tx.send(Cmd::Exit).ok();
        w.handle.join().ok();
    }
}

// ------------------------------------------------------------------------------------------ stimuli

/// Sizes are kept small enough for every total the judge computes to stay below 2^31 (TLC integers are 32-bit;
/// TLC reports an overflow as an error, it never wraps silently).
fn real_size(rng: &mut Rng, class: u64) -> usize {
    let s = plain_size(rng, class);
    // one request in ten is one the wrapped allocator refuses
    if rng.chance(1, 10) { s / 64 * 64 + 61 } else { s }
}

fn plain_size(rng: &mut Rng, class: u64) -> usize {
    match class {
        0 => 1 + rng.below(2048) as usize,
        1 => 1 + rng.below(64) as usize,
        2 => 65 + rng.below(1 << 14) as usize,
        _ => (1 << 14) + rng.below(1 << 18) as usize,
    }
}

fn real_align(rng: &mut Rng) -> usize {
    let wide = rng.chance(1, 8);
    1 << rng.below(if wide { 13 } else { 6 })
}

/// replay <cases> <out> <first> <count>: TLC behaviours; model size classes become seeded random layouts
fn replay(cases: &str, out: &str, first: usize, count: usize) {
    let all = vrt::read_ndjson(cases);
    let mut rng = Rng::new(vrt::seed_from_env() ^ 0xC18);
    let tr = Tracer::create(out);
    for (ci, case) in all.iter().enumerate().skip(first).take(count) {
        let mut ops = Vec::new();
        let (mut nt, mut ns) = (1, 1);
        // one random size per (behaviour, size class) so that equal model sizes stay equal, plus fresh ones now and then
        let sizes: Vec<usize> = (0..4).map(|c| real_size(&mut rng, c)).collect();
        for h in case["h"].as_array().unwrap() {
            let t = h["t"].as_u64().unwrap() as usize - 1;
            nt = nt.max(t + 1);
            match h["op"].as_str().unwrap() {
                "call" => {
                    let p = h["p"].as_u64().unwrap() as u32;
                    let class = h["size"].as_u64().unwrap();
                    let size = if rng.chance(1, 3) { real_size(&mut rng, class) } else { sizes[class as usize] };
                    match h["m"].as_str().unwrap() {
                        "alloc" => ops.push(Op::Alloc { t, zeroed: false, p, size, align: real_align(&mut rng) }),
                        "alloc_zeroed" => ops.push(Op::Alloc { t, zeroed: true, p, size, align: real_align(&mut rng) }),
                        "realloc" => ops.push(Op::Realloc { t, p, q: h["q"].as_u64().unwrap() as u32, nsize: size }),
                        _ => ops.push(Op::Dealloc { t, p }),
                    }
                }
                "span_start" => {
                    let s = h["s"].as_u64().unwrap() as usize - 1;
                    ns = ns.max(s + 1);
                    ops.push(Op::SpanStart { t, id: h["id"].as_u64().unwrap() as u32, process: h["kind"].as_str().unwrap() == "process", s, o: h["o"].as_str().unwrap().to_string() });
                }
                "span_end" => ops.push(Op::SpanEnd { t, id: h["id"].as_u64().unwrap() as u32, iters: h["iters"].as_u64().unwrap() }),
                x => panic!("unknown op {x}"),
            }
        }
        let ns = ns.max(2);
        ops.push(Op::Merge { a: 0, b: 1 });
        ops.push(Op::Merge { a: 0, b: 0 });
        let b = Behaviour { nt: nt.max(2), ns, ops, tag: json!({"case": ci}) };
        run(&tr, ci, &b);
    }
    tr.flush();
}

/// random <out> <count> <stream>: 1..16 threads, 1..3 sessions, nested / overlapping spans, random layouts
fn random(out: &str, count: usize, stream: u64) {
    let mut rng = Rng::new(vrt::seed_from_env().wrapping_mul(131).wrapping_add(stream));
    let tr = Tracer::create(out);
    let names = ["a", "b", "c"];
    for i in 0..count {
        let many = rng.chance(1, 4);
        let nt = 1 + rng.below(if many { 16 } else { 4 }) as usize;
        let ns = 1 + rng.below(3) as usize;
        let steps = 10 + rng.below(60);
        let mut ops = Vec::new();
        let mut live: Vec<u32> = Vec::new();
        let mut next_p = 1_u32;
        let mut open: Vec<(u32, bool, usize)> = Vec::new(); // id, process, owner
        let mut next_span = 1_u32;
        for _ in 0..steps {
            let t = rng.below(nt as u64) as usize;
            match rng.below(100) {
                0..=29 => {
                    let class = 1 + rng.below(3);
                    ops.push(Op::Alloc { t, zeroed: rng.chance(1, 3), p: next_p, size: real_size(&mut rng, class), align: real_align(&mut rng) });
                    live.push(next_p);
                    next_p += 1;
                }
                30..=44 if !live.is_empty() => {
                    let k = rng.below(live.len() as u64) as usize;
                    let p = live.swap_remove(k);
                    let class = 1 + rng.below(3);
                    ops.push(Op::Realloc { t, p, q: next_p, nsize: real_size(&mut rng, class) });
                    live.push(next_p);
                    next_p += 1;
                }
                45..=59 if !live.is_empty() => {
                    let k = rng.below(live.len() as u64) as usize;
                    let p = live.swap_remove(k);
                    ops.push(Op::Dealloc { t, p });
                }
                60..=77 => {
                    let process = rng.chance(1, 2);
                    ops.push(Op::SpanStart { t, id: next_span, process, s: rng.below(ns as u64) as usize, o: names[rng.below(3) as usize].to_string() });
                    open.push((next_span, process, t));
                    next_span += 1;
                }
                78..=95 if !open.is_empty() => {
                    let k = rng.below(open.len() as u64) as usize;
                    let (id, process, owner) = open.swap_remove(k);
                    let t = if process { t } else { owner };
                    ops.push(Op::SpanEnd { t, id, iters: *rng.pick(&[0_u64, 1, 1, 2, 7, 1000]) });
                }
                _ => {
                    let a = rng.below(ns as u64) as usize;
                    let b = rng.below(ns as u64) as usize;
                    ops.push(Op::Merge { a, b });
                }
            }
        }
        let b = Behaviour { nt, ns, ops, tag: json!({"random": i, "stream": stream}) };
        run(&tr, i, &b);
    }
    tr.flush();
}

// ------------------------------------------------------------------------------------------ free-running threads

static CLOCK: AtomicU64 = AtomicU64::new(1);

/// conc <out> <threads> <ops per thread> <stream>: every thread runs its own random calls and THREAD spans with no
/// sequencing at all.  A thread span depends on the calls of its own thread only, so the log ordered by the stamp each
/// operation drew (any order that respects every thread's program order would do) is judged by the same judge.
fn conc(out: &str, threads: usize, n: usize, stream: u64) {
    let seed = vrt::seed_from_env().wrapping_mul(733).wrapping_add(stream);
    let sessions: Arc<Vec<Session>> = Arc::new((0..2).map(|_| Session::new().no_stdout().no_file()).collect());
    let mut hs = Vec::new();
    for w in 0..threads {
        let sessions = Arc::clone(&sessions);
        hs.push(thread::spawn(move || {
            let mut rng = Rng::new(seed ^ ((w as u64 + 1) << 40));
            let mut log: Vec<(u64, Value)> = Vec::new();
            let mut live: Vec<Block> = Vec::new();
            let mut spans: Vec<(u32, ThreadSpan)> = Vec::new();
            let mut next_span = (w as u32 + 1) * 100_000;
            let t = w + 1;
            for _ in 0..n {
                let st = CLOCK.fetch_add(1, Ordering::SeqCst);
                match rng.below(100) {
                    0..=34 => {
                        let layout = Layout::from_size_align(real_size(&mut rng, 0), real_align(&mut rng)).unwrap();
                        let zeroed = rng.chance(1, 3);
                        INNER_LOG.with(|l| l.borrow_mut().clear());
                        // SAFETY: non-zero size, valid alignment.
                        let r = unsafe { if zeroed { TRACKER.alloc_zeroed(layout) } else { TRACKER.alloc(layout) } } as usize;
                        let inner = INNER_LOG.with(|l| std::mem::take(&mut *l.borrow_mut()));
                        log.push((st, json!({"ev":"call","t":t,"m": if zeroed {"alloc_zeroed"} else {"alloc"},"size":layout.size(),"align":layout.align(),
                                             "ptr":0,"nsize":0,"ret":pid(r),"inner":inner_json(&inner)})));
                        if r != 0 {
                            live.push(Block { addr: r, layout });
                        }
                    }
                    35..=49 if !live.is_empty() => {
                        let k = rng.below(live.len() as u64) as usize;
                        let blk = live.swap_remove(k);
                        let nsize = real_size(&mut rng, 0);
                        INNER_LOG.with(|l| l.borrow_mut().clear());
                        // SAFETY: block obtained from TRACKER with this layout; nsize is non-zero and small.
                        let r = unsafe { TRACKER.realloc(blk.addr as *mut u8, blk.layout, nsize) } as usize;
                        let inner = INNER_LOG.with(|l| std::mem::take(&mut *l.borrow_mut()));
                        log.push((st, json!({"ev":"call","t":t,"m":"realloc","size":blk.layout.size(),"align":blk.layout.align(),
                                             "ptr":pid(blk.addr),"nsize":nsize,"ret":pid(r),"inner":inner_json(&inner)})));
                        if r != 0 {
                            live.push(Block { addr: r, layout: Layout::from_size_align(nsize, blk.layout.align()).unwrap() });
                        } else {
                            live.push(blk);
                        }
                    }
                    50..=64 if !live.is_empty() => {
                        let k = rng.below(live.len() as u64) as usize;
                        let blk = live.swap_remove(k);
                        INNER_LOG.with(|l| l.borrow_mut().clear());
                        // SAFETY: block obtained from TRACKER with this layout.
                        unsafe { TRACKER.dealloc(blk.addr as *mut u8, blk.layout) };
                        let inner = INNER_LOG.with(|l| std::mem::take(&mut *l.borrow_mut()));
                        log.push((st, json!({"ev":"call","t":t,"m":"dealloc","size":blk.layout.size(),"align":blk.layout.align(),
                                             "ptr":pid(blk.addr),"nsize":0,"ret":0,"inner":inner_json(&inner)})));
                    }
                    65..=82 => {
                        let s = rng.below(2) as usize;
                        let o = ["a", "b"][rng.below(2) as usize];
                        let sp = sessions[s].operation(o).measure_thread();
                        log.push((st, json!({"ev":"span_start","id":next_span,"t":t,"kind":"thread","s":s + 1,"o":o})));
                        spans.push((next_span, sp));
                        next_span += 1;
                    }
                    _ if !spans.is_empty() => {
                        let k = rng.below(spans.len() as u64) as usize;
                        let (id, sp) = spans.swap_remove(k);
                        let iters = 1 + rng.below(3);
                        drop(sp.iterations(iters));
                        log.push((st, json!({"ev":"span_end","id":id,"t":t,"iters":iters})));
                    }
                    _ => {}
                }
            }
            for (id, sp) in spans.drain(..) {
                let st = CLOCK.fetch_add(1, Ordering::SeqCst);
                drop(sp.iterations(1));
                log.push((st, json!({"ev":"span_end","id":id,"t":t,"iters":1})));
            }
            for blk in live.drain(..) {
                // SAFETY: block obtained from TRACKER with this layout.
                unsafe { TRACKER.dealloc(blk.addr as *mut u8, blk.layout) };
            }
            log
        }));
    }
    let mut all: Vec<(u64, Value)> = Vec::new();
    for h in hs {
        all.extend(h.join().expect("thread"));
    }
    all.sort_by_key(|x| x.0);
    let tr = Tracer::create(out);
    tr.emit(&json!({"ev":"reset","id":0,"tag":{"conc":threads,"stream":stream}}));
    let last = all.len().saturating_sub(1);
    for (i, (_, mut v)) in all.into_iter().enumerate() {
        if i == last {
            v["rep"] = all_reports(&sessions);
        }
        tr.emit(&v);
    }
    let ra = sessions[0].to_report();
    let rb = sessions[1].to_report();
    let m = Report::merge(&ra, &rb);
    tr.emit(&json!({"ev":"merge","a":report_json(&ra),"b":report_json(&rb),"m":report_json(&m),"rep":all_reports(&sessions)}));
    tr.flush();
}

fn main() {
    vrt::quiet_panics();
    let a: Vec<String> = env::args().collect();
    match a.get(1).map(String::as_str) {
        Some("replay") => replay(&a[2], &a[3], a[4].parse().unwrap(), a[5].parse().unwrap()),
        Some("random") => random(&a[2], a[3].parse().unwrap(), a[4].parse().unwrap()),
        Some("oprace") => oprace(&a[2], a[3].parse().unwrap()),
        Some("conc") => conc(&a[2], a[3].parse().unwrap(), a[4].parse().unwrap(), a[5].parse().unwrap()),
        _ => {
            eprintln!("usage: h_alloc replay|random|conc ...");
            std::process::exit(2);
        }
    }
}
