//! `h_alloc_global <out.ndjson> <rounds>`: C18 with alloc_tracker::Allocator installed as THE global allocator of the process
//! (in h_alloc it is driven directly).  Here the tracker's own bookkeeping (lazy per-thread registration, the registry of
//! per-thread counters, session tables) allocates through the tracker itself.
//!
//! Round r: a fresh thread is spawned and waits (spinning, no allocation) until the main thread has opened a process span;
//! it then makes K explicit allocation calls - its first tracked events ever, so its registration with the tracker happens
//! inside the open span - and signals; main closes the span.  The trace has the format of h_alloc's (reset, span_start,
//! call.., span_end + report) and is judged by Trace_AllocTracker: the span must report exactly the K calls, whatever the
//! ordinal of the registering thread (the registry grows at the 5th, 9th, 17th, 33rd, 65th .. thread).
use std::alloc::{GlobalAlloc, Layout, System};
use std::cell::Cell;
use std::sync::atomic::{AtomicUsize, Ordering};
use std::sync::Arc;

use alloc_tracker::{Allocator, Session};
use vrt::{json, Tracer, Value};

thread_local! {
    // the last request the wrapped allocator saw on this thread (no allocation, no destructor)
    static SEEN: Cell<(u32, usize, usize, usize)> = const { Cell::new((0, 0, 0, 0)) };
}

struct Rec;
// SAFETY: forwards to System unchanged.
unsafe impl GlobalAlloc for Rec {
    unsafe fn alloc(&self, layout: Layout) -> *mut u8 {
        let r = unsafe { System.alloc(layout) };
        let _ = SEEN.try_with(|s| s.set((s.get().0 + 1, layout.size(), layout.align(), r as usize)));
        r
    }
    unsafe fn dealloc(&self, ptr: *mut u8, layout: Layout) {
        unsafe { System.dealloc(ptr, layout) }
    }
    unsafe fn alloc_zeroed(&self, layout: Layout) -> *mut u8 {
        unsafe { System.alloc_zeroed(layout) }
    }
    unsafe fn realloc(&self, ptr: *mut u8, layout: Layout, new_size: usize) -> *mut u8 {
        unsafe { System.realloc(ptr, layout, new_size) }
    }
}

#[global_allocator]
static GLOBAL: Allocator<Rec> = Allocator::new(Rec);

const MAXK: usize = 6;

fn main() {
    let args: Vec<String> = std::env::args().collect();
    let out = &args[1];
    let rounds: usize = args.get(2).and_then(|s| s.parse().ok()).unwrap_or(72);
    let tr = Tracer::create(out);
    let mut recs: Vec<Value> = Vec::new();
    for r in 0..rounds {
        let k = 1 + r % MAXK;
        let size = 24 + 8 * (r % 5);
        let session = Session::new().no_stdout().no_file();
        let flag = Arc::new(AtomicUsize::new(0));
        // per call: ret, inner count, inner size, inner align, inner ret
        let slots: Arc<Vec<AtomicUsize>> = Arc::new((0..MAXK * 5).map(|_| AtomicUsize::new(0)).collect());
        let (f2, s2) = (Arc::clone(&flag), Arc::clone(&slots));
        let h = std::thread::spawn(move || {
            while f2.load(Ordering::SeqCst) != 1 {
                std::hint::spin_loop();
            }
            let layout = Layout::from_size_align(size, 8).expect("layout");
            for i in 0..k {
                SEEN.with(|s| s.set((0, 0, 0, 0)));
                // SAFETY: non-zero size.
                let p = unsafe { std::alloc::alloc(layout) };
                let seen = SEEN.with(Cell::get);
                s2[i * 5].store(p as usize, Ordering::SeqCst);
                s2[i * 5 + 1].store(seen.0 as usize, Ordering::SeqCst);
                s2[i * 5 + 2].store(seen.1, Ordering::SeqCst);
                s2[i * 5 + 3].store(seen.2, Ordering::SeqCst);
                s2[i * 5 + 4].store(seen.3, Ordering::SeqCst);
            }
            f2.store(2, Ordering::SeqCst);
            while f2.load(Ordering::SeqCst) != 3 {
                std::hint::spin_loop();
            }
            for i in 0..k {
                let p = s2[i * 5].load(Ordering::SeqCst) as *mut u8;
                if !p.is_null() {
                    // SAFETY: allocated above with this layout.
                    unsafe { std::alloc::dealloc(p, layout) };
                }
            }
        });
        let op = session.operation("x");
        let span = op.measure_process();
        flag.store(1, Ordering::SeqCst);
        while flag.load(Ordering::SeqCst) != 2 {
            std::hint::spin_loop();
        }
        drop(span.iterations(1));
        flag.store(3, Ordering::SeqCst);
        h.join().expect("round thread");
        drop(op);
        let rep: Vec<Value> = session
            .to_report()
            .operations()
            .map(|(name, o)| json!({"o": name, "bytes": o.total_bytes_allocated(), "count": o.total_allocations_count(), "iters": o.total_iterations()}))
            .collect();
        recs.push(json!({"ev":"reset","id":r,"tag":{"global":r,"k":k,"size":size}}));
        recs.push(json!({"ev":"span_start","id":1,"t":1,"kind":"process","s":1,"o":"x"}));
        for i in 0..k {
            let g = |j: usize| slots[i * 5 + j].load(Ordering::SeqCst);
            let pid = |a: usize| if a == 0 { 0 } else { i + 1 };
            // the wrapped allocator's LAST request during the call is the caller's (the tracker's own bookkeeping - a thread's
            // registration - is served through the same allocator first and is not the caller's business)
            let inner: Vec<Value> = if g(1) >= 1 {
                vec![json!({"m":"alloc","size":g(2),"align":g(3),"ptr":0,"nsize":0,"ret":if g(4) == g(0) { pid(g(0)) } else { 99 }})]
            } else {
                vec![]
            };
            recs.push(json!({"ev":"call","t":2,"m":"alloc","size":size,"align":8,"ptr":0,"nsize":0,"ret":pid(g(0)),"inner":inner}));
        }
        recs.push(json!({"ev":"span_end","id":1,"t":1,"iters":1,"rep":[rep]}));
    }
    for r in &recs {
        tr.emit(r);
    }
    tr.flush();
}
