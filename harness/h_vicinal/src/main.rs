//! C14 harness: drives the real `vicinal` pool through hook H7 (`vicinal::verif`, cfg `folo_verif`) and records what the
//! judge (VicinalAbs.tla, via Trace_Vicinal.tla) needs: calls, task bodies (with the processor they observe), handle
//! outcomes, worker thread lifecycle, drop start/end, the quiescence point - or `hung`.
//!
//!   h_vicinal sched <stimuli.ndjson> <trace.ndjson> <stats.json>
//!         deterministic runs under vrt::sched: every listed hook point is a scheduling point, the pool's blocking
//!         operations (listener wait, worker join, handle-list lock) block cooperatively, worker threads are adopted as
//!         scheduler tasks.  A stimulus is a script (a TLC behaviour of Vicinal.tla, possibly a prefix) or a seed for the
//!         random / PCT strategies.  Hangs are structural deadlocks.  Fake hardware (exact processor control) or the
//!         real CPUs (spawners pinned by the harness, `sched_getcpu` logged inside each task).
//!   h_vicinal free <trace.ndjson> <seed> <first> <count> <max_spawners>
//!         free-running seeded random drivers on the real CPUs with many spawners; a watchdog thread records `hung`
//!         and exits with status 3 (the caller restarts after the stuck scenario).  Run as a child process.
//!
//! Nothing here decides anything: panics, hangs and outcomes are recorded; TLC judges the trace.
use std::cell::Cell;
use std::collections::HashMap;
use std::future::Future;
use std::num::NonZero;
use std::pin::Pin;
use std::sync::atomic::{AtomicBool, AtomicU64, AtomicUsize, Ordering::SeqCst};
use std::sync::{Arc, Mutex};
use std::task::{Context, Poll, Waker};
use std::thread::{self, ThreadId};
use std::time::{Duration, Instant};

use many_cpus::fake::HardwareBuilder;
use many_cpus::SystemHardware;
use vicinal::{JoinHandle, Pool, Scheduler};
use vrt::sched::{self, Exec, Outcome, Strategy};
use vrt::{json, Rng, Tracer, Value};

// ---------------------------------------------------------------------------------------------------------- hooks

/// Hook points that are scheduling points (= the actions of Vicinal.tla); the others are passed through.
const YIELD_POINTS: &[&str] = &[
    "ens.state", "ens.spawn", "ens.lock", "ens.join", "sp.state", "sp.notify", "w.check", "w.pop_u", "w.run", "w.listen",
    "w.re_u", "w.wait", "d.get", "d.take", "d.join", "d.drain",
];

struct WorkerReg {
    proc: u64,
    index: u64,
    child: Option<sched::ChildToken>,
}

static NEXT_TOKEN: AtomicU64 = AtomicU64::new(1);
static REGS: Mutex<Option<HashMap<u64, WorkerReg>>> = Mutex::new(None);
/// thread id of a worker thread -> finished?
static FINISHED: Mutex<Option<HashMap<ThreadId, bool>>> = Mutex::new(None);
static FREE_LOG: Mutex<Vec<Value>> = Mutex::new(Vec::new());
static HOOK_EVENTS: AtomicUsize = AtomicUsize::new(0);
static POINTS_SEEN: Mutex<Option<HashMap<&'static str, usize>>> = Mutex::new(None);

thread_local! {
    /// (processor, index) of the worker this thread is, if it is one
    static WORKER: Cell<Option<(u64, u64)>> = const { Cell::new(None) };
}

fn wid(p: u64, i: u64) -> u64 {
    p * 8 + i
}

/// Appends a record to the log of the current run: the executor's totally ordered log inside a task, the process-wide
/// log (order = order of acquiring its lock) otherwise.
fn log(v: Value) {
    if sched::in_task() {
        sched::emit(v);
    } else {
        FREE_LOG.lock().unwrap_or_else(|e| e.into_inner()).push(v);
    }
}

fn h_point(name: &'static str, _p: u64) {
    {
        let mut g = POINTS_SEEN.lock().unwrap_or_else(|e| e.into_inner());
        *g.get_or_insert_with(HashMap::new).entry(name).or_insert(0) += 1;
    }
    if YIELD_POINTS.contains(&name) {
        sched::point(name);
    }
}

fn h_event(name: &'static str, p: u64, _detail: u64) {
    HOOK_EVENTS.fetch_add(1, SeqCst);
    if sched::in_task() {
        sched::emit(json!({"ev":"info","what":name,"p":p}));
    }
}

fn h_blocked(reason: &'static str) -> bool {
    if sched::in_task() {
        sched::yield_blocked(reason);
        true
    } else {
        false
    }
}

fn h_worker_spawning(p: u64, i: u64) -> u64 {
    let token = NEXT_TOKEN.fetch_add(1, SeqCst);
    let child = sched::adopt_child(&format!("w{p}.{i}"));
    REGS.lock().unwrap_or_else(|e| e.into_inner()).get_or_insert_with(HashMap::new).insert(token, WorkerReg { proc: p, index: i, child });
    token
}

fn h_worker_started(token: u64) {
    let reg = REGS.lock().unwrap_or_else(|e| e.into_inner()).as_mut().and_then(|m| m.remove(&token));
    let Some(reg) = reg else { return };
    if let Some(child) = reg.child {
        child.attach(); // parks until the scheduler grants this thread its first step
    }
    WORKER.set(Some((reg.proc, reg.index)));
    FINISHED.lock().unwrap_or_else(|e| e.into_inner()).get_or_insert_with(HashMap::new).insert(thread::current().id(), false);
    log(json!({"ev":"wstart","w":wid(reg.proc, reg.index),"p":reg.proc}));
}

fn h_worker_exiting(_token: u64) {
    if let Some((p, i)) = WORKER.get() {
        log(json!({"ev":"wexit","w":wid(p, i)}));
    }
    FINISHED.lock().unwrap_or_else(|e| e.into_inner()).get_or_insert_with(HashMap::new).insert(thread::current().id(), true);
    sched::detach();
}

fn h_worker_finished(id: ThreadId) -> Option<bool> {
    if !sched::in_task() {
        return None;
    }
    // a worker the scheduler has not let start yet is simply "not finished"
    Some(FINISHED.lock().unwrap_or_else(|e| e.into_inner()).as_ref().and_then(|m| m.get(&id).copied()).unwrap_or(false))
}

fn install_hooks() {
    let mut hooks = blank_hooks();
    hooks.point = h_point;
    hooks.event = h_event;
    hooks.blocked = h_blocked;
    hooks.worker_spawning = h_worker_spawning;
    hooks.worker_started = h_worker_started;
    hooks.worker_exiting = h_worker_exiting;
    hooks.worker_finished = h_worker_finished;
    vicinal::verif::install(hooks);
}

/// `Hooks` is non_exhaustive: start from a value obtained through its public constructor-less surface.
fn blank_hooks() -> vicinal::verif::Hooks {
    vicinal::verif::Hooks::noop()
}

// ------------------------------------------------------------------------------------------------------- scenario

#[derive(Clone, Debug)]
struct TaskSpec {
    id: u64,
    urgent: bool,
    panics: bool,
    forget: bool,
    /// the body does not return before this other task has run (0 = no gate)
    gate: u64,
}

#[derive(Clone, Debug)]
struct SpawnerSpec {
    proc: u64, // hardware processor id the spawner is pinned to
    tasks: Vec<TaskSpec>,
    late: bool,
}

#[derive(Clone)]
enum Hw {
    Fake(usize),
    Real,
}

fn make_hw(hw: &Hw) -> SystemHardware {
    match hw {
        Hw::Fake(n) => SystemHardware::fake(HardwareBuilder::from_counts(NonZero::new(*n).unwrap(), NonZero::new(1).unwrap())),
        Hw::Real => SystemHardware::current().clone(),
    }
}

fn pin_to(hw: &SystemHardware, proc: u64) {
    if let Some(set) = hw.processors().to_builder().filter(|p| u64::from(p.id()) == proc).take_all() {
        set.pin_current_thread_to();
    }
}

/// The processor a thread observes itself on: the kernel's answer on real hardware, the fake platform's otherwise.
fn observed_cpu(hw: &SystemHardware, real: bool) -> u64 {
    if real {
        // SAFETY: sched_getcpu has no preconditions.
        let c = unsafe { libc::sched_getcpu() };
        c as u64
    } else {
        u64::from(hw.current_processor_id())
    }
}

struct Shared {
    hw: SystemHardware,
    real: bool,
    drop_done: AtomicBool,
    spawners_quiet: AtomicUsize,
    nspawners: usize,
    /// ids of the tasks whose body has run
    ran: std::sync::Mutex<std::collections::HashSet<u64>>,
}

/// Owned by every task closure.  A closure that is destroyed WITHOUT having run (abandoned at shutdown, or refused by a
/// scheduler that is already shut down) runs user code in its destructor: it schedules "clean-up work" on the same
/// scheduler, in the task's own priority class.  That is legal at any time; after shutdown the spawn is simply refused.
struct DropSpawn {
    sched: Scheduler,
    id: u64,
    urgent: bool,
    ran: bool,
}

impl Drop for DropSpawn {
    fn drop(&mut self) {
        if self.ran {
            return;
        }
        let (s, urgent) = (self.sched.clone(), self.urgent);
        let r = vrt::catch(move || {
            if urgent {
                s.spawn_urgent_and_forget(|| {});
            } else {
                s.spawn_and_forget(|| {});
            }
        });
        log(json!({"ev":"dropspawn","t":self.id,"ok":r.is_ok()}));
    }
}

fn task_body(sched_: &Scheduler, sh: &Arc<Shared>, t: &TaskSpec) -> impl FnOnce() -> u64 + Send + 'static {
    let sh = Arc::clone(sh);
    let t = t.clone();
    let guard = DropSpawn { sched: sched_.clone(), id: t.id, urgent: t.urgent, ran: false };
    move || {
        let mut guard = guard;      // the whole guard lives in the closure (not just the field assigned below)
        guard.ran = true;
        let w = WORKER.get().map_or(4095, |(p, i)| wid(p, i));
        let c = observed_cpu(&sh.hw, sh.real);
        let pinned = WORKER.get().map_or(4095, |(p, _)| p);
        log(json!({"ev":"run","t":t.id,"w":w,"c":c,"pinned":pinned}));
        sh.ran.lock().unwrap().insert(t.id);
        if t.gate != 0 {
            // this body needs the other task to have run: its worker stays busy until then
            let (sh2, g) = (Arc::clone(&sh), t.gate);
            sched::block_until("gate", move || sh2.ran.lock().unwrap().contains(&g));
        }
        if t.panics {
            panic!("task-panic {}", t.id);
        }
        t.id + 1000
    }
}

fn do_spawn(sched_: &Scheduler, sh: &Arc<Shared>, t: &TaskSpec, proc: u64) -> Option<JoinHandle<u64>> {
    log(json!({"ev":"call","t":t.id,"p":proc,"h":!t.forget,"x":t.panics,"urgent":t.urgent}));
    let body = task_body(sched_, sh, t);
    match (t.forget, t.urgent) {
        (false, false) => Some(sched_.spawn(body)),
        (false, true) => Some(sched_.spawn_urgent(body)),
        (true, false) => {
            sched_.spawn_and_forget(move || {
                let _ = body();
            });
            None
        }
        (true, true) => {
            sched_.spawn_urgent_and_forget(move || {
                let _ = body();
            });
            None
        }
    }
}

/// Polls a join handle once; Some(outcome) when it completed.
fn poll_handle(h: &mut JoinHandle<u64>, t: &TaskSpec) -> Option<&'static str> {
    let mut cx = Context::from_waker(Waker::noop());
    match vrt::catch(|| Pin::new(&mut *h).poll(&mut cx)) {
        Ok(Poll::Pending) => None,
        Ok(Poll::Ready(v)) => Some(if v == t.id + 1000 { "value" } else { "wrong-value" }),
        Err(msg) => Some(if msg.contains("abandoned") {
            "abandoned"
        } else if msg.contains("task-panic") {
            "panic"
        } else {
            "other-panic"
        }),
    }
}

// ---------------------------------------------------------------------------------------------- scheduled scenarios

struct Stimulus {
    id: String,
    hw: Hw,
    wpp: u32,
    spawners: Vec<SpawnerSpec>,
    early_drop: bool,
    /// model labels: ["s", s, op] | ["w", p, i, op] | ["d", op]  (s, p, i 1-based model ids)
    script: Vec<Value>,
    strategy: String,
    seed: u64,
    /// model processor (1-based) -> hardware processor id
    procmap: Vec<u64>,
    nslots: usize,
}

fn parse_stimulus(v: &Value) -> Stimulus {
    let real = v["hw"].as_str() == Some("real");
    let np = v["np"].as_u64().unwrap() as usize;
    let procmap: Vec<u64> = match v.get("procmap").and_then(Value::as_array) {
        Some(a) => a.iter().map(|x| x.as_u64().unwrap()).collect(),
        None => (0..np as u64).collect(),
    };
    let urgent: Vec<u64> = v["urgent"].as_array().map(|a| a.iter().map(|x| x.as_u64().unwrap()).collect()).unwrap_or_default();
    let panics: Vec<u64> = v["panics"].as_array().map(|a| a.iter().map(|x| x.as_u64().unwrap()).collect()).unwrap_or_default();
    let gates = v.get("gates").cloned().unwrap_or(json!({}));
    let spawners = v["spawners"]
        .as_array()
        .unwrap()
        .iter()
        .map(|s| SpawnerSpec {
            proc: procmap[s["proc"].as_u64().unwrap() as usize - 1],
            late: s["late"].as_bool().unwrap_or(false),
            tasks: s["tasks"]
                .as_array()
                .unwrap()
                .iter()
                .map(|t| {
                    let id = t.as_u64().unwrap();
                    TaskSpec { id, urgent: urgent.contains(&id), panics: panics.contains(&id), forget: false,
                               gate: gates.get(id.to_string()).and_then(Value::as_u64).unwrap_or(0) }
                })
                .collect(),
        })
        .collect();
    let script: Vec<Value> = v["script"].as_array().cloned().unwrap_or_default();
    let early_drop = v.get("early_drop").and_then(Value::as_bool).unwrap_or_else(|| script.iter().any(|s| s[0] == "d"));
    Stimulus {
        id: v["id"].as_str().unwrap_or("?").to_string(),
        hw: if real { Hw::Real } else { Hw::Fake(np) },
        wpp: v["wpp"].as_u64().unwrap_or(1) as u32,
        spawners,
        early_drop,
        script,
        strategy: v["strategy"].as_str().unwrap_or("script").to_string(),
        seed: v["seed"].as_u64().unwrap_or(1),
        procmap,
        nslots: 0,
    }
}

/// Model labels -> (task index, pending-op prefix) for vrt::sched.
fn translate(st: &Stimulus) -> Vec<(usize, String)> {
    let ns = st.spawners.len();
    let dropper = ns;
    let mut out: Vec<(usize, String)> = (0..=ns).map(|i| (i, "start".to_string())).collect();
    let mut widx: HashMap<(u64, u64), usize> = HashMap::new();
    let mut next = ns + 1;
    let mut last_slot: i64 = -1; // last registry slot the dropper visited
    for s in &st.script {
        let a = s.as_array().unwrap();
        match a[0].as_str().unwrap() {
            "s" => {
                let si = a[1].as_u64().unwrap() as usize - 1;
                let op = a[2].as_str().unwrap();
                if op == "ens.spawn" {
                    let p = st.spawners[si].proc;
                    for i in 1..=u64::from(st.wpp) {
                        widx.insert((p, i), next);
                        next += 1;
                    }
                }
                out.push((si, op.to_string()));
            }
            "w" => {
                let p = st.procmap[a[1].as_u64().unwrap() as usize - 1];
                let i = a[2].as_u64().unwrap();
                let op = a[3].as_str().unwrap();
                let idx = *widx.get(&(p, i)).unwrap_or(&usize::MAX);
                out.push((idx, if op == "w.start" { "start".to_string() } else { op.to_string() }));
            }
            "d" => {
                let op = a[1].as_str().unwrap();
                if op == "d.get" {
                    // the model visits its processors in order; the real registry has one slot per hardware processor id
                    let visit = (last_slot + 1..st.nslots as i64).find(|s| st.procmap.contains(&(*s as u64))).unwrap_or(last_slot + 1);
                    for _ in last_slot + 1..visit {
                        out.push((dropper, "d.get".into()));
                    }
                    last_slot = visit;
                } else if op == "d.take" {
                    for _ in last_slot + 1..st.nslots as i64 {
                        out.push((dropper, "d.get".into()));
                    }
                    last_slot = st.nslots as i64;
                }
                out.push((dropper, op.to_string()));
            }
            _ => {}
        }
    }
    out
}

struct RunStats {
    steps: usize,
    drift: usize,
    hung: bool,
    completed: bool,
}

fn run_scheduled(st: &mut Stimulus, tr: &Tracer) -> RunStats {
    let hw = make_hw(&st.hw);
    let real = matches!(st.hw, Hw::Real);
    st.nslots = hw.max_processor_count();
    let pool = Pool::builder().hardware(hw.clone()).workers_per_processor(NonZero::new(st.wpp).unwrap()).name(format!("v{}", st.id)).build();
    let sh = Arc::new(Shared { hw, real, drop_done: AtomicBool::new(false), spawners_quiet: AtomicUsize::new(0), nspawners: st.spawners.len(),
                                ran: std::sync::Mutex::new(std::collections::HashSet::new()) });
    let strategy = match st.strategy.as_str() {
        "script" => Strategy::Script(translate(st)),
        "pct" => Strategy::Pct { changes: 3 },
        _ => Strategy::Random,
    };
    let mut ex = Exec::new(strategy, st.seed);
    ex.max_steps = 20_000;
    ex.step_timeout = Duration::from_secs(20);
    for (si, sp) in st.spawners.iter().enumerate() {
        let sp = sp.clone();
        let sh = Arc::clone(&sh);
        let scheduler = pool.scheduler();
        ex.spawn(&format!("s{}", si + 1), move || {
            pin_to(&sh.hw, sp.proc);
            let mut handles: Vec<(TaskSpec, JoinHandle<u64>)> = vec![];
            for t in &sp.tasks {
                sched::point("call");
                if sp.late {
                    sched::block_until("late", || sh.drop_done.load(SeqCst));
                }
                if let Some(h) = do_spawn(&scheduler, &sh, t, sp.proc) {
                    handles.push((t.clone(), h));
                }
            }
            for (t, mut h) in handles {
                sched::point("await");
                let mut outcome = None;
                sched::block_until("await", || {
                    outcome = poll_handle(&mut h, &t);
                    outcome.is_some()
                });
                sched::emit(json!({"ev":"resolved","t":t.id,"o":outcome.unwrap()}));
            }
            sh.spawners_quiet.fetch_add(1, SeqCst);
            // (vrt::sched only counts a resumption from a plain point as progress: pass through one after every change
            //  another task may be waiting for, or a false deadlock is reported)
            sched::point("quiet");
            // the scheduler is kept until the end of the scenario: the handle must resolve while it is alive
            sched::block_until("hold-scheduler", || sh.drop_done.load(SeqCst));
            drop(scheduler);
        });
    }
    {
        let sh = Arc::clone(&sh);
        let early = st.early_drop;
        let nlate = st.spawners.iter().filter(|s| s.late).count();
        ex.spawn("d", move || {
            if !early {
                // the pool is dropped at the quiescence point: only once every spawner that can finish before the drop has
                // returned and awaited all its handles (a lost wake-up is then a deadlock, not something the drop repairs)
                sched::block_until("quiet", || sh.spawners_quiet.load(SeqCst) + nlate >= sh.nspawners);
            }
            sched::point("d.begin");
            sched::emit(json!({"ev":"drop_start"}));
            drop(pool);
            sched::emit(json!({"ev":"drop_done"}));
            sh.drop_done.store(true, SeqCst);
            sched::point("d.end");
        });
    }
    let rep = ex.run();
    let completed = matches!(rep.outcome, Outcome::Completed);
    tr.emit(&json!({"ev":"reset"}));
    tr.emit(&json!({"ev":"scenario","id":st.id,"mode":"sched","strategy":st.strategy,"hw":if real {"real"} else {"fake"},"seed":st.seed,
                    "early_drop":st.early_drop,"drift":rep.drift,"steps":rep.steps.len()}));
    for v in &rep.log {
        match v["ev"].as_str() {
            Some("info") | Some("drift") => {}
            _ => tr.emit(v),
        }
    }
    let mut hung = false;
    match &rep.outcome {
        Outcome::Completed => tr.emit(&json!({"ev":"quiesce"})),
        other => {
            hung = true;
            let blocked: Vec<String> = match other {
                Outcome::Deadlock(v) => v.iter().map(|(i, s)| format!("{}:{:?}", rep.names[*i], s)).collect(),
                Outcome::StepLimit => vec!["step-limit".into()],
                Outcome::Stuck(i) => vec![format!("stuck:{}", rep.names[*i])],
                Outcome::Completed => vec![],
            };
            tr.emit(&json!({"ev":"hung","blocked":blocked}));
        }
    }
    for (i, p) in rep.panics.iter().enumerate() {
        if let Some(m) = p {
            tr.emit(&json!({"ev":"harness_panic","task":rep.names[i],"msg":m}));
        }
    }
    RunStats { steps: rep.steps.len(), drift: rep.drift, hung, completed }
}

fn cmd_sched(stimuli: &str, trace: &str, stats: &str) {
    install_hooks();
    let tr = Tracer::create(trace);
    let mut n = 0usize;
    let mut drift = 0usize;
    let mut drifted = vec![];
    let mut hung = vec![];
    let mut steps = 0usize;
    let mut scripted = 0usize;
    for v in vrt::read_ndjson(stimuli) {
        let mut st = parse_stimulus(&v);
        let r = run_scheduled(&mut st, &tr);
        n += 1;
        steps += r.steps;
        if st.strategy == "script" {
            scripted += 1;
        }
        if r.drift > 0 {
            drift += r.drift;
            drifted.push(st.id.clone());
        }
        if r.hung || !r.completed {
            hung.push(st.id.clone());
        }
        tr.flush();
    }
    let points: HashMap<String, usize> = POINTS_SEEN.lock().unwrap().clone().unwrap_or_default().into_iter().map(|(k, v)| (k.to_string(), v)).collect();
    let out = json!({"scenarios":n,"scripted":scripted,"steps":steps,"drift":drift,"drifted":drifted,"hung":hung,
                     "hook_events":HOOK_EVENTS.load(SeqCst),"points":points});
    std::fs::write(stats, serde_json::to_string(&out).unwrap()).expect("write stats");
    println!("{out}");
}

// ---------------------------------------------------------------------------------------------- free-running drivers

fn await_free(h: &mut JoinHandle<u64>, t: &TaskSpec) -> &'static str {
    loop {
        if let Some(o) = poll_handle(h, t) {
            return o;
        }
        thread::sleep(Duration::from_micros(200));
    }
}

fn free_scenario(idx: u64, seed: u64, max_spawners: u64) {
    let mut rng = Rng::new(seed ^ idx.wrapping_mul(0x9E37_79B9_7F4A_7C15));
    let hw = SystemHardware::current().clone();
    let cpus: Vec<u64> = hw.processors().processors().iter().map(|p| u64::from(p.id())).collect();
    let nsp = 2 + rng.below(max_spawners.max(3) - 1) as usize;
    let wpp = 1 + rng.below(2) as u32;
    let early = rng.chance(1, 2);
    let with_late = rng.chance(1, 2);
    let per = 1 + rng.below(6);
    let mut next_task = 0u64;
    let mut specs = vec![];
    for _ in 0..nsp {
        let proc = *rng.pick(&cpus);
        let mut tasks = vec![];
        for _ in 0..per {
            tasks.push(TaskSpec { id: next_task, urgent: rng.chance(1, 3), panics: rng.chance(1, 8), forget: rng.chance(1, 6), gate: 0 });
            next_task += 1;
        }
        specs.push(SpawnerSpec { proc, tasks, late: false });
    }
    if with_late {
        let proc = *rng.pick(&cpus);
        specs.push(SpawnerSpec { proc, tasks: vec![TaskSpec { id: next_task, urgent: rng.chance(1, 2), panics: false, forget: false, gate: 0 }], late: true });
        next_task += 1;
    }
    let pool = Pool::builder().hardware(hw.clone()).workers_per_processor(NonZero::new(wpp).unwrap()).name(format!("f{idx}")).build();
    let sh = Arc::new(Shared { hw, real: true, drop_done: AtomicBool::new(false), spawners_quiet: AtomicUsize::new(0), nspawners: specs.len(), ran: std::sync::Mutex::new(std::collections::HashSet::new()) });
    log(json!({"ev":"scenario","id":format!("free-{idx}"),"mode":"free","hw":"real","seed":seed,"early_drop":early,"spawners":specs.len(),
               "wpp":wpp,"tasks":next_task}));
    let nlate = specs.iter().filter(|s| s.late).count();
    let mut threads = vec![];
    for sp in specs {
        let sh = Arc::clone(&sh);
        let scheduler = pool.scheduler();
        let jitter = rng.below(300);
        threads.push(thread::spawn(move || {
            pin_to(&sh.hw, sp.proc);
            thread::sleep(Duration::from_micros(jitter));
            let mut handles = vec![];
            for t in &sp.tasks {
                if sp.late {
                    while !sh.drop_done.load(SeqCst) {
                        thread::sleep(Duration::from_micros(100));
                    }
                }
                if let Some(h) = do_spawn(&scheduler, &sh, t, sp.proc) {
                    handles.push((t.clone(), h));
                }
            }
            for (t, mut h) in handles {
                let o = await_free(&mut h, &t);
                log(json!({"ev":"resolved","t":t.id,"o":o}));
            }
            sh.spawners_quiet.fetch_add(1, SeqCst);
            while !sh.drop_done.load(SeqCst) {
                thread::sleep(Duration::from_micros(100));
            }
            drop(scheduler);
        }));
    }
    if early {
        thread::sleep(Duration::from_micros(rng.below(400)));
    } else {
        while sh.spawners_quiet.load(SeqCst) + nlate < sh.nspawners {
            thread::sleep(Duration::from_micros(100));
        }
    }
    log(json!({"ev":"drop_start"}));
    drop(pool);
    log(json!({"ev":"drop_done"}));
    sh.drop_done.store(true, SeqCst);
    for t in threads {
        let _ = t.join();
    }
    log(json!({"ev":"quiesce"}));
}

/// Fan-out during shutdown: task 0 runs on processor A and, inside its body, starts a helper thread pinned to a processor B
/// the pool has never used; the helper spawns task 1 (lazy start-up of B's 8 workers) and the
/// body waits for the helper.  The pool is dropped just after the helper announced its spawn.  Dropping has to terminate:
/// the worker running task 0 can only be joined once the helper got through worker start-up.
fn fanout_scenario(idx: u64, seed: u64) {
    let mut rng = Rng::new(seed ^ idx.wrapping_mul(0x9E37_79B9_7F4A_7C15));
    let hw = SystemHardware::current().clone();
    let cpus: Vec<u64> = hw.processors().processors().iter().map(|p| u64::from(p.id())).collect();
    if cpus.len() < 2 {
        return free_scenario(idx, seed, 3);
    }
    let a = cpus[rng.below(cpus.len() as u64) as usize];
    let b = *cpus.iter().filter(|c| **c != a).nth(rng.below(cpus.len() as u64 - 1) as usize).expect("second processor");
    let wpp = 8u32; // the most the trace's worker ids (processor * 8 + index) can tell apart
    let pool = Pool::builder().hardware(hw.clone()).workers_per_processor(NonZero::new(wpp).unwrap()).name(format!("fan{idx}")).build();
    let sh = Arc::new(Shared { hw, real: true, drop_done: AtomicBool::new(false), spawners_quiet: AtomicUsize::new(0), nspawners: 1, ran: std::sync::Mutex::new(std::collections::HashSet::new()) });
    log(json!({"ev":"scenario","id":format!("fanout-{idx}"),"mode":"free","hw":"real","seed":seed,"early_drop":true,"spawners":2,"wpp":wpp,"tasks":2}));
    let t0 = TaskSpec { id: 0, urgent: false, panics: false, forget: false, gate: 0 };
    let t1 = TaskSpec { id: 1, urgent: rng.chance(1, 2), panics: false, forget: false, gate: 0 };
    let announced = Arc::new(AtomicBool::new(false));
    let slot: Arc<Mutex<Option<JoinHandle<u64>>>> = Arc::new(Mutex::new(None));
    let delay = rng.below(250);
    let spawner = {
        let (sh, scheduler, announced, slot, t0, t1) = (Arc::clone(&sh), pool.scheduler(), Arc::clone(&announced), Arc::clone(&slot), t0.clone(), t1.clone());
        thread::spawn(move || {
            pin_to(&sh.hw, a);
            log(json!({"ev":"call","t":t0.id,"p":a,"h":true,"x":false,"urgent":false}));
            let inner = task_body(&scheduler, &sh, &t0);
            let (sh2, sched2, slot2, t1b) = (Arc::clone(&sh), scheduler.clone(), Arc::clone(&slot), t1.clone());
            let mut h0 = scheduler.spawn(move || {
                let v = inner();
                let helper = thread::spawn(move || {
                    pin_to(&sh2.hw, b);
                    announced.store(true, SeqCst);
                    let h = do_spawn(&sched2, &sh2, &t1b, b);
                    *slot2.lock().unwrap() = h;
                });
                let _ = helper.join();
                v
            });
            let o = await_free(&mut h0, &t0);
            log(json!({"ev":"resolved","t":t0.id,"o":o}));
            let h1 = slot.lock().unwrap().take();
            if let Some(mut h1) = h1 {
                let o = await_free(&mut h1, &t1);
                log(json!({"ev":"resolved","t":t1.id,"o":o}));
            }
            while !sh.drop_done.load(SeqCst) {
                thread::sleep(Duration::from_micros(100));
            }
            drop(scheduler);
        })
    };
    while !announced.load(SeqCst) {
        thread::sleep(Duration::from_micros(20));
    }
    thread::sleep(Duration::from_micros(delay));
    log(json!({"ev":"drop_start"}));
    drop(pool);
    log(json!({"ev":"drop_done"}));
    sh.drop_done.store(true, SeqCst);
    let _ = spawner.join();
    log(json!({"ev":"quiesce"}));
}

fn flush_free(tr: &Tracer) {
    let mut g = FREE_LOG.lock().unwrap_or_else(|e| e.into_inner());
    for v in g.drain(..) {
        tr.emit(&v);
    }
    tr.flush();
}

fn cmd_free(trace: &str, seed: u64, first: u64, count: u64, max_spawners: u64) {
    install_hooks();
    let tr = Arc::new(Tracer::create(trace));
    let current = Arc::new(AtomicU64::new(first));
    let started = Arc::new(Mutex::new(Instant::now()));
    {
        // watchdog: a scenario that does not reach its quiescence point within 12 s is recorded as hung
        let tr = Arc::clone(&tr);
        let current = Arc::clone(&current);
        let started = Arc::clone(&started);
        thread::spawn(move || loop {
            thread::sleep(Duration::from_millis(250));
            let t0 = *started.lock().unwrap();
            if t0.elapsed() > Duration::from_secs(12) {
                FREE_LOG.lock().unwrap_or_else(|e| e.into_inner()).push(json!({"ev":"hung","blocked":["watchdog 12s"]}));
                flush_free(&tr);
                println!("{}", json!({"hung_at":current.load(SeqCst)}));
                std::process::exit(3);
            }
        });
    }
    for idx in first..first + count {
        current.store(idx, SeqCst);
        *started.lock().unwrap() = Instant::now();
        FREE_LOG.lock().unwrap().push(json!({"ev":"reset"}));
        if idx % 4 == 3 {
            fanout_scenario(idx, seed);
        } else {
            free_scenario(idx, seed, max_spawners);
        }
        flush_free(&tr);
    }
    println!("{}", json!({"done":count,"hook_events":HOOK_EVENTS.load(SeqCst)}));
}

fn main() {
    vrt::quiet_panics();
    let args: Vec<String> = std::env::args().collect();
    match args.get(1).map(String::as_str) {
        Some("sched") => cmd_sched(&args[2], &args[3], &args[4]),
        Some("free") => cmd_free(&args[2], args[3].parse().unwrap(), args[4].parse().unwrap(), args[5].parse().unwrap(), args[6].parse().unwrap()),
        _ => {
            eprintln!("usage: h_vicinal sched <stimuli> <trace> <stats> | free <trace> <seed> <first> <count> <max_spawners>");
            std::process::exit(2);
        }
    }
    // threads leaked by hung scenarios must not keep the process alive
    std::process::exit(0);
}
