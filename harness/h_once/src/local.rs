//! C07: the single-threaded one-shot event under re-entrant waker callbacks.
//!
//! Stimulus: {"id":n,"storage":"boxed|embedded|pooled|lake","top":[op,...],"cbs":[{"kind":"clone|wake|drop","ops":[op,...]},...]}
//! `top` are the operations issued with an empty call stack, `cbs[k]` is what the k-th waker-callback invocation (in
//! invocation order, counted over the whole run) does: operations on the OTHER endpoint, executed re-entrantly from
//! inside the vtable function.  op: send | sdrop | poll | is_ready | into_value | drop.
//! An operation whose endpoint is busy (on the call stack) or gone cannot be expressed in safe Rust: it is skipped and
//! counted as drift (the model predicted something the code did not do).
//! Everything is logged in one total order (single thread): API inv/resp, waker and payload callbacks, every access to
//! the event (state / value / awaiter / backtrace, through the folo_verif hooks) and the release.
use std::cell::{Cell, RefCell};
use std::future::Future;
use std::pin::Pin;
use std::task::{Context, Poll};

use events_once::{Disconnected, EmbeddedLocalEvent, IntoValueError, LocalEvent, LocalEventLake, LocalEventPool};
use vrt::{json, Tracer, Value};

use crate::{make_waker, Payload};

trait LSnd {
    fn send_it(self: Box<Self>, v: Payload);
}
trait LRcv {
    fn poll_it(&mut self, cx: &mut Context<'_>) -> Poll<Result<Payload, Disconnected>>;
    fn ready(&self) -> bool;
    fn value(self: Box<Self>) -> Result<Payload, Option<Box<dyn LRcv>>>;
}
macro_rules! lendpoints {
    ($s:ty, $r:ty) => {
        impl LSnd for $s {
            fn send_it(self: Box<Self>, v: Payload) {
                (*self).send(v)
            }
        }
        impl LRcv for $r {
            fn poll_it(&mut self, cx: &mut Context<'_>) -> Poll<Result<Payload, Disconnected>> {
                Pin::new(self).poll(cx)
            }
            fn ready(&self) -> bool {
                self.is_ready()
            }
            fn value(self: Box<Self>) -> Result<Payload, Option<Box<dyn LRcv>>> {
                match (*self).into_value() {
                    Ok(v) => Ok(v),
                    Err(IntoValueError::Pending(back)) => Err(Some(Box::new(back))),
                    Err(IntoValueError::Disconnected) => Err(None),
                }
            }
        }
    };
}
lendpoints!(events_once::BoxedLocalSender<Payload>, events_once::BoxedLocalReceiver<Payload>);
lendpoints!(events_once::RawLocalSender<Payload>, events_once::RawLocalReceiver<Payload>);
lendpoints!(events_once::PooledLocalSender<Payload>, events_once::PooledLocalReceiver<Payload>);

struct CbProg {
    kind: String,
    ops: Vec<String>,
}

thread_local! {
    static ACTIVE: Cell<bool> = const { Cell::new(false) };
    static LOG: RefCell<Vec<Value>> = const { RefCell::new(Vec::new()) };
    static SENDER: RefCell<Option<Box<dyn LSnd>>> = const { RefCell::new(None) };
    static RECEIVER: RefCell<Option<Box<dyn LRcv>>> = const { RefCell::new(None) };
    static CBS: RefCell<Vec<CbProg>> = const { RefCell::new(Vec::new()) };
    static CB_COUNT: Cell<usize> = const { Cell::new(0) };
    static POLLS: Cell<u32> = const { Cell::new(0) };
    static LAST_WAKER: RefCell<Option<(u32, crate::OwnWaker)>> = const { RefCell::new(None) };
    static DRIFT: Cell<u32> = const { Cell::new(0) };
}

pub fn active() -> bool {
    ACTIVE.with(Cell::get)
}

pub fn log(mut v: Value) {
    LOG.with(|l| {
        let mut l = l.borrow_mut();
        if let Some(o) = v.as_object_mut() {
            o.insert("task".into(), json!(0));
            o.insert("seq".into(), json!(l.len() + 1));
        }
        l.push(v);
    });
}

fn drift() {
    DRIFT.with(|d| d.set(d.get() + 1));
}

/// Executes one endpoint operation (top level or from inside a callback).
fn do_op(op: &str) {
    match op {
        "send" | "sdrop" => {
            let Some(s) = SENDER.with(|c| c.borrow_mut().take()) else {
                drift();
                return;
            };
            if op == "send" {
                log(json!({"ev":"inv","side":"S","op":"send"}));
                s.send_it(Payload(7));
                log(json!({"ev":"resp","side":"S","op":"send","res":"done"}));
            } else {
                log(json!({"ev":"inv","side":"S","op":"drop"}));
                drop(s);
                log(json!({"ev":"resp","side":"S","op":"drop","res":"done"}));
            }
        }
        _ => {
            let Some(mut r) = RECEIVER.with(|c| c.borrow_mut().take()) else {
                drift();
                return;
            };
            match op {
                "poll" | "repoll" => {
                    // "repoll": the same waker object as the previous poll (will_wake() is true), else a fresh one
                    let reuse = if op == "repoll" { LAST_WAKER.with(|c| c.borrow_mut().take()) } else { None };
                    let (id, w) = match reuse {
                        Some(x) => x,
                        None => {
                            let id = POLLS.with(|p| {
                                p.set(p.get() + 1);
                                p.get()
                            });
                            (id, make_waker(id))
                        }
                    };
                    log(json!({"ev":"inv","side":"R","op":"poll","w":id}));
                    let mut cx = Context::from_waker(&w);
                    match r.poll_it(&mut cx) {
                        Poll::Pending => {
                            log(json!({"ev":"resp","side":"R","op":"poll","res":"pending"}));
                            RECEIVER.with(|c| *c.borrow_mut() = Some(r));
                        }
                        Poll::Ready(Ok(p)) => {
                            let v = p.take_value();
                            log(json!({"ev":"resp","side":"R","op":"poll","res":"value","v":v}));
                            drop(r);
                        }
                        Poll::Ready(Err(Disconnected)) => {
                            log(json!({"ev":"resp","side":"R","op":"poll","res":"disc"}));
                            drop(r);
                        }
                    }
                    LAST_WAKER.with(|c| *c.borrow_mut() = Some((id, w)));
                }
                "is_ready" => {
                    log(json!({"ev":"inv","side":"R","op":"is_ready","w":0}));
                    let b = r.ready();
                    log(json!({"ev":"resp","side":"R","op":"is_ready","res": if b {"true"} else {"false"}}));
                    RECEIVER.with(|c| *c.borrow_mut() = Some(r));
                }
                "into_value" => {
                    log(json!({"ev":"inv","side":"R","op":"into_value","w":0}));
                    match r.value() {
                        Ok(p) => {
                            let v = p.take_value();
                            log(json!({"ev":"resp","side":"R","op":"into_value","res":"value","v":v}));
                        }
                        Err(Some(back)) => {
                            log(json!({"ev":"resp","side":"R","op":"into_value","res":"pending"}));
                            RECEIVER.with(|c| *c.borrow_mut() = Some(back));
                        }
                        Err(None) => {
                            log(json!({"ev":"resp","side":"R","op":"into_value","res":"disc"}));
                        }
                    }
                }
                _ => {
                    log(json!({"ev":"inv","side":"R","op":"drop","w":0}));
                    drop(r);
                    log(json!({"ev":"resp","side":"R","op":"drop","res":"done"}));
                }
            }
        }
    }
}

/// Called from the scripted waker vtable (after the callback itself has been logged).
pub fn on_callback(kind: &str, _w: u32) {
    if !active() {
        return;
    }
    let n = CB_COUNT.with(|c| {
        let n = c.get();
        c.set(n + 1);
        n
    });
    let ops: Vec<String> = CBS.with(|c| {
        let c = c.borrow();
        match c.get(n) {
            Some(p) => {
                if p.kind != kind {
                    drift();
                }
                p.ops.clone()
            }
            None => vec![],
        }
    });
    for op in ops {
        do_op(&op);
    }
}

pub fn on_payload_drop() {}

fn run_one(tr: &Tracer, st: &Value) {
    crate::reset_addr_ids();
    let id = st["id"].as_u64().unwrap_or(0);
    let storage = st["storage"].as_str().unwrap_or("boxed").to_string();
    let top: Vec<String> = st["top"].as_array().map(|a| a.iter().map(|x| x.as_str().unwrap().to_string()).collect()).unwrap_or_default();
    let cbs: Vec<CbProg> = st["cbs"]
        .as_array()
        .map(|a| {
            a.iter()
                .map(|c| CbProg {
                    kind: c["kind"].as_str().unwrap_or("").to_string(),
                    ops: c["ops"].as_array().map(|o| o.iter().map(|x| x.as_str().unwrap().to_string()).collect()).unwrap_or_default(),
                })
                .collect()
        })
        .unwrap_or_default();
    tr.emit(&json!({"ev":"reset","id":id,"storage":storage,"local":true,"top":top,"cbs":st["cbs"]}));
    LOG.with(|l| l.borrow_mut().clear());
    CBS.with(|c| *c.borrow_mut() = cbs);
    CB_COUNT.with(|c| c.set(0));
    POLLS.with(|c| c.set(0));
    LAST_WAKER.with(|c| *c.borrow_mut() = None);
    DRIFT.with(|c| c.set(0));
    let mut pool_len: Box<dyn Fn() -> i64> = Box::new(|| -1);
    let (s, r): (Box<dyn LSnd>, Box<dyn LRcv>) = match storage.as_str() {
        "embedded" => {
            let place: &'static mut EmbeddedLocalEvent<Payload> = Box::leak(Box::new(EmbeddedLocalEvent::new()));
            // SAFETY: the place is leaked: pinned and alive for longer than both endpoints
            let (s, r) = unsafe { LocalEvent::placed(Pin::new_unchecked(place)) };
            (Box::new(s), Box::new(r))
        }
        "pooled" => {
            let pool: &'static LocalEventPool<Payload> = Box::leak(Box::new(LocalEventPool::new()));
            pool_len = Box::new(move || pool.len() as i64);
            let (s, r) = pool.rent();
            (Box::new(s), Box::new(r))
        }
        "lake" => {
            let lake: &'static LocalEventLake = Box::leak(Box::new(LocalEventLake::new()));
            pool_len = Box::new(move || lake.len() as i64);
            let (s, r) = lake.rent::<Payload>();
            (Box::new(s), Box::new(r))
        }
        _ => {
            let (s, r) = LocalEvent::<Payload>::boxed();
            (Box::new(s), Box::new(r))
        }
    };
    SENDER.with(|c| *c.borrow_mut() = Some(s));
    RECEIVER.with(|c| *c.borrow_mut() = Some(r));
    ACTIVE.with(|a| a.set(true));
    let res = vrt::catch(|| {
        for op in &top {
            do_op(op);
        }
        // finish: whatever still exists is dropped at top level (callbacks beyond the script do nothing)
        if SENDER.with(|c| c.borrow().is_some()) {
            do_op("sdrop");
        }
        if RECEIVER.with(|c| c.borrow().is_some()) {
            do_op("drop");
        }
    });
    ACTIVE.with(|a| a.set(false));
    // endpoints stranded by a panic are leaked, not dropped (dropping could panic again outside the log)
    SENDER.with(|c| std::mem::forget(c.borrow_mut().take()));
    RECEIVER.with(|c| std::mem::forget(c.borrow_mut().take()));
    let log: Vec<Value> = LOG.with(|l| std::mem::take(&mut *l.borrow_mut()));
    for v in &log {
        tr.emit(v);
    }
    let panicked = res.err().unwrap_or_default();
    tr.emit(&json!({"ev":"end","id":id,"outcome": if panicked.is_empty() {"completed"} else {"panicked"},
        "drift": DRIFT.with(Cell::get), "panics":[panicked], "pool_len": pool_len(),
        "callbacks": CB_COUNT.with(Cell::get)}));
}

pub fn run(stimuli: &str, out: &str) {
    let tr = Tracer::create(out);
    for st in vrt::read_ndjson(stimuli) {
        run_one(&tr, &st);
    }
}
