//! C07: single-threaded event under re-entrant waker callbacks (filled in below).
pub fn on_callback(_which: &str, _w: u32) {}
pub fn on_payload_drop() {}
pub fn run(_stimuli: &str, _out: &str) {
    eprintln!("local: not built yet");
    std::process::exit(2);
}
