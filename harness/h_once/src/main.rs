//! Harness for C05/C06 (thread-safe one-shot event) and C07 (single-threaded event, module `local`).
//!
//! `h_once sync <stimuli.ndjson> <out.ndjson>`: each stimulus line is
//!   {"id":n, "storage":"boxed|embedded|pooled|raw_pooled|lake|raw_lake", "sender":"send|drop",
//!    "receiver":["poll","is_ready","into_value","drop",...], "script":[[task,"op-prefix"],...] | null, "seed":n}
//! task 0 = sender endpoint, task 1 = receiver endpoint.  The real event runs under vrt::sched with the shim atomics
//! of events_once (cfg folo_verif) as scheduling points.  Output: one {"ev":"reset",...} record per stimulus followed by
//! the totally ordered event log (atomic steps with orderings, cell accesses, release, API invocations/responses,
//! waker and payload callbacks) and a {"ev":"end",...} record with the scheduler outcome.
use std::collections::HashMap;
use std::future::Future;
use std::pin::Pin;
use std::sync::atomic::Ordering;
use std::sync::{Mutex, OnceLock};
use std::task::{Context, Poll, RawWaker, RawWakerVTable, Waker};

use events_once::{Disconnected, EmbeddedEvent, Event, EventLake, EventPool, IntoValueError, RawEventLake, RawEventPool};
use vrt::sched::{self, Exec, Outcome, Strategy};
use vrt::{json, Tracer, Value};

mod local;

// ---------------------------------------------------------------------------------------------- hook glue

static ADDR_IDS: OnceLock<Mutex<HashMap<usize, u32>>> = OnceLock::new();

fn addr_id(addr: usize) -> u32 {
    if addr == 0 {
        return 0;
    }
    let mut m = ADDR_IDS.get_or_init(|| Mutex::new(HashMap::new())).lock().unwrap_or_else(|e| e.into_inner());
    let n = m.len() as u32 + 1;
    *m.entry(addr).or_insert(n)
}

pub(crate) fn reset_addr_ids() {
    ADDR_IDS.get_or_init(|| Mutex::new(HashMap::new())).lock().unwrap_or_else(|e| e.into_inner()).clear();
    STATE_OWNER.get_or_init(|| Mutex::new(HashMap::new())).lock().unwrap_or_else(|e| e.into_inner()).clear();
}

/// address of a state variable -> address of the event that contains it (filled by the `created` hook)
static STATE_OWNER: OnceLock<Mutex<HashMap<usize, usize>>> = OnceLock::new();

fn owner_of(state_addr: usize) -> u32 {
    let m = STATE_OWNER.get_or_init(|| Mutex::new(HashMap::new())).lock().unwrap_or_else(|e| e.into_inner());
    m.get(&state_addr).copied().map(addr_id).unwrap_or(0)
}

/// one log for both modes: the scheduler's ordered log inside tasks, the thread-local log in single-threaded mode
fn log_ev(v: Value) {
    if local::active() {
        local::log(v);
    } else {
        sched::emit(v);
    }
}

fn ord_name(o: Ordering) -> &'static str {
    match o {
        Ordering::Relaxed => "rlx",
        Ordering::Acquire => "acq",
        Ordering::Release => "rel",
        Ordering::AcqRel => "acqrel",
        Ordering::SeqCst => "sc",
        _ => "sc",
    }
}

fn before_atomic(_addr: usize, op: &'static str) {
    if op == "spin" {
        sched::spin("spin");
    } else {
        sched::point(op);
    }
}

fn after_atomic(e: &events_once::verif::AtomicEvent) {
    if e.op == "spin" {
        log_ev(json!({"ev":"spin"}));
        return;
    }
    log_ev(json!({
        "ev":"atomic", "op":e.op, "ord":ord_name(e.order),
        "ordf": e.order_fail.map(ord_name).unwrap_or("none"),
        "obs": e.observed.map(i64::from).unwrap_or(-1),
        "wr": e.written.map(i64::from).unwrap_or(-1),
        "loc": addr_id(e.addr),
        "obj": owner_of(e.addr),
    }));
}

fn created(event: usize, state: usize) {
    // state variable and event share one id space; remember that this state belongs to this event
    STATE_OWNER.get_or_init(|| Mutex::new(HashMap::new())).lock().unwrap_or_else(|e| e.into_inner()).insert(state, event);
    let ev = addr_id(event);
    let st = addr_id(state);
    log_ev(json!({"ev":"created","obj":ev,"loc":st}));
}

fn cell(event: usize, part: &'static str, access: &'static str) {
    // the state cell of the single-threaded event reports its own address: relate it to its event
    let obj = if part == "state" { owner_of(event) } else { addr_id(event) };
    log_ev(json!({"ev":"cell","part":part,"acc":access,"obj":obj}));
}

fn release(event: usize, storage: &'static str) {
    log_ev(json!({"ev":"release","storage":storage,"obj":addr_id(event)}));
}

pub fn install_hooks() {
    events_once::verif::install(events_once::verif::Hooks { before_atomic, after_atomic, created, cell, release });
}

// ---------------------------------------------------------------------------------------------- scripted wakers

/// Scripted wakers, Arc-like: every clone shares the data pointer of the waker it was cloned from, so
/// `Waker::will_wake` is true between a waker and its clones (as for the wakers of real executors).  The data is LEAKED,
/// never freed: a waker that the code under test releases twice (or uses after releasing) must show up as events for the
/// judge (`wdrop` / `wwake` beyond the `wclone`s of that id), not corrupt the harness's heap.
struct WData {
    id: u32,
}

thread_local! {
    /// set while the harness itself drops the waker it created (that drop is not an event of the code under test)
    static OWN_DROP: std::cell::Cell<bool> = const { std::cell::Cell::new(false) };
}

fn w_clone(p: *const ()) -> RawWaker {
    // SAFETY: p came from make_waker: leaked, alive forever
    let d = unsafe { &*(p as *const WData) };
    log_ev(json!({"ev":"wclone","w":d.id}));
    local::on_callback("clone", d.id);
    RawWaker::new(p, &VTABLE)
}
fn w_wake(p: *const ()) {
    // SAFETY: see w_clone; wake consumes the waker
    let d = unsafe { &*(p as *const WData) };
    log_ev(json!({"ev":"wwake","w":d.id}));
    local::on_callback("wake", d.id);
}
fn w_wake_by_ref(p: *const ()) {
    // SAFETY: see w_clone
    let d = unsafe { &*(p as *const WData) };
    log_ev(json!({"ev":"wwake_ref","w":d.id}));
}
fn w_drop(p: *const ()) {
    if OWN_DROP.with(std::cell::Cell::get) {
        return;
    }
    // SAFETY: see w_clone
    let d = unsafe { &*(p as *const WData) };
    log_ev(json!({"ev":"wdrop","w":d.id}));
    local::on_callback("drop", d.id);
}
static VTABLE: RawWakerVTable = RawWakerVTable::new(w_clone, w_wake, w_wake_by_ref, w_drop);

/// The waker the harness passes to `poll`; dropping it is not an event.
pub struct OwnWaker(std::mem::ManuallyDrop<Waker>);
impl std::ops::Deref for OwnWaker {
    type Target = Waker;
    fn deref(&self) -> &Waker {
        &self.0
    }
}
impl Drop for OwnWaker {
    fn drop(&mut self) {
        OWN_DROP.with(|f| f.set(true));
        // SAFETY: dropped exactly once, here
        unsafe { std::mem::ManuallyDrop::drop(&mut self.0) };
        OWN_DROP.with(|f| f.set(false));
    }
}

pub fn make_waker(id: u32) -> OwnWaker {
    let d: &'static WData = Box::leak(Box::new(WData { id }));
    // SAFETY: the vtable functions uphold the RawWaker contract for the leaked WData
    OwnWaker(std::mem::ManuallyDrop::new(unsafe { Waker::from_raw(RawWaker::new(std::ptr::from_ref(d).cast(), &VTABLE)) }))
}

/// Payload whose destructor is an event.
pub struct Payload(pub u32);
impl Drop for Payload {
    fn drop(&mut self) {
        if self.0 != 0 {
            log_ev(json!({"ev":"pdrop","v":self.0}));
            local::on_payload_drop();
        }
    }
}
impl Payload {
    /// The receiver got the value: taking it out is the hand-over (no destructor event).
    pub fn take_value(self) -> u32 {
        self.take()
    }
    fn take(mut self) -> u32 {
        let v = self.0;
        self.0 = 0;
        v
    }
}

// ---------------------------------------------------------------------------------------------- endpoints

trait Snd: Send + 'static {
    fn send_it(self, v: Payload);
}
trait Rcv: Future<Output = Result<Payload, Disconnected>> + Unpin + Send + Sized + 'static {
    fn ready(&self) -> bool;
    fn value(self) -> Result<Payload, IntoValueError<Self>>;
}
macro_rules! endpoints {
    ($s:ty, $r:ty) => {
        impl Snd for $s {
            fn send_it(self, v: Payload) {
                self.send(v)
            }
        }
        impl Rcv for $r {
            fn ready(&self) -> bool {
                self.is_ready()
            }
            fn value(self) -> Result<Payload, IntoValueError<Self>> {
                self.into_value()
            }
        }
    };
}
endpoints!(events_once::BoxedSender<Payload>, events_once::BoxedReceiver<Payload>);
endpoints!(events_once::RawSender<Payload>, events_once::RawReceiver<Payload>);
endpoints!(events_once::PooledSender<Payload>, events_once::PooledReceiver<Payload>);
endpoints!(events_once::RawPooledSender<Payload>, events_once::RawPooledReceiver<Payload>);

fn sender_task<S: Snd>(s: S, mode: String) {
    if mode == "send" {
        sched::emit(json!({"ev":"inv","side":"S","op":"send"}));
        s.send_it(Payload(7));
        sched::emit(json!({"ev":"resp","side":"S","op":"send","res":"done"}));
    } else {
        sched::emit(json!({"ev":"inv","side":"S","op":"drop"}));
        drop(s);
        sched::emit(json!({"ev":"resp","side":"S","op":"drop","res":"done"}));
    }
}

fn receiver_task<R: Rcv>(r: R, prog: Vec<String>) {
    let mut r = Some(r);
    let mut polls = 0u32;
    // the waker of the previous poll: "repoll" polls again with the SAME waker (will_wake() is true), "poll" with a new one
    let mut last: Option<OwnWaker> = None;
    for op in prog {
        let Some(mut rc) = r.take() else { break };
        match op.as_str() {
            "poll" | "repoll" => {
                let w = match (op.as_str(), last.take()) {
                    ("repoll", Some(w)) => w,
                    _ => {
                        polls += 1;
                        make_waker(polls)
                    }
                };
                sched::emit(json!({"ev":"inv","side":"R","op":"poll","w":polls}));
                let mut cx = Context::from_waker(&w);
                let res = Pin::new(&mut rc).poll(&mut cx);
                match res {
                    Poll::Pending => {
                        sched::emit(json!({"ev":"resp","side":"R","op":"poll","res":"pending"}));
                        r = Some(rc);
                    }
                    Poll::Ready(Ok(p)) => {
                        let v = p.take();
                        sched::emit(json!({"ev":"resp","side":"R","op":"poll","res":"value","v":v}));
                        drop(rc); // completed receiver: dropping it is not an API-level operation
                    }
                    Poll::Ready(Err(Disconnected)) => {
                        sched::emit(json!({"ev":"resp","side":"R","op":"poll","res":"disc"}));
                        drop(rc);
                    }
                }
                last = Some(w);
            }
            "is_ready" => {
                sched::emit(json!({"ev":"inv","side":"R","op":"is_ready","w":0}));
                let b = rc.ready();
                sched::emit(json!({"ev":"resp","side":"R","op":"is_ready","res": if b {"true"} else {"false"}}));
                r = Some(rc);
            }
            "into_value" => {
                sched::emit(json!({"ev":"inv","side":"R","op":"into_value","w":0}));
                match rc.value() {
                    Ok(p) => {
                        let v = p.take();
                        sched::emit(json!({"ev":"resp","side":"R","op":"into_value","res":"value","v":v}));
                    }
                    Err(IntoValueError::Pending(back)) => {
                        sched::emit(json!({"ev":"resp","side":"R","op":"into_value","res":"pending"}));
                        r = Some(back);
                    }
                    Err(IntoValueError::Disconnected) => {
                        sched::emit(json!({"ev":"resp","side":"R","op":"into_value","res":"disc"}));
                    }
                }
            }
            _ => {
                sched::emit(json!({"ev":"inv","side":"R","op":"drop","w":0}));
                drop(rc);
                sched::emit(json!({"ev":"resp","side":"R","op":"drop","res":"done"}));
            }
        }
    }
    if let Some(rc) = r.take() {
        sched::emit(json!({"ev":"inv","side":"R","op":"drop","w":0}));
        drop(rc);
        sched::emit(json!({"ev":"resp","side":"R","op":"drop","res":"done"}));
    }
}

struct SendPtr<T>(T);
// SAFETY: used only to move a pinned place / pool reference into the task threads; the harness keeps the pointee alive
// (leaked) for the duration of the run and beyond.
unsafe impl<T> Send for SendPtr<T> {}

fn run_stimulus(tr: &Tracer, st: &Value) {
    reset_addr_ids();
    let id = st["id"].as_u64().unwrap_or(0);
    let storage = st["storage"].as_str().unwrap_or("boxed").to_string();
    let mode = st["sender"].as_str().unwrap_or("send").to_string();
    let prog: Vec<String> = st["receiver"].as_array().map(|a| a.iter().map(|x| x.as_str().unwrap().to_string()).collect()).unwrap_or_default();
    let seed = st["seed"].as_u64().unwrap_or(1);
    let strategy = match st["script"].as_array() {
        Some(a) => Strategy::Script(a.iter().map(|e| (e[0].as_u64().unwrap() as usize, e[1].as_str().unwrap().to_string())).collect()),
        None => {
            if st["pct"].as_bool().unwrap_or(false) { Strategy::Pct { changes: 3 } } else { Strategy::Random }
        }
    };
    tr.emit(&json!({"ev":"reset","id":id,"storage":storage,"sender":mode,"receiver":prog,"scripted":st["script"].is_array()}));
    let mut ex = Exec::new(strategy, seed);
    ex.max_steps = 5_000;
    let mut pool_len: Box<dyn Fn() -> i64> = Box::new(|| -1);
    match storage.as_str() {
        "embedded" => {
            // the place is leaked: a late access after release then touches live (not freed) memory and shows as an event
            let place: &'static mut EmbeddedEvent<Payload> = Box::leak(Box::new(EmbeddedEvent::new()));
            // SAFETY: the place is pinned (leaked, never moved) and outlives both endpoints
            let (s, r) = unsafe { Event::placed(Pin::new_unchecked(place)) };
            let m = mode.clone();
            ex.spawn("S", move || sender_task(s, m));
            ex.spawn("R", move || receiver_task(r, prog));
        }
        "pooled" => {
            let pool: &'static EventPool<Payload> = Box::leak(Box::new(EventPool::new()));
            let (s, r) = pool.rent();
            pool_len = Box::new(move || pool.len() as i64);
            let m = mode.clone();
            ex.spawn("S", move || sender_task(s, m));
            ex.spawn("R", move || receiver_task(r, prog));
        }
        "lake" => {
            let lake: &'static EventLake = Box::leak(Box::new(EventLake::new()));
            let (s, r) = lake.rent::<Payload>();
            pool_len = Box::new(move || lake.len() as i64);
            let m = mode.clone();
            ex.spawn("S", move || sender_task(s, m));
            ex.spawn("R", move || receiver_task(r, prog));
        }
        "raw_pooled" => {
            let pool: &'static RawEventPool<Payload> = Box::leak(Box::new(RawEventPool::new()));
            // SAFETY: the pool is leaked, hence pinned and alive for as long as any endpoint
            let (s, r) = unsafe { Pin::new_unchecked(pool).rent() };
            pool_len = Box::new(move || pool.len() as i64);
            let m = mode.clone();
            ex.spawn("S", move || sender_task(s, m));
            ex.spawn("R", move || receiver_task(r, prog));
        }
        "raw_lake" => {
            let lake: &'static RawEventLake = Box::leak(Box::new(RawEventLake::new()));
            // SAFETY: the lake is leaked and outlives all endpoints
            let (s, r) = unsafe { lake.rent::<Payload>() };
            pool_len = Box::new(move || lake.len() as i64);
            let m = mode.clone();
            ex.spawn("S", move || sender_task(s, m));
            ex.spawn("R", move || receiver_task(r, prog));
        }
        _ => {
            let (s, r) = Event::<Payload>::boxed();
            let m = mode.clone();
            ex.spawn("S", move || sender_task(s, m));
            ex.spawn("R", move || receiver_task(r, prog));
        }
    }
    let rep = ex.run();
    for v in &rep.log {
        tr.emit(v);
    }
    let outcome = match &rep.outcome {
        Outcome::Completed => "completed".to_string(),
        Outcome::Deadlock(_) => "deadlock".to_string(),
        Outcome::StepLimit => "steplimit".to_string(),
        Outcome::Stuck(_) => "stuck".to_string(),
    };
    let completed = matches!(rep.outcome, Outcome::Completed);
    let steps: Vec<Value> = rep.steps.iter().map(|s| json!([s.task, s.op])).collect();
    tr.emit(&json!({"ev":"end","id":id,"outcome":outcome,"drift":rep.drift,
        "panics": rep.panics.iter().map(|p| p.clone().unwrap_or_default()).collect::<Vec<_>>(),
        "pool_len": if completed { pool_len() } else { -1 }, "steps": steps}));
    let _ = SendPtr(0);
}

// ---------------------------------------------------------------------------------------------- rental traffic

/// Harness-level hand-off of an endpoint between tasks.  The hand-off is a synchronisation the code under test relies
/// on the caller for (endpoints are Send, not Sync), so it is logged as an acq-rel RMW on a harness-owned location and
/// takes part in the happens-before relation of the recorded trace.
struct Mailbox<T> {
    q: Mutex<std::collections::VecDeque<T>>,
    loc: usize,
}
impl<T> Mailbox<T> {
    fn new(loc: usize) -> Self {
        Self { q: Mutex::new(std::collections::VecDeque::new()), loc }
    }
    fn sync_event(&self) {
        sched::emit(json!({"ev":"atomic","op":"swap","ord":"acqrel","ordf":"none","obs":0,"wr":0,"loc":addr_id(self.loc),"obj":0}));
    }
    fn push(&self, v: T) {
        sched::point("mailbox.push");
        self.q.lock().unwrap().push_back(v);
        self.sync_event();
    }
    fn try_pop(&self) -> Option<T> {
        sched::point("mailbox.pop");
        let v = self.q.lock().unwrap().pop_front();
        if v.is_some() {
            self.sync_event();
        }
        v
    }
}

fn traffic_task<S: Snd, R: Rcv>(me: usize, n_tasks: usize, cycles: usize, seed: u64, rent: std::sync::Arc<dyn Fn() -> (S, R) + Send + Sync>,
                               boxes: std::sync::Arc<Vec<Mailbox<S>>>, done: std::sync::Arc<std::sync::atomic::AtomicUsize>) {
    let mut rng = vrt::Rng::new(seed ^ (me as u64 * 7919));
    let serve = |rng: &mut vrt::Rng| {
        while let Some(s) = boxes[me].try_pop() {
            if rng.chance(2, 3) {
                s.send_it(Payload(7));
            } else {
                drop(s);
            }
        }
    };
    for _ in 0..cycles {
        let (s, r) = rent();
        let target = (me + 1 + rng.below(n_tasks as u64 - 1) as usize) % n_tasks;
        boxes[target].push(s);
        serve(&mut rng);
        // receiver program on this task
        let mut r = Some(r);
        let mut polls = 0u32;
        for _ in 0..(1 + rng.below(3)) {
            let Some(mut rc) = r.take() else { break };
            match rng.below(4) {
                0 => {
                    polls += 1;
                    let w = make_waker(polls);
                    let mut cx = Context::from_waker(&w);
                    match Pin::new(&mut rc).poll(&mut cx) {
                        Poll::Pending => r = Some(rc),
                        Poll::Ready(Ok(p)) => {
                            p.take();
                        }
                        Poll::Ready(Err(_)) => {}
                    }
                }
                1 => {
                    let _ = rc.ready();
                    r = Some(rc);
                }
                2 => match rc.value() {
                    Ok(p) => {
                        p.take();
                    }
                    Err(IntoValueError::Pending(back)) => r = Some(back),
                    Err(IntoValueError::Disconnected) => {}
                },
                _ => {
                    serve(&mut rng);
                    r = Some(rc);
                }
            }
        }
        drop(r);
    }
    done.fetch_add(1, Ordering::SeqCst);
    // keep serving until every task has finished renting, so no sender is left in a mailbox
    loop {
        serve(&mut rng);
        if done.load(Ordering::SeqCst) == n_tasks {
            serve(&mut rng);
            break;
        }
        let d = std::sync::Arc::clone(&done);
        let b = std::sync::Arc::clone(&boxes);
        sched::block_until("traffic.wait", move || d.load(Ordering::SeqCst) == n_tasks || !b[me].q.lock().unwrap().is_empty());
    }
}

fn run_traffic(tr: &Tracer, st: &Value) {
    reset_addr_ids();
    let id = st["id"].as_u64().unwrap_or(0);
    let storage = st["storage"].as_str().unwrap_or("pooled").to_string();
    let n = st["tasks"].as_u64().unwrap_or(3) as usize;
    let cycles = st["cycles"].as_u64().unwrap_or(3) as usize;
    let seed = st["seed"].as_u64().unwrap_or(1);
    tr.emit(&json!({"ev":"reset","id":id,"storage":storage,"traffic":true,"tasks":n,"cycles":cycles}));
    let mut ex = Exec::new(if st["pct"].as_bool().unwrap_or(false) { Strategy::Pct { changes: 4 } } else { Strategy::Random }, seed);
    ex.max_steps = 100_000;
    let done = std::sync::Arc::new(std::sync::atomic::AtomicUsize::new(0));
    let mut pool_len: Box<dyn Fn() -> i64> = Box::new(|| -1);
    macro_rules! go {
        ($S:ty, $R:ty, $rent:expr) => {{
            let rent: std::sync::Arc<dyn Fn() -> ($S, $R) + Send + Sync> = std::sync::Arc::new($rent);
            // mailbox locations get addresses of their own (leaked boxes) so that they have distinct small ids
            let boxes: std::sync::Arc<Vec<Mailbox<$S>>> =
                std::sync::Arc::new((0..n).map(|_| Mailbox::new(Box::leak(Box::new(0u8)) as *mut u8 as usize)).collect());
            for me in 0..n {
                let (rent, boxes, done) = (rent.clone(), boxes.clone(), done.clone());
                ex.spawn(&format!("T{me}"), move || traffic_task(me, n, cycles, seed, rent, boxes, done));
            }
        }};
    }
    match storage.as_str() {
        "pooled" => {
            let pool: &'static EventPool<Payload> = Box::leak(Box::new(EventPool::new()));
            pool_len = Box::new(move || pool.len() as i64);
            go!(events_once::PooledSender<Payload>, events_once::PooledReceiver<Payload>, move || pool.rent());
        }
        "lake" => {
            let lake: &'static EventLake = Box::leak(Box::new(EventLake::new()));
            pool_len = Box::new(move || lake.len() as i64);
            go!(events_once::PooledSender<Payload>, events_once::PooledReceiver<Payload>, move || lake.rent::<Payload>());
        }
        "raw_pooled" => {
            let pool: &'static RawEventPool<Payload> = Box::leak(Box::new(RawEventPool::new()));
            pool_len = Box::new(move || pool.len() as i64);
            // SAFETY: the pool is leaked, hence pinned and alive for as long as any endpoint
            go!(events_once::RawPooledSender<Payload>, events_once::RawPooledReceiver<Payload>, move || unsafe { Pin::new_unchecked(pool).rent() });
        }
        "raw_lake" => {
            let lake: &'static RawEventLake = Box::leak(Box::new(RawEventLake::new()));
            pool_len = Box::new(move || lake.len() as i64);
            // SAFETY: the lake is leaked and outlives all endpoints
            go!(events_once::RawPooledSender<Payload>, events_once::RawPooledReceiver<Payload>, move || unsafe { lake.rent::<Payload>() });
        }
        _ => {
            go!(events_once::BoxedSender<Payload>, events_once::BoxedReceiver<Payload>, || Event::<Payload>::boxed());
        }
    }
    let rep = ex.run();
    for v in &rep.log {
        tr.emit(v);
    }
    let completed = matches!(rep.outcome, Outcome::Completed);
    let outcome = match &rep.outcome {
        Outcome::Completed => "completed",
        Outcome::Deadlock(_) => "deadlock",
        Outcome::StepLimit => "steplimit",
        Outcome::Stuck(_) => "stuck",
    };
    tr.emit(&json!({"ev":"end","id":id,"outcome":outcome,"drift":0,
        "panics": rep.panics.iter().map(|p| p.clone().unwrap_or_default()).collect::<Vec<_>>(),
        "pool_len": if completed { pool_len() } else { -1 }, "steps": rep.steps.len()}));
}

fn main() {
    vrt::quiet_panics();
    install_hooks();
    let args: Vec<String> = std::env::args().collect();
    match args.get(1).map(String::as_str) {
        Some("sync") => {
            let tr = Tracer::create(&args[3]);
            for st in vrt::read_ndjson(&args[2]) {
                run_stimulus(&tr, &st);
            }
        }
        Some("traffic") => {
            let tr = Tracer::create(&args[3]);
            for st in vrt::read_ndjson(&args[2]) {
                run_traffic(&tr, &st);
            }
        }
        Some("local") => local::run(&args[2], &args[3]),
        _ => {
            eprintln!("usage: h_once sync|local <stimuli.ndjson> <out.ndjson>");
            std::process::exit(2);
        }
    }
}
