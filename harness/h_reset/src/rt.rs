//! Run-time glue shared by the drivers: the hook table installed into `events` / `awaiter_set` (H3), the record log,
//! classification of atomic locations, counting wakers.
//!
//! Records (ndjson, one per event; `p` = process id: task index + 1, the finale runs as process ntasks + 1;
//! local drivers use the re-entrancy depth as `p`):
//!   {"ev":"inv","p":..,"op":"set|reset|try|poll|drop","w":wait,"k":waker}
//!   {"ev":"resp","p":..,"v":"ok|true|false|ready|pending|panic"}
//!   {"ev":"wake","p":..,"w":wait,"k":waker}      process p invoked waker k of wait w (logged when it happens)
//!   {"ev":"step","p":..,"loc":"state|lc|mutex","w":wait (lc only),"op":"load|store|cas|fetch_or|fetch_and|lock|unlock",
//!    "ord":"..","ord2":"..","arg":operand,"exp":expected,"obs":observed,"wr":written|-1,"sp":scheduling point?,"line":n}
//! Invocations are logged lazily: after the scheduling point of the operation's first atomic step (so that the recorded
//! history has the same minimal intervals as the explorer's).
use std::cell::RefCell;
use std::sync::atomic::Ordering;
use std::sync::{Arc, Mutex};
use std::task::{RawWaker, RawWakerVTable, Waker};

use events::verif::{Hooks, Op, OpKind};
use vrt::{json, sched, Value};

/// Shared state of one run (one event instance, one schedule).
pub struct RunCtx {
    pub log: Mutex<Vec<Value>>,
    /// (start, len, wait id) of live wait futures: atomics inside are lifecycle bytes
    pub waits: Mutex<Vec<(usize, usize, i64)>>,
    /// record atomic steps?
    pub steps: bool,
}

impl RunCtx {
    pub fn new(steps: bool) -> Arc<Self> {
        Arc::new(Self { log: Mutex::new(Vec::new()), waits: Mutex::new(Vec::new()), steps })
    }
    pub fn push(&self, v: Value) {
        self.log.lock().unwrap_or_else(|e| e.into_inner()).push(v);
    }
    pub fn add_wait(&self, start: usize, len: usize, w: i64) {
        self.waits.lock().unwrap_or_else(|e| e.into_inner()).push((start, len, w));
    }
    pub fn remove_wait(&self, start: usize) {
        self.waits.lock().unwrap_or_else(|e| e.into_inner()).retain(|x| x.0 != start);
    }
    fn classify(&self, addr: usize) -> Option<i64> {
        let g = self.waits.lock().unwrap_or_else(|e| e.into_inner());
        g.iter().find(|(s, l, _)| addr >= *s && addr < *s + *l).map(|x| x.2)
    }
    pub fn take_log(&self) -> Vec<Value> {
        std::mem::take(&mut *self.log.lock().unwrap_or_else(|e| e.into_inner()))
    }
}

/// Per-thread view: which process we are, the run, the invocation not yet logged, wakers invoked in the current op.
pub struct Local {
    pub ctx: Arc<RunCtx>,
    pub p: i64,
    pub pending_inv: Option<Value>,
    /// scheduling points enabled (false for the finale / local drivers)
    pub sched: bool,
}

thread_local! {
    static LOCAL: RefCell<Option<Local>> = const { RefCell::new(None) };
}

pub fn enter(ctx: &Arc<RunCtx>, p: i64, sched: bool) {
    LOCAL.with(|l| *l.borrow_mut() = Some(Local { ctx: Arc::clone(ctx), p, pending_inv: None, sched }));
}
pub fn leave() {
    LOCAL.with(|l| *l.borrow_mut() = None);
}
pub fn with_local<R>(f: impl FnOnce(&mut Local) -> R) -> Option<R> {
    LOCAL.with(|l| l.borrow_mut().as_mut().map(f))
}
pub fn set_p(p: i64) {
    with_local(|l| l.p = p);
}


fn flush_inv() {
    with_local(|l| {
        if let Some(v) = l.pending_inv.take() {
            l.ctx.push(v);
        }
    });
}

/// Begin an operation: the invocation record is held back until the first atomic step (or `end_op`).
pub fn begin_op(op: &str, w: i64, k: i64) {
    with_local(|l| {
        l.pending_inv = Some(json!({"ev":"inv","p":l.p,"op":op,"w":w,"k":k}));
    });
}

/// Log the invocation immediately (local drivers: nested operations must appear inside their parent).
pub fn begin_op_now(op: &str, w: i64, k: i64) {
    begin_op(op, w, k);
    flush_inv();
}

pub fn end_op(v: &str) {
    flush_inv();
    with_local(|l| {
        l.ctx.push(json!({"ev":"resp","p":l.p,"v":v}));
    });
}

fn ord_name(o: Ordering) -> &'static str {
    match o {
        Ordering::Relaxed => "Relaxed",
        Ordering::Release => "Release",
        Ordering::Acquire => "Acquire",
        Ordering::AcqRel => "AcqRel",
        Ordering::SeqCst => "SeqCst",
        _ => "?",
    }
}

fn kind_name(k: OpKind) -> &'static str {
    match k {
        OpKind::Load => "load",
        OpKind::Store => "store",
        OpKind::CompareExchange => "cas",
        OpKind::FetchOr => "fetch_or",
        OpKind::FetchAnd => "fetch_and",
        OpKind::Lock => "lock",
        OpKind::Unlock => "unlock",
        _ => "other",
    }
}

struct Site {
    loc: &'static str,
    w: i64,
    /// is this operation a scheduling point?  Relaxed loads of a lifecycle byte (Awaiter::lifecycle_phase, executed by
    /// the owner under the mutex only, incl. debug assertions) and unlocks are not: they commute with everything.
    sp: bool,
}

fn site(l: &Local, op: &Op) -> Site {
    match op.kind {
        OpKind::Lock => Site { loc: "mutex", w: 0, sp: true },
        OpKind::Unlock => Site { loc: "mutex", w: 0, sp: false },
        _ => match l.ctx.classify(op.address) {
            Some(w) => Site { loc: "lc", w, sp: !(op.kind == OpKind::Load && op.order == Ordering::Relaxed) },
            None => Site { loc: "state", w: 0, sp: true },
        },
    }
}

/// name published at the scheduling point (what a Script step is matched against)
fn point_name(s: &Site, op: &Op) -> String {
    if s.loc == "mutex" { "lock".to_string() } else { format!("{}.{}", s.loc, kind_name(op.kind)) }
}

fn hook_before(op: &Op) {
    let info = with_local(|l| (site(l, op), l.sched));
    let Some((s, sched_on)) = info else { return };
    if s.sp && sched_on {
        sched::point(&point_name(&s, op));
    }
    flush_inv();
}

fn hook_after(op: &Op) {
    with_local(|l| {
        if !l.ctx.steps {
            return;
        }
        let s = site(l, op);
        let wr = op.written.map(|x| x as i64).unwrap_or(-1);
        l.ctx.push(json!({
            "ev":"step","p":l.p,"loc":s.loc,"w":s.w,"op":kind_name(op.kind),
            "ord":ord_name(op.order),"ord2":op.failure_order.map(ord_name).unwrap_or(""),
            "arg":op.operand as i64,"exp":op.expected.map(|x| x as i64).unwrap_or(-1),
            "obs":op.observed as i64,"wr":wr,"sp":s.sp,"line":op.line,
            "file":op.file.rsplit('/').next().unwrap_or("")
        }));
    });
}

fn hook_blocked(_op: &Op) {
    let sched_on = with_local(|l| l.sched).unwrap_or(false);
    if sched_on && sched::in_task() {
        // yield exactly once as Blocked: the scheduler resumes us after another task has made progress
        let mut first = true;
        sched::block_until("mutex", || {
            let r = !first;
            first = false;
            r
        });
    }
}

pub fn install_hooks() {
    let _ = events::verif::install(Hooks { before: hook_before, after: hook_after, blocked: hook_blocked });
}

// ------------------------------------------------------------------------------------------------- counting wakers

pub struct WakerData {
    pub w: i64,
    pub k: i64,
    /// called on wake (local drivers run re-entrant scripts here)
    pub on_wake: Option<fn(i64, i64)>,
}

fn record_wake(d: &WakerData) {
    flush_inv();
    with_local(|l| {
        l.ctx.push(json!({"ev":"wake","p":l.p,"w":d.w,"k":d.k}));
    });
    if let Some(f) = d.on_wake {
        f(d.w, d.k);
    }
}

unsafe fn vt_clone(p: *const ()) -> RawWaker {
    unsafe { Arc::increment_strong_count(p as *const WakerData) };
    RawWaker::new(p, &VTABLE)
}
unsafe fn vt_wake(p: *const ()) {
    let a = unsafe { Arc::from_raw(p as *const WakerData) };
    record_wake(&a);
}
unsafe fn vt_wake_by_ref(p: *const ()) {
    let d = unsafe { &*(p as *const WakerData) };
    record_wake(d);
}
unsafe fn vt_drop(p: *const ()) {
    drop(unsafe { Arc::from_raw(p as *const WakerData) });
}
static VTABLE: RawWakerVTable = RawWakerVTable::new(vt_clone, vt_wake, vt_wake_by_ref, vt_drop);

pub fn make_waker(w: i64, k: i64, on_wake: Option<fn(i64, i64)>) -> Waker {
    if SHARED_DATA.load(std::sync::atomic::Ordering::Relaxed) && (0..8).contains(&k) {
        return make_shared_waker(w, k, on_wake);
    }
    let a = Arc::new(WakerData { w, k, on_wake });
    unsafe { Waker::from_raw(RawWaker::new(Arc::into_raw(a) as *const (), &VTABLE)) }
}

// ---- wakers that share their DATA POINTER across the polls of one wait and differ in their VTABLE only (an index-style or
// data-less waker of a hand-written executor): `will_wake` between two of them is false, a comparison of data pointers is not.
// The poll number k lives in the vtable (one monomorphised set of functions per k), the wait id in the shared, leaked data.

/// H_RESET_WAKERS=shared switches every driver to these wakers.
pub static SHARED_DATA: std::sync::atomic::AtomicBool = std::sync::atomic::AtomicBool::new(false);

struct WaitData {
    w: i64,
    on_wake: Option<fn(i64, i64)>,
}

thread_local! {
    static WAITS: std::cell::RefCell<std::collections::HashMap<i64, &'static WaitData>> = std::cell::RefCell::new(std::collections::HashMap::new());
}

fn shared_record<const K: i64>(p: *const ()) {
    // SAFETY: p is a leaked WaitData
    let d = unsafe { &*(p as *const WaitData) };
    record_wake(&WakerData { w: d.w, k: K, on_wake: d.on_wake });
}
unsafe fn sh_clone<const K: i64>(p: *const ()) -> RawWaker {
    RawWaker::new(p, shared_vtable(K))
}
unsafe fn sh_wake<const K: i64>(p: *const ()) {
    shared_record::<K>(p);
}
unsafe fn sh_drop(_p: *const ()) {}

macro_rules! sh_vt {
    ($k:literal) => {
        RawWakerVTable::new(sh_clone::<$k>, sh_wake::<$k>, sh_wake::<$k>, sh_drop)
    };
}
static SH_VTABLES: [RawWakerVTable; 8] = [sh_vt!(0), sh_vt!(1), sh_vt!(2), sh_vt!(3), sh_vt!(4), sh_vt!(5), sh_vt!(6), sh_vt!(7)];
fn shared_vtable(k: i64) -> &'static RawWakerVTable {
    &SH_VTABLES[k as usize]
}

fn make_shared_waker(w: i64, k: i64, on_wake: Option<fn(i64, i64)>) -> Waker {
    let d: &'static WaitData = WAITS.with(|m| *m.borrow_mut().entry(w).or_insert_with(|| Box::leak(Box::new(WaitData { w, on_wake }))));
    // SAFETY: leaked data, vtable functions never free it
    unsafe { Waker::from_raw(RawWaker::new(std::ptr::from_ref(d).cast(), shared_vtable(k))) }
}
