//! AwaiterSet on its own, through its public API (single-threaded, no scheduler).
//!
//! Stimulus: {"id":n,"nodes":3,"ops":[{"op":"register|unregister|notify_one|advance|notify_prior|take","n":node},..]}
//! (the histories TLC's edge cover of spec/reset/AwaiterSet.tla produced, or seeded random ones).  Which awaiter
//! notify_one() picks is up to the real code (head or tail by address in debug builds), so operations whose unsafe
//! preconditions do not hold in the REAL state are skipped (and counted): register on a NOTIFIED awaiter, unregister
//! on an IDLE one.
//! Trace: {"ev":"reset","nodes":n} then per executed operation
//!   {"op":..,"n":node,"k":waker registered,"r":waker returned (0 = None) | take result 0/1,
//!    "empty":bool,"reg":[nodes with is_registered()],"notif":[nodes with is_notified()]}
use std::pin::Pin;
use std::sync::{Arc, Mutex};

use awaiter_set::{Awaiter, AwaiterSet};
use vrt::{json, Rng, Tracer, Value};

use crate::rt::{self, RunCtx};

thread_local! {
    static LAST_WOKEN: std::cell::Cell<i64> = const { std::cell::Cell::new(0) };
}
fn on_wake(_w: i64, k: i64) {
    LAST_WOKEN.with(|c| c.set(k));
}

fn run_history(tr: &Tracer, nodes: usize, ops: &[(String, usize)], id: &Value) -> (usize, usize) {
    let ctx = RunCtx::new(false);
    rt::enter(&ctx, 1, false);
    let mut set = AwaiterSet::new();
    // pinned on the heap, never moved, freed only after the set is gone
    let mut aw: Vec<Pin<Box<Awaiter>>> = (0..nodes).map(|_| Box::pin(Awaiter::new())).collect();
    // our own view of the lifecycle, for the preconditions only (from the public API)
    let mut waiting = vec![false; nodes];
    let mut nw: i64 = 0;
    let mut done = 0usize;
    let mut skipped = 0usize;
    tr.emit(&json!({"ev":"reset","nodes":nodes,"id":id}));
    let panicked = Arc::new(Mutex::new(None::<String>));
    for (op, n1) in ops {
        let n = n1.saturating_sub(1).min(nodes.saturating_sub(1));
        let mut rec = json!({"op":op,"n":n + 1,"k":0,"r":0});
        let res = vrt::catch(std::panic::AssertUnwindSafe(|| -> bool {
            match op.as_str() {
                "register" => {
                    if aw[n].is_notified() {
                        return false;
                    }
                    nw += 1;
                    rec["k"] = json!(nw);
                    let wk = rt::make_waker(n as i64 + 1, nw, Some(on_wake));
                    unsafe { set.register(aw[n].as_mut(), wk) };
                    waiting[n] = true;
                }
                "unregister" => {
                    if !aw[n].is_registered() {
                        return false;
                    }
                    unsafe { set.unregister(aw[n].as_mut()) };
                    waiting[n] = false;
                }
                "notify_one" | "notify_prior" => {
                    let w = if op == "notify_one" { set.notify_one() } else { set.notify_one_prior_generation() };
                    let r = match w {
                        Some(w) => {
                            LAST_WOKEN.with(|c| c.set(0));
                            w.wake();
                            LAST_WOKEN.with(|c| c.get())
                        }
                        None => 0,
                    };
                    rec["r"] = json!(r);
                }
                "advance" => set.advance_generation(),
                "take" => {
                    if waiting[n] && !aw[n].is_notified() {
                        // still in the set: take_notification() is legal and returns false
                    }
                    let b = aw[n].as_ref().take_notification();
                    rec["r"] = json!(if b { 1 } else { 0 });
                }
                _ => return false,
            }
            true
        }));
        match res {
            Ok(true) => {}
            Ok(false) => {
                skipped += 1;
                continue;
            }
            Err(m) => {
                *panicked.lock().unwrap() = Some(m.clone());
                rec["panic"] = json!(m);
            }
        }
        let reg: Vec<usize> = (0..nodes).filter(|i| aw[*i].is_registered()).map(|i| i + 1).collect();
        let notif: Vec<usize> = (0..nodes).filter(|i| aw[*i].is_notified()).map(|i| i + 1).collect();
        for i in 0..nodes {
            if !aw[i].is_registered() || aw[i].is_notified() {
                waiting[i] = false;
            }
        }
        rec["empty"] = json!(set.is_empty());
        rec["reg"] = json!(reg);
        rec["notif"] = json!(notif);
        tr.emit(&rec);
        done += 1;
        if panicked.lock().unwrap().is_some() {
            break;
        }
    }
    rt::leave();
    // the set first, then the awaiters (a corrupted set may still point at them)
    drop(set);
    std::mem::forget(aw);
    (done, skipped)
}

pub fn run(stimuli: &str, out: &str) {
    let tr = Tracer::create(out);
    let (mut d, mut s) = (0, 0);
    for st in vrt::read_ndjson(stimuli) {
        let nodes = st["nodes"].as_u64().unwrap_or(3) as usize;
        let ops: Vec<(String, usize)> = st["ops"].as_array().map(|a| {
            a.iter().map(|o| (o["op"].as_str().unwrap_or("").to_string(), o["n"].as_u64().unwrap_or(1) as usize)).collect()
        }).unwrap_or_default();
        let (a, b) = run_history(&tr, nodes, &ops, &st["id"]);
        d += a;
        s += b;
    }
    tr.flush();
    println!("{}", json!({"executed":d,"skipped":s}));
}

/// Seeded random histories: `count` histories of `len` operations over `nodes` awaiters.
pub fn random(out: &str, count: usize, len: usize, nodes: usize) {
    let tr = Tracer::create(out);
    let mut rng = Rng::new(vrt::seed_from_env() ^ 0xA5E7);
    let names = ["register", "register", "unregister", "notify_one", "notify_prior", "advance", "take"];
    let (mut d, mut s) = (0, 0);
    for i in 0..count {
        let ops: Vec<(String, usize)> =
            (0..len).map(|_| (rng.pick(&names).to_string(), rng.below(nodes as u64) as usize + 1)).collect();
        let (a, b) = run_history(&tr, nodes, &ops, &json!(i));
        d += a;
        s += b;
    }
    tr.flush();
    println!("{}", json!({"executed":d,"skipped":s}));
}
