//! Harness for C08: runs the real reset events of `events` (and the awaiter set of `awaiter_set`) on stimuli produced
//! by TLC or by seeded generators and records what happened as ndjson for TLC to judge.
use std::env;

mod awset;
mod local;
mod rt;
mod threaded;

fn main() {
    if std::env::var("H_RESET_WAKERS").map(|v| v == "shared").unwrap_or(false) {
        rt::SHARED_DATA.store(true, std::sync::atomic::Ordering::Relaxed);
    }
    vrt::quiet_panics();
    let args: Vec<String> = env::args().collect();
    match args.get(1).map(String::as_str) {
        Some("threads") => threaded::run(&args[2], &args[3]),
        Some("local") => local::run(&args[2], &args[3]),
        Some("awset") => awset::run(&args[2], &args[3]),
        Some("awset-random") => awset::random(&args[2], args[3].parse().unwrap(), args[4].parse().unwrap(), args[5].parse().unwrap()),
        _ => {
            eprintln!("usage: h_reset <threads|local|awset> <stimuli.ndjson> <out.ndjson>");
            std::process::exit(2);
        }
    }
}
