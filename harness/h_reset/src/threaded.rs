//! Thread-safe variants (AutoResetEvent / ManualResetEvent, boxed and embedded) under the deterministic scheduler.
//!
//! Stimulus (one JSON object per line):
//!   {"id":n,"kind":"auto|manual","storage":"boxed|embedded","progs":[["set","poll","drop",..],..],
//!    "strategy":"script|random|pct","sched":[[task,"op-name"],..],"seed":n,"steps":bool}
//! Each task owns one wait future at a time (wait id = task index + 1; waker id = number of the poll).
//! After all tasks have finished, the finale (process ntasks + 1, no scheduler) probes the quiescent state: every
//! wait still alive is polled once more if it is pending, then dropped; then try_wait.  These operations are part of
//! the recorded history, so "no signal lost at quiescence" is judged by the same monitor.
use std::future::Future;
use std::pin::Pin;
use std::sync::{Arc, Mutex};
use std::task::{Context, Poll};

use events::{AutoResetEvent, EmbeddedAutoResetEvent, EmbeddedManualResetEvent, ManualResetEvent};
use vrt::sched::{Exec, Outcome, Strategy};
use vrt::{json, Tracer, Value};

use crate::rt::{self, RunCtx};

type Fut = Pin<Box<dyn Future<Output = ()> + Send>>;

/// Bytes reserved per wait future in the arena (the futures are an Arc / pointer plus an Awaiter).
const SLOT: usize = 256;

/// The wait futures live in one arena, at positions chosen by the stimulus: AwaiterSet::notify_one picks head or tail
/// by comparing their ADDRESSES in debug builds, so the layout is part of the schedule (a TLC behaviour that notifies
/// "the tail" is only replayable if the tail awaiter has the higher address).
pub struct Arena {
    buf: Vec<u128>,
}
impl Arena {
    fn new(slots: usize) -> Self {
        Self { buf: vec![0u128; slots * SLOT / 16] }
    }
    fn slot(&self, i: usize) -> *mut u8 {
        unsafe { self.buf.as_ptr().cast::<u8>().cast_mut().add(i * SLOT) }
    }
}

/// A future stored in an arena slot; the box only holds the pointer.
struct InPlace<F> {
    ptr: *mut F,
}
unsafe impl<F: Send> Send for InPlace<F> {}
impl<F: Future<Output = ()>> Future for InPlace<F> {
    type Output = ();
    fn poll(self: Pin<&mut Self>, cx: &mut Context<'_>) -> Poll<()> {
        // SAFETY: the slot is never moved or reused while this box lives
        let ptr = self.ptr;
        unsafe { Pin::new_unchecked(&mut *ptr) }.poll(cx)
    }
}
impl<F> Drop for InPlace<F> {
    fn drop(&mut self) {
        unsafe { std::ptr::drop_in_place(self.ptr) }
    }
}

/// (future, start address, length) with the real future placed at `slot`
fn place<F: Future<Output = ()> + Send + 'static>(slot: *mut u8, f: F) -> (Fut, usize, usize) {
    assert!(std::mem::size_of::<F>() <= SLOT && std::mem::align_of::<F>() <= 16);
    let ptr = slot.cast::<F>();
    unsafe { ptr.write(f) };
    (Box::pin(InPlace { ptr }), slot as usize, std::mem::size_of::<F>())
}

pub trait Ev: Send + Sync {
    fn set(&self);
    fn reset(&self);
    fn try_wait(&self) -> bool;
    fn wait(&self, slot: *mut u8) -> (Fut, usize, usize);
}

impl Ev for AutoResetEvent {
    fn set(&self) { AutoResetEvent::set(self) }
    fn reset(&self) {}
    fn try_wait(&self) -> bool { AutoResetEvent::try_wait(self) }
    fn wait(&self, slot: *mut u8) -> (Fut, usize, usize) { place(slot, AutoResetEvent::wait(self)) }
}
impl Ev for ManualResetEvent {
    fn set(&self) { ManualResetEvent::set(self) }
    fn reset(&self) { ManualResetEvent::reset(self) }
    fn try_wait(&self) -> bool { ManualResetEvent::try_wait(self) }
    fn wait(&self, slot: *mut u8) -> (Fut, usize, usize) { place(slot, ManualResetEvent::wait(self)) }
}

/// Embedded variants: the container is pinned on the heap and kept alive by the Arc for as long as any handle or
/// future may exist (the Arc is dropped last).
struct EmbAuto { place: Pin<Box<EmbeddedAutoResetEvent>> }
struct EmbManual { place: Pin<Box<EmbeddedManualResetEvent>> }
impl Ev for EmbAuto {
    fn set(&self) { unsafe { AutoResetEvent::embedded(self.place.as_ref()) }.set() }
    fn reset(&self) {}
    fn try_wait(&self) -> bool { unsafe { AutoResetEvent::embedded(self.place.as_ref()) }.try_wait() }
    fn wait(&self, slot: *mut u8) -> (Fut, usize, usize) { place(slot, unsafe { AutoResetEvent::embedded(self.place.as_ref()) }.wait()) }
}
impl Ev for EmbManual {
    fn set(&self) { unsafe { ManualResetEvent::embedded(self.place.as_ref()) }.set() }
    fn reset(&self) { unsafe { ManualResetEvent::embedded(self.place.as_ref()) }.reset() }
    fn try_wait(&self) -> bool { unsafe { ManualResetEvent::embedded(self.place.as_ref()) }.try_wait() }
    fn wait(&self, slot: *mut u8) -> (Fut, usize, usize) { place(slot, unsafe { ManualResetEvent::embedded(self.place.as_ref()) }.wait()) }
}

pub fn make_event(kind: &str, storage: &str) -> Arc<dyn Ev> {
    match (kind, storage) {
        ("auto", "boxed") => Arc::new(AutoResetEvent::boxed()),
        ("manual", "boxed") => Arc::new(ManualResetEvent::boxed()),
        ("auto", _) => Arc::new(EmbAuto { place: Box::pin(EmbeddedAutoResetEvent::new()) }),
        (_, _) => Arc::new(EmbManual { place: Box::pin(EmbeddedManualResetEvent::new()) }),
    }
}

/// One wait slot of a task: the live future (if any), whether it completed, polls so far.
pub struct Slot {
    fut: Option<Fut>,
    start: usize,
    ready: bool,
    polls: i64,
    /// where this task's wait futures are placed
    place: *mut u8,
}
unsafe impl Send for Slot {}
impl Slot {
    fn new(place: *mut u8) -> Self {
        Self { fut: None, start: 0, ready: false, polls: 0, place }
    }
}

/// Executes one call on behalf of the current process; returns false if the call is not applicable (skipped).
fn exec_op(ev: &Arc<dyn Ev>, ctx: &Arc<RunCtx>, slot: &mut Slot, w: i64, op: &str) -> bool {
    match op {
        "set" => {
            rt::begin_op("set", 0, 0);
            let r = vrt::catch(|| ev.set());
            rt::end_op(if r.is_ok() { "ok" } else { "panic" });
        }
        "reset" => {
            rt::begin_op("reset", 0, 0);
            let r = vrt::catch(|| ev.reset());
            rt::end_op(if r.is_ok() { "ok" } else { "panic" });
        }
        "try" => {
            rt::begin_op("try", 0, 0);
            let r = vrt::catch(|| ev.try_wait());
            rt::end_op(match r { Ok(true) => "true", Ok(false) => "false", Err(_) => "panic" });
        }
        "poll" => {
            if slot.ready {
                return false; // a completed future must not be polled again
            }
            if slot.fut.is_none() {
                let (f, s, l) = ev.wait(slot.place);
                ctx.add_wait(s, l, w);
                slot.start = s;
                slot.fut = Some(f);
            }
            slot.polls += 1;
            let k = slot.polls;
            rt::begin_op("poll", w, k);
            let waker = rt::make_waker(w, k, None);
            let fut = slot.fut.as_mut().unwrap();
            let r = vrt::catch(|| {
                let mut cx = Context::from_waker(&waker);
                fut.as_mut().poll(&mut cx)
            });
            drop(waker);
            match r {
                Ok(Poll::Ready(())) => { slot.ready = true; rt::end_op("ready") }
                Ok(Poll::Pending) => rt::end_op("pending"),
                Err(_) => rt::end_op("panic"),
            }
        }
        "drop" => {
            let Some(f) = slot.fut.take() else { return false };
            let s = slot.start;
            rt::begin_op("drop", w, 0);
            let r = vrt::catch(move || drop(f));
            ctx.remove_wait(s);
            slot.ready = false;
            rt::end_op(if r.is_ok() { "ok" } else { "panic" });
        }
        _ => return false,
    }
    true
}

fn run_one(st: &Value) -> Vec<Value> {
    let kind = st["kind"].as_str().unwrap_or("auto").to_string();
    let storage = st["storage"].as_str().unwrap_or("boxed").to_string();
    let seed = st["seed"].as_u64().unwrap_or(1);
    let steps = st["steps"].as_bool().unwrap_or(true);
    let progs: Vec<Vec<String>> = st["progs"].as_array().map(|a| {
        a.iter().map(|p| p.as_array().map(|o| o.iter().map(|x| x.as_str().unwrap_or("").to_string()).collect()).unwrap_or_default()).collect()
    }).unwrap_or_default();
    let n = progs.len();
    let strategy = match st["strategy"].as_str().unwrap_or("random") {
        "script" => {
            let mut sc: Vec<(usize, String)> = (0..n).map(|t| (t, "start".to_string())).collect();
            for e in st["sched"].as_array().cloned().unwrap_or_default() {
                sc.push((e[0].as_u64().unwrap_or(0) as usize, e[1].as_str().unwrap_or("").to_string()));
            }
            Strategy::Script(sc)
        }
        "pct" => Strategy::Pct { changes: st["changes"].as_u64().unwrap_or(2) as usize },
        _ => Strategy::Random,
    };
    let ctx = RunCtx::new(steps);
    let ev = make_event(&kind, &storage);
    // layout: "order" lists the wait ids from the lowest to the highest address
    let arena = Arc::new(Arena::new(n + 1));
    let mut rank: Vec<usize> = (0..n).collect();
    if let Some(o) = st["order"].as_array() {
        let ord: Vec<usize> = o.iter().filter_map(|x| x.as_u64()).map(|x| x as usize).filter(|x| *x >= 1 && *x <= n).collect();
        let mut seen = vec![false; n];
        let mut pos = 0;
        for w in ord {
            if !seen[w - 1] {
                seen[w - 1] = true;
                rank[w - 1] = pos;
                pos += 1;
            }
        }
        for w in 0..n {
            if !seen[w] {
                rank[w] = pos;
                pos += 1;
            }
        }
    }
    let slots: Vec<Arc<Mutex<Slot>>> = (0..n).map(|t| Arc::new(Mutex::new(Slot::new(arena.slot(rank[t]))))).collect();
    let mut ex = Exec::new(strategy, seed);
    ex.max_steps = 5_000;
    for (t, prog) in progs.iter().enumerate() {
        let ev = Arc::clone(&ev);
        let ctx = Arc::clone(&ctx);
        let slot = Arc::clone(&slots[t]);
        let prog = prog.clone();
        ex.spawn(&format!("t{}", t + 1), move || {
            let p = t as i64 + 1;
            rt::enter(&ctx, p, true);
            {
                let mut slot = slot.lock().unwrap_or_else(|e| e.into_inner());
                for op in &prog {
                    exec_op(&ev, &ctx, &mut slot, p, op);
                }
            }
            rt::leave();
        });
    }
    let rep = ex.run();
    let mut out = vec![json!({"ev":"reset","kind":kind,"storage":storage,"id":st["id"],"n":n})];
    let completed = matches!(rep.outcome, Outcome::Completed);
    if completed {
        // finale on this thread: no scheduling points, same log
        let p = n as i64 + 1;
        rt::enter(&ctx, p, false);
        for (t, s) in slots.iter().enumerate() {
            let mut slot = s.lock().unwrap_or_else(|e| e.into_inner());
            if slot.fut.is_some() {
                if !slot.ready {
                    exec_op(&ev, &ctx, &mut slot, t as i64 + 1, "poll");
                }
                exec_op(&ev, &ctx, &mut slot, t as i64 + 1, "drop");
            }
        }
        let mut dummy = Slot::new(arena.slot(n));
        exec_op(&ev, &ctx, &mut dummy, 0, "try");
        rt::leave();
    }
    let fin_from = ctx.log.lock().unwrap().iter().position(|r| r["p"].as_i64() == Some(n as i64 + 1));
    let mut log = ctx.take_log();
    if let Some(i) = fin_from {
        log.insert(i, json!({"ev":"finale"}));
    }
    out.append(&mut log);
    let outcome = match &rep.outcome {
        Outcome::Completed => "completed".to_string(),
        Outcome::Deadlock(v) => format!("deadlock {:?}", v),
        Outcome::StepLimit => "steplimit".to_string(),
        Outcome::Stuck(t) => format!("stuck {}", t),
    };
    let drift_at: Vec<Value> = rep.log.iter().filter(|r| r["ev"] == "drift").cloned().collect();
    let sched: Vec<Value> = rep.steps.iter().map(|s| json!([s.task, s.op])).collect();
    let panics: Vec<Value> = rep.panics.iter().map(|p| json!(p)).collect();
    out.push(json!({"ev":"end","outcome":outcome.split(' ').next().unwrap_or(""),"detail":outcome,"drift":rep.drift,
                    "drift_at":drift_at,"nsteps":rep.steps.len(),"sched":sched,"panics":panics,"id":st["id"]}));
    if !completed {
        // stuck threads are leaked together with the event and the futures they own
        std::mem::forget(slots);
        std::mem::forget(ev);
        std::mem::forget(Arc::clone(&arena));
    }
    out
}

pub fn run(stimuli: &str, out: &str) {
    rt::install_hooks();
    let tr = Tracer::create(out);
    for st in vrt::read_ndjson(stimuli) {
        for r in run_one(&st) {
            tr.emit(&r);
        }
    }
    tr.flush();
}
