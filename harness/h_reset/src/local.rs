//! Single-threaded variants (LocalAutoResetEvent / LocalManualResetEvent, boxed and embedded): sequential programs
//! whose wakers RE-ENTER the event.  No scheduler; the "process" of an operation is its re-entrancy depth (1 = top
//! level, d + 1 = issued from inside a waker invoked by an operation of process d), exactly as in
//! spec/reset/LocalResetImpl.tla, whose behaviours are the stimuli:
//!   {"id":n,"kind":"auto|manual","storage":"boxed|embedded","nw":slots,
//!    "acts":[{"e":"op|opw|wake|cbret|ret","p":depth,"op":"set|reset|try|poll|drop","w":slot},..]}
//! "op"/"opw" entries are calls; a waker callback running at depth d executes the calls of depth d that follow in the
//! list, up to the matching "cbret".  The real code may invoke a different waker than the model did (head or tail by
//! address): the script is then followed as far as it applies (calls whose preconditions do not hold are skipped and
//! counted as drift); the recorded history is judged whatever happened.
use std::cell::RefCell;
use std::future::Future;
use std::pin::Pin;
use std::rc::Rc;
use std::task::{Context, Poll};

use events::{
    EmbeddedLocalAutoResetEvent, EmbeddedLocalManualResetEvent, LocalAutoResetEvent, LocalManualResetEvent,
};
use vrt::{json, Tracer, Value};

use crate::rt::{self, RunCtx};

type LFut = Pin<Box<dyn Future<Output = ()>>>;

trait LEv {
    fn set(&self);
    fn reset(&self);
    fn try_wait(&self) -> bool;
    fn wait(&self) -> LFut;
}
impl LEv for LocalAutoResetEvent {
    fn set(&self) { LocalAutoResetEvent::set(self) }
    fn reset(&self) {}
    fn try_wait(&self) -> bool { LocalAutoResetEvent::try_wait(self) }
    fn wait(&self) -> LFut { Box::pin(LocalAutoResetEvent::wait(self)) }
}
impl LEv for LocalManualResetEvent {
    fn set(&self) { LocalManualResetEvent::set(self) }
    fn reset(&self) { LocalManualResetEvent::reset(self) }
    fn try_wait(&self) -> bool { LocalManualResetEvent::try_wait(self) }
    fn wait(&self) -> LFut { Box::pin(LocalManualResetEvent::wait(self)) }
}
struct EmbLA { place: Pin<Box<EmbeddedLocalAutoResetEvent>> }
struct EmbLM { place: Pin<Box<EmbeddedLocalManualResetEvent>> }
impl LEv for EmbLA {
    fn set(&self) { unsafe { LocalAutoResetEvent::embedded(self.place.as_ref()) }.set() }
    fn reset(&self) {}
    fn try_wait(&self) -> bool { unsafe { LocalAutoResetEvent::embedded(self.place.as_ref()) }.try_wait() }
    fn wait(&self) -> LFut { Box::pin(unsafe { LocalAutoResetEvent::embedded(self.place.as_ref()) }.wait()) }
}
impl LEv for EmbLM {
    fn set(&self) { unsafe { LocalManualResetEvent::embedded(self.place.as_ref()) }.set() }
    fn reset(&self) { unsafe { LocalManualResetEvent::embedded(self.place.as_ref()) }.reset() }
    fn try_wait(&self) -> bool { unsafe { LocalManualResetEvent::embedded(self.place.as_ref()) }.try_wait() }
    fn wait(&self) -> LFut { Box::pin(unsafe { LocalManualResetEvent::embedded(self.place.as_ref()) }.wait()) }
}

#[derive(Default)]
struct LSlot {
    fut: Option<LFut>,
    /// the future is currently inside poll() or drop(): nested calls must not touch it
    busy: bool,
    exists: bool,
    ready: bool,
    polls: i64,
}

#[derive(Clone)]
struct Act {
    e: String,
    p: i64,
    op: String,
    w: usize,
}

struct Driver {
    ev: Rc<dyn LEv>,
    manual: bool,
    slots: Vec<LSlot>,
    acts: Vec<Act>,
    cur: usize,
    depth: i64,
    drift: usize,
}

thread_local! {
    static DRV: RefCell<Option<Driver>> = const { RefCell::new(None) };
}

fn with_drv<R>(f: impl FnOnce(&mut Driver) -> R) -> R {
    DRV.with(|d| f(d.borrow_mut().as_mut().expect("driver installed")))
}

/// One call at the current depth.  Never holds the driver borrowed while the event runs (wakers re-enter).
fn exec(op: &str, w: usize) -> bool {
    let ev = with_drv(|d| Rc::clone(&d.ev));
    let manual = with_drv(|d| d.manual);
    match op {
        "set" => {
            rt::begin_op_now("set", 0, 0);
            let r = vrt::catch(|| ev.set());
            rt::end_op(if r.is_ok() { "ok" } else { "panic" });
        }
        "reset" => {
            if !manual {
                return false;
            }
            rt::begin_op_now("reset", 0, 0);
            let r = vrt::catch(|| ev.reset());
            rt::end_op(if r.is_ok() { "ok" } else { "panic" });
        }
        "try" => {
            rt::begin_op_now("try", 0, 0);
            let r = vrt::catch(|| ev.try_wait());
            rt::end_op(match r { Ok(true) => "true", Ok(false) => "false", Err(_) => "panic" });
        }
        "poll" => {
            let ok = with_drv(|d| w < d.slots.len() && !d.slots[w].busy && !d.slots[w].ready);
            if !ok {
                return false;
            }
            let (mut fut, k) = with_drv(|d| {
                let s = &mut d.slots[w];
                if !s.exists {
                    s.fut = Some(ev.wait());
                    s.exists = true;
                }
                s.polls += 1;
                s.busy = true;
                (s.fut.take().unwrap(), s.polls)
            });
            let wid = w as i64 + 1;
            rt::begin_op_now("poll", wid, k);
            let waker = rt::make_waker(wid, k, Some(on_wake));
            let r = vrt::catch(|| {
                let mut cx = Context::from_waker(&waker);
                fut.as_mut().poll(&mut cx)
            });
            drop(waker);
            with_drv(|d| {
                let s = &mut d.slots[w];
                s.fut = Some(fut);
                s.busy = false;
                if matches!(r, Ok(Poll::Ready(()))) {
                    s.ready = true;
                }
            });
            rt::end_op(match r { Ok(Poll::Ready(())) => "ready", Ok(Poll::Pending) => "pending", Err(_) => "panic" });
        }
        "drop" => {
            let ok = with_drv(|d| w < d.slots.len() && !d.slots[w].busy && d.slots[w].exists);
            if !ok {
                return false;
            }
            let fut = with_drv(|d| {
                let s = &mut d.slots[w];
                s.busy = true;
                s.fut.take().unwrap()
            });
            rt::begin_op_now("drop", w as i64 + 1, 0);
            let r = vrt::catch(move || drop(fut));
            with_drv(|d| {
                let s = &mut d.slots[w];
                s.busy = false;
                s.exists = false;
                s.ready = false;
            });
            rt::end_op(if r.is_ok() { "ok" } else { "panic" });
        }
        _ => return false,
    }
    true
}

/// A waker of this driver was invoked (by an operation running at the current depth): run the callback script.
fn on_wake(_w: i64, _k: i64) {
    let d = with_drv(|d| {
        d.depth += 1;
        // a drain-loop wake marker of the operation that woke us
        if let Some(a) = d.acts.get(d.cur) {
            if a.e == "wake" && a.p == d.depth - 1 {
                d.cur += 1;
            }
        }
        d.depth
    });
    rt::set_p(d);
    loop {
        let next = with_drv(|dr| dr.acts.get(dr.cur).cloned());
        let Some(a) = next else { break };
        if a.e == "cbret" && a.p == d {
            with_drv(|dr| dr.cur += 1);
            break;
        }
        if a.p < d {
            break; // belongs to an outer level: the model's callback ended without us seeing its cbret
        }
        with_drv(|dr| dr.cur += 1);
        if (a.e == "op" || a.e == "opw") && a.p == d {
            if !exec(&a.op, a.w) {
                with_drv(|dr| dr.drift += 1);
            }
            rt::set_p(d);
        }
    }
    with_drv(|dr| dr.depth -= 1);
    rt::set_p(d - 1);
}

fn run_one(st: &Value) -> Vec<Value> {
    let kind = st["kind"].as_str().unwrap_or("auto").to_string();
    let storage = st["storage"].as_str().unwrap_or("boxed").to_string();
    let nw = st["nw"].as_u64().unwrap_or(2) as usize;
    let acts: Vec<Act> = st["acts"].as_array().map(|a| {
        a.iter().map(|x| Act {
            e: x["e"].as_str().unwrap_or("").to_string(),
            p: x["p"].as_i64().unwrap_or(0),
            op: x["op"].as_str().unwrap_or("").to_string(),
            w: (x["w"].as_u64().unwrap_or(1).max(1) - 1) as usize,
        }).collect()
    }).unwrap_or_default();
    let ev: Rc<dyn LEv> = match (kind.as_str(), storage.as_str()) {
        ("auto", "boxed") => Rc::new(LocalAutoResetEvent::boxed()),
        ("manual", "boxed") => Rc::new(LocalManualResetEvent::boxed()),
        ("auto", _) => Rc::new(EmbLA { place: Box::pin(EmbeddedLocalAutoResetEvent::new()) }),
        (_, _) => Rc::new(EmbLM { place: Box::pin(EmbeddedLocalManualResetEvent::new()) }),
    };
    let ctx = RunCtx::new(false);
    rt::enter(&ctx, 1, false);
    DRV.with(|d| {
        *d.borrow_mut() = Some(Driver {
            ev, manual: kind == "manual", slots: (0..nw).map(|_| LSlot::default()).collect(), acts, cur: 0, depth: 1, drift: 0,
        })
    });
    // top level
    loop {
        let next = with_drv(|d| d.acts.get(d.cur).cloned());
        let Some(a) = next else { break };
        with_drv(|d| d.cur += 1);
        if (a.e == "op" || a.e == "opw") && a.p == 1 {
            if !exec(&a.op, a.w) {
                with_drv(|d| d.drift += 1);
            }
            rt::set_p(1);
        } else if a.e == "op" || a.e == "opw" {
            with_drv(|d| d.drift += 1); // a nested call the real run never reached
        }
    }
    // finale: quiescent probes (the script is exhausted, so wakers invoked now do nothing)
    ctx.push(json!({"ev":"finale"}));
    for w in 0..nw {
        let (exists, ready) = with_drv(|d| (d.slots[w].exists, d.slots[w].ready));
        if exists {
            if !ready {
                exec("poll", w);
            }
            exec("drop", w);
        }
    }
    exec("try", 0);
    let drift = with_drv(|d| d.drift);
    DRV.with(|d| *d.borrow_mut() = None);
    rt::leave();
    let mut out = vec![json!({"ev":"reset","kind":kind,"storage":storage,"id":st["id"],"local":true})];
    out.append(&mut ctx.take_log());
    out.push(json!({"ev":"end","outcome":"completed","drift":drift,"id":st["id"]}));
    out
}

pub fn run(stimuli: &str, out: &str) {
    rt::install_hooks();
    let tr = Tracer::create(out);
    for st in vrt::read_ndjson(stimuli) {
        for r in run_one(&st) {
            tr.emit(&r);
        }
    }
    tr.flush();
}
