//! Harness for C13 (region values).  Runs programs of reads and writes on the real `region_cached` / `region_local`
//! crates over fake hardware (many_cpus test-util) with 1..8 memory regions, under the deterministic scheduler through
//! the H6 yield points, and records an ndjson trace for TLC (Trace_Region) to judge.
//!
//!   h_region run <stimuli.ndjson> <trace.ndjson> <start-index>
//!
//! Stimulus: {"kind":"cached"|"local","id":..,"nr":N,"pin":[bool..],"progs":[[["w",g]|["r",g],..],..],
//!            "script":[[task,"op"],..]? , "seed":n?, "pct":n?}
//! A pinned task pins itself to its region before it obtains its instance (the instance then holds the regional state);
//! an unpinned task obtains its instance first and is moved by the harness to the region each operation names.
//! Values are tags: 1000 * (task + 1) + sequence number of the task's write; 0 is the initial value.
use std::time::Duration;

use many_cpus::fake::{HardwareBuilder, ProcessorBuilder};
use many_cpus::SystemHardware;
use region_cached::RegionCached;
use region_local::RegionLocal;
use vrt::sched::{self, Exec, Outcome, Strategy};
use vrt::{json, Value};

fn me() -> u32 {
    sched::task_id().map(|t| t as u32).unwrap_or(99)
}

fn point_cached(name: &'static str, index: u64) {
    if index == region_cached::verif::NO_INDEX {
        sched::point(name);
    } else {
        sched::point(&format!("{name}:{index}"));
    }
}

fn point_local(name: &'static str, index: u64) {
    if index == region_local::verif::NO_INDEX {
        sched::point(name);
    } else {
        sched::point(&format!("{name}:{index}"));
    }
}

/// The condition is false when first evaluated (the waiter saw the marker in this very step), so the task parks as
/// blocked with the wait's name as its pending operation; it is resumed only to re-evaluate.
fn hook_block(name: &'static str, ready: &dyn Fn() -> bool) {
    sched::block_until(name, || ready());
}

fn hardware(nr: u32) -> SystemHardware {
    let mut hb = HardwareBuilder::new();
    for i in 0..nr {
        hb = hb.processor(ProcessorBuilder::new().id(i).memory_region(i));
    }
    SystemHardware::fake(hb)
}

fn move_to(hw: &SystemHardware, region: u32) {
    hw.all_processors().filter(|p| p.id() == region).expect("region exists").pin_current_thread_to();
}

fn local_init() -> u64 {
    0
}

/// What a task needs from either crate.
trait Cell: Send + 'static {
    fn read(&self) -> u64;
    fn write(&self, v: u64);
}
impl Cell for RegionCached<u64> {
    fn read(&self) -> u64 {
        self.get_cached()
    }
    fn write(&self, v: u64) {
        self.set_global(v);
    }
}
impl Cell for RegionLocal<u64> {
    fn read(&self) -> u64 {
        self.get_local()
    }
    fn write(&self, v: u64) {
        self.set_local(v);
    }
}

fn run_prog<C: Cell>(hw: SystemHardware, make: impl FnOnce() -> C, pinned: bool, prog: Vec<(String, u32)>) {
    let t = me();
    if pinned {
        if let Some((_, g)) = prog.first() {
            move_to(&hw, *g);
        }
    }
    let cell = make();
    let mut nw = 0u64;
    for (k, g) in prog {
        if k == "r" {
            sched::point("op:r");
            if !pinned {
                move_to(&hw, g);
            }
            sched::emit(json!({"ev":"rb","t":t,"g":g,"pin":pinned}));
            let v = cell.read();
            sched::emit(json!({"ev":"re","t":t,"w":v / 1000,"k":v % 1000}));
        } else {
            sched::point("op:w");
            if !pinned {
                move_to(&hw, g);
            }
            nw += 1;
            sched::emit(json!({"ev":"wb","t":t,"w":t + 1,"k":nw,"g":g,"pin":pinned}));
            cell.write(1000 * u64::from(t + 1) + nw);
            sched::emit(json!({"ev":"we","t":t}));
        }
    }
}

fn strategy_of(st: &Value) -> (Strategy, bool) {
    if let Some(sc) = st.get("script").and_then(Value::as_array) {
        let v = sc.iter().map(|e| (e[0].as_u64().unwrap() as usize, e[1].as_str().unwrap().to_string())).collect();
        (Strategy::Script(v), true)
    } else if st.get("pct").and_then(Value::as_u64).is_some() {
        (Strategy::Pct { changes: st["pct"].as_u64().unwrap() as usize }, false)
    } else {
        (Strategy::Random, false)
    }
}

fn outcome_name(o: &Outcome) -> &'static str {
    match o {
        Outcome::Completed => "completed",
        Outcome::Deadlock(_) => "deadlock",
        Outcome::StepLimit => "steplimit",
        Outcome::Stuck(_) => "stuck",
    }
}

fn run_one(st: &Value, idx: usize, seed: u64) -> (Vec<Value>, bool) {
    let kind = st["kind"].as_str().unwrap().to_string();
    let nr = st["nr"].as_u64().unwrap() as u32;
    let hw = hardware(nr);
    let progs: Vec<Vec<(String, u32)>> = st["progs"]
        .as_array()
        .unwrap()
        .iter()
        .map(|p| p.as_array().unwrap().iter().map(|o| (o[0].as_str().unwrap().to_string(), o[1].as_u64().unwrap() as u32)).collect())
        .collect();
    let pins: Vec<bool> = st["pin"].as_array().unwrap().iter().map(|b| b.as_bool().unwrap()).collect();
    let (strategy, scripted) = strategy_of(st);
    let mut ex = Exec::new(strategy, seed ^ st.get("seed").and_then(Value::as_u64).unwrap_or(0));
    ex.max_steps = 50_000;
    ex.step_timeout = Duration::from_secs(10);
    let mut events = vec![json!({"ev":"reset","mode":kind,"stim":idx,"id":st.get("id").cloned().unwrap_or(json!(""))})];
    // the probe after the run: the harness thread reads every region once, with nothing else running
    let probe: Box<dyn Fn(&SystemHardware) -> Vec<Value>>;
    // "cpin": the object is CREATED by a thread that is pinned to that region (the harness thread, pinned through this
    // hardware instance for the occasion); every instance made from the family must still act on its own thread's region
    if let Some(g) = st.get("cpin").and_then(Value::as_u64) {
        move_to(&hw, g as u32);
    }
    if kind == "cached" {
        let first = RegionCached::with_hardware(0u64, hw.clone());
        for (t, prog) in progs.into_iter().enumerate() {
            let fam = linked::Object::family(&first);
            let (h, pinned) = (hw.clone(), pins[t]);
            ex.spawn(&format!("t{t}"), move || run_prog(h, move || -> RegionCached<u64> { fam.into() }, pinned, prog));
        }
        probe = Box::new(move |hw| {
            let mut v = vec![];
            for g in 0..nr {
                move_to(hw, g);
                v.push(json!({"ev":"rb","t":99,"g":g,"pin":false}));
                let inst: RegionCached<u64> = linked::Object::family(&first).into();
                let x = inst.get_cached();
                v.push(json!({"ev":"re","t":99,"w":x / 1000,"k":x % 1000}));
            }
            v
        });
    } else {
        let first = RegionLocal::with_hardware(local_init, hw.clone());
        for (t, prog) in progs.into_iter().enumerate() {
            let fam = linked::Object::family(&first);
            let (h, pinned) = (hw.clone(), pins[t]);
            ex.spawn(&format!("t{t}"), move || run_prog(h, move || -> RegionLocal<u64> { fam.into() }, pinned, prog));
        }
        probe = Box::new(move |hw| {
            let mut v = vec![];
            for g in 0..nr {
                move_to(hw, g);
                v.push(json!({"ev":"rb","t":99,"g":g,"pin":false}));
                let inst: RegionLocal<u64> = linked::Object::family(&first).into();
                let x = inst.get_local();
                v.push(json!({"ev":"re","t":99,"w":x / 1000,"k":x % 1000}));
            }
            v
        });
    }
    let rep = ex.run();
    let mut drift = rep.drift;
    for e in rep.log {
        if e.get("ev").and_then(Value::as_str) == Some("drift") {
            drift = drift.max(1);
            continue;
        }
        events.push(e);
    }
    for (t, p) in rep.panics.iter().enumerate() {
        if let Some(m) = p {
            events.push(json!({"ev":"panic","t":t,"msg":m.chars().take(160).collect::<String>()}));
        }
    }
    let completed = matches!(rep.outcome, Outcome::Completed);
    if completed {
        match vrt::catch(|| probe(&hw)) {
            Ok(v) => events.extend(v),
            Err(m) => events.push(json!({"ev":"panic","t":99,"msg":m})),
        }
    } else {
        std::mem::forget(probe);
    }
    let steps: Vec<Value> = rep.steps.iter().map(|s| json!([s.task, s.op])).collect();
    events.push(json!({"ev":"end","outcome":outcome_name(&rep.outcome),"drift":drift,"scripted":scripted,"nsteps":steps.len(),
                       "steps": if !completed || drift > 0 { Value::Array(steps) } else { json!([]) }}));
    (events, !completed)
}

fn main() {
    vrt::quiet_panics();
    let args: Vec<String> = std::env::args().collect();
    region_cached::verif::install(region_cached::verif::Hooks { point: point_cached, block_until: hook_block });
    region_local::verif::install(region_local::verif::Hooks { point: point_local, block_until: hook_block });
    match args.get(1).map(String::as_str) {
        Some("run") => {
            use std::io::Write;
            let stimuli = vrt::read_ndjson(&args[2]);
            let start: usize = args[4].parse().unwrap();
            let mut out = std::fs::OpenOptions::new().create(true).append(true).open(&args[3]).unwrap();
            let seed = vrt::seed_from_env();
            for (i, st) in stimuli.iter().enumerate().skip(start) {
                let (evs, tainted) = run_one(st, i, seed.wrapping_add(i as u64));
                let mut buf = Vec::new();
                for e in &evs {
                    serde_json::to_writer(&mut buf, e).unwrap();
                    buf.push(b'\n');
                }
                out.write_all(&buf).unwrap();
                out.flush().unwrap();
                if tainted {
                    println!("RESUME {}", i + 1);
                    std::process::exit(3);
                }
            }
            println!("DONE {}", stimuli.len());
        }
        _ => {
            eprintln!("usage: h_region run <stimuli.ndjson> <trace.ndjson> <start>");
            std::process::exit(2);
        }
    }
}
