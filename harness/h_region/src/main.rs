fn main() {}
