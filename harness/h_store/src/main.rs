//! Harness for C19: drives the real `cbh_storage::LocalStorage` (hooks on) with stimuli produced by TLC and with
//! seeded random ones, and records what happened as ndjson for `spec/store/Trace_Store.tla` to judge.
//!
//!   sched      replay TLC schedules: actors are threads parked at the `crate::verif::point`s of local.rs and resumed
//!              one file-system operation at a time; a crash step unwinds the actor at its point (files stay)
//!   random     seeded random programs and schedules of the same kind, more actors and operations
//!   crash      one child process per case (re-exec of this binary) that aborts at a named point
//!              (FOLO_VERIF_CRASH_AT); a FRESH process then inspects the store
//!   rt         payload classes round trip, sequential semantics, the failing-rename clean-up path
//!   keys       every key enumerated by TLC: validation verdict, put/get/list, walk of the real directory tree
//!
//! Nothing here decides anything: results are logged, TLC judges.
use std::cell::Cell;
use std::env;
use std::fs;
use std::path::{Path, PathBuf};
use std::process::{Command, Stdio};

use cbh_storage::{LocalStorage, Storage, StorageError, verif};
use vrt::sched::{Exec, Outcome, Strategy};
use vrt::{Rng, Tracer, Value, json};

/// The key every scenario works on: nested ("d/k.json", the default) or directly under the store root ("top.json",
/// with H_STORE_KEY=root) - temporary files of a root-level key live in the root itself.
fn key() -> &'static str {
    if root_key() { "top.json" } else { "d/k.json" }
}
fn list_prefix() -> &'static str {
    if root_key() { "" } else { "d/" }
}
fn root_key() -> bool {
    static R: std::sync::OnceLock<bool> = std::sync::OnceLock::new();
    *R.get_or_init(|| env::var("H_STORE_KEY").map(|v| v == "root").unwrap_or(false))
}
const OLD: u32 = 9;
const UNKNOWN: u32 = 99_999;
const INSPECTOR: u32 = 6;
const TEMP_PREFIX: &str = ".cbh-tmp-";

// ------------------------------------------------------------------------------------------ small helpers

thread_local! {
    static RT: std::rc::Rc<tokio::runtime::Runtime> =
        std::rc::Rc::new(tokio::runtime::Builder::new_current_thread().build().expect("tokio runtime"));
}

/// the calling thread's runtime (one per thread: every operation of an actor runs on the actor's own thread)
fn rt() -> std::rc::Rc<tokio::runtime::Runtime> {
    RT.with(std::rc::Rc::clone)
}

fn payload(obj: u32, class: &str, seed: u64) -> Vec<u8> {
    let mut rng = Rng::new(seed ^ (u64::from(obj) << 20) ^ 0xC19);
    let random = |rng: &mut Rng, n: usize| -> Vec<u8> {
        let mut v = Vec::with_capacity(n + 8);
        while v.len() < n {
            v.extend_from_slice(&rng.next().to_le_bytes());
        }
        v.truncate(n);
        v
    };
    match class {
        "empty" => vec![],
        "one" => vec![0x1f],
        // the codec's own 10-byte member header, and nothing else
        "gzmagic" => vec![0x1f, 0x8b, 0x08, 0x00, 0x00, 0x00, 0x00, 0x00, 0x00, 0xff],
        // a complete, valid stream of the codec as the payload (a double decode would change it)
        "gzfull" => cbh_codec::compress(&random(&mut rng, 100)),
        "big" => random(&mut rng, 4 << 20),
        // stored form larger than a 64 KiB file-size limit but within one write buffer of the async file (2 MiB)
        "mid" => random(&mut rng, 300 << 10),
        "huge" => random(&mut rng, 24 << 20),
        // highly compressible payloads whose length sits on / just past a multiple of the 32 KiB deflate window
        c if c.starts_with("rep") => vec![b'A' + (obj % 7) as u8; c[3..].parse().expect("repN")],
        c if c.starts_with("json") => {
            let n: usize = c[4..].parse().expect("jsonN");
            let mut v = Vec::with_capacity(n + 64);
            let mut i = 0u32;
            while v.len() < n {
                v.extend_from_slice(format!("{{\"run\":{},\"value\":{}.5,\"unit\":\"ns\"}},", obj, i % 97).as_bytes());
                i += 1;
            }
            v.truncate(n);
            v
        }
        _ => random(&mut rng, 64 + obj as usize),
    }
}

fn classify(e: &StorageError) -> &'static str {
    if e.is_not_found() {
        return "notfound";
    }
    if e.already_existing_key().is_some() {
        return "exists";
    }
    let text = format!("{e} {e:?}");
    if text.contains("invalid storage key") {
        "invalid"
    } else if text.contains("could not decompress") {
        "corrupt"
    } else {
        "err"
    }
}

/// result class for the monitor: a rejected key or any other failure is "err" (no effect)
fn mon(r: &'static str) -> &'static str {
    if r == "invalid" { "err" } else { r }
}

fn which(bytes: &[u8], table: &[(u32, Vec<u8>)]) -> u32 {
    table.iter().find(|(_, b)| b.as_slice() == bytes).map_or(UNKNOWN, |(o, _)| *o)
}

struct Sandbox {
    top: PathBuf,
    root: PathBuf,
}

impl Sandbox {
    fn new(work: &Path, name: &str) -> Self {
        let top = work.join(name);
        let _ = fs::remove_dir_all(&top);
        let root = top.join("n1").join("n2").join("root");
        fs::create_dir_all(&root).expect("sandbox");
        Self { top, root }
    }
    /// (regular files below the root, of which temp files, entries of the sandbox that are not below the root)
    fn survey(&self) -> (u64, u64, u64) {
        fn walk(dir: &Path, files: &mut u64, temps: &mut u64) {
            let Ok(rd) = fs::read_dir(dir) else { return };
            for e in rd.flatten() {
                let p = e.path();
                if e.file_type().map(|t| t.is_dir()).unwrap_or(false) {
                    walk(&p, files, temps);
                } else {
                    *files += 1;
                    if e.file_name().to_string_lossy().starts_with(TEMP_PREFIX) {
                        *temps += 1;
                    }
                }
            }
        }
        fn count_outside(dir: &Path, keep: &[&Path], n: &mut u64) {
            let Ok(rd) = fs::read_dir(dir) else { return };
            for e in rd.flatten() {
                let p = e.path();
                if keep.iter().any(|k| *k == p) {
                    // on the way to the root (or the root itself)
                    if p != *keep[keep.len() - 1] {
                        count_outside(&p, keep, n);
                    }
                    continue;
                }
                *n += 1;
            }
        }
        let (mut files, mut temps, mut outside) = (0, 0, 0);
        walk(&self.root, &mut files, &mut temps);
        let n1 = self.top.join("n1");
        let n2 = n1.join("n2");
        count_outside(&self.top, &[&n1, &n2, &self.root], &mut outside);
        (files, temps, outside)
    }
}

impl Drop for Sandbox {
    fn drop(&mut self) {
        let _ = fs::remove_dir_all(&self.top);
    }
}

// ------------------------------------------------------------------------------------------ one operation

/// Runs one operation on the calling thread and returns the `res` record fields (r, obj, junk).
fn run_op(st: &LocalStorage, kind: &str, bytes: &[u8], table: &[(u32, Vec<u8>)]) -> (&'static str, u32, u64) {
    let rt = rt();
    match kind {
        "put" => match rt.block_on(st.put(key(), bytes)) {
            Ok(()) => ("ok", 0, 0),
            Err(e) => (mon(classify(&e)), 0, 0),
        },
        "puto" => match rt.block_on(st.put_overwrite(key(), bytes)) {
            Ok(()) => ("ok", 0, 0),
            Err(e) => (mon(classify(&e)), 0, 0),
        },
        "del" => match rt.block_on(st.delete(key())) {
            Ok(()) => ("ok", 0, 0),
            Err(e) => (mon(classify(&e)), 0, 0),
        },
        "get" => match rt.block_on(st.get(key())) {
            Ok(b) => ("ok", which(&b, table), 0),
            Err(e) => (mon(classify(&e)), 0, 0),
        },
        "list" => match rt.block_on(st.list(list_prefix())) {
            Ok(names) => {
                let listed = u32::from(names.iter().any(|n| n == key()));
                ("ok", listed, names.iter().filter(|n| *n != key()).count() as u64)
            }
            Err(e) => (mon(classify(&e)), 0, 0),
        },
        _ => ("err", 0, 0),
    }
}

fn inspect_events(st: &LocalStorage, table: &[(u32, Vec<u8>)], out: &mut Vec<Value>) {
    for kind in ["get", "list"] {
        out.push(json!({"ev":"inv","t":INSPECTOR,"kind":kind,"obj":0}));
        let (r, obj, junk) = run_op(st, kind, &[], table);
        out.push(json!({"ev":"res","t":INSPECTOR,"r":r,"obj":obj,"junk":junk}));
    }
    // a listing of the whole store must not show anything but the key either
    let all = rt().block_on(st.list("")).unwrap_or_default();
    out.push(json!({"ev":"inv","t":INSPECTOR,"kind":"list","obj":0}));
    out.push(json!({"ev":"res","t":INSPECTOR,"r":"ok","obj":u32::from(all.iter().any(|n| n == key())),
                    "junk":all.iter().filter(|n| *n != key()).count()}));
}

// ------------------------------------------------------------------------------------------ stepped threads

thread_local! {
    static RESUMES: Cell<usize> = const { Cell::new(0) };
    static CRASH_AT: Cell<usize> = const { Cell::new(0) };
    static ACTOR: Cell<u32> = const { Cell::new(0) };
}

struct CrashMarker;

/// installed into cbh_storage::verif: every named point of local.rs is a scheduling point of the calling actor
fn step(name: &str) {
    if !vrt::sched::in_task() {
        return;
    }
    vrt::sched::point(name);
    let n = RESUMES.get() + 1;
    RESUMES.set(n);
    if CRASH_AT.get() == n {
        // the actor "dies" here: nothing after this point runs, no clean-up code, the files stay as they are
        vrt::sched::emit(json!({"ev":"crash","t":ACTOR.get(),"at":name}));
        std::panic::resume_unwind(Box::new(CrashMarker));
    }
}

#[derive(Clone)]
struct Program {
    actor: u32,
    kinds: Vec<String>,
    /// die at the n-th resumption from a point (0 = never)
    crash_at: usize,
}

struct Scenario {
    init: String, // empty | emptydir | old
    programs: Vec<Program>,
    strategy: Strategy,
}

fn run_scenario(work: &Path, name: &str, sc: Scenario, seed: u64, extra: Value) -> (usize, bool, Vec<Value>) {
    let mut outv: Vec<Value> = vec![];
    let sb = Sandbox::new(work, name);
    let st = verif::local_storage(sb.root.clone());
    let mut table: Vec<(u32, Vec<u8>)> = vec![(OLD, payload(OLD, "small", seed))];
    for p in &sc.programs {
        for i in 0..p.kinds.len() {
            let obj = p.actor * 10 + i as u32 + 1;
            table.push((obj, payload(obj, "small", seed)));
        }
    }
    let init_val = match sc.init.as_str() {
        "old" => {
            rt().block_on(st.put(key(), &table[0].1)).expect("seeding the old object");
            OLD
        }
        "emptydir" => {
            fs::create_dir_all(sb.root.join("d")).expect("dir");
            0
        }
        _ => 0,
    };
    let mut rec = json!({"ev":"reset","init":init_val,"name":name});
    if let (Some(o), Some(e)) = (rec.as_object_mut(), extra.as_object()) {
        for (k, v) in e {
            o.insert(k.clone(), v.clone());
        }
    }
    outv.push(rec);

    let mut ex = Exec::new(sc.strategy, seed);
    ex.step_timeout = std::time::Duration::from_secs(30);
    for p in sc.programs.clone() {
        let st = st.clone();
        let table = table.clone();
        ex.spawn(&format!("a{}", p.actor), move || {
            ACTOR.set(p.actor);
            CRASH_AT.set(p.crash_at);
            RESUMES.set(0);
            for (i, kind) in p.kinds.iter().enumerate() {
                if i > 0 {
                    step("next");
                }
                let obj = if kind == "put" || kind == "puto" { p.actor * 10 + i as u32 + 1 } else { 0 };
                vrt::sched::emit(json!({"ev":"inv","t":p.actor,"kind":kind,"obj":obj}));
                let bytes = table.iter().find(|(o, _)| *o == obj).map(|(_, b)| b.clone()).unwrap_or_default();
                let (r, o, junk) = run_op(&st, kind, &bytes, &table);
                vrt::sched::emit(json!({"ev":"res","t":p.actor,"r":r,"obj":o,"junk":junk}));
            }
        });
    }
    let rep = ex.run();
    let completed = matches!(rep.outcome, Outcome::Completed);
    for v in &rep.log {
        if v["ev"] == "drift" {
            continue;
        }
        outv.push(v.clone());
    }
    // a panic that is not our crash marker is data about the code under test
    for (i, p) in rep.panics.iter().enumerate() {
        if let Some(m) = p {
            if m != "<non-string panic>" {
                outv.push(json!({"ev":"panic","task":i,"msg":m}));
            }
        }
    }
    let mut tail = vec![];
    inspect_events(&st, &table, &mut tail);
    outv.extend(tail);
    let (files, temps, outside) = sb.survey();
    let crashes = rep.log.iter().filter(|v| v["ev"] == "crash").count();
    outv.push(json!({"ev":"tree","files":files,"temps":temps,"outside":outside,"crashes":crashes,
                    "steps":rep.steps.iter().map(|s| format!("{}:{}", s.task + 1, s.op)).collect::<Vec<_>>()}));
    (rep.drift, completed, outv)
}


/// Runs independent scenarios on a few worker threads; every scenario's records are written contiguously, in input order.
fn run_all(jobs: Vec<(String, Scenario, u64, Value)>, work: &Path, tr: &Tracer) -> (usize, usize) {
    use std::sync::Mutex;
    let n = jobs.len();
    let queue = Mutex::new(jobs.into_iter().enumerate().collect::<Vec<_>>());
    let results: Mutex<Vec<Option<(usize, bool, Vec<Value>)>>> = Mutex::new((0..n).map(|_| None).collect());
    let workers = env::var("H_STORE_WORKERS").ok().and_then(|s| s.parse().ok()).unwrap_or(4usize);
    std::thread::scope(|sc| {
        for _ in 0..workers {
            sc.spawn(|| loop {
                let job = queue.lock().unwrap().pop();
                let Some((i, (name, scen, seed, extra))) = job else { break };
                let r = run_scenario(work, &name, scen, seed, extra);
                results.lock().unwrap()[i] = Some(r);
            });
        }
    });
    let (mut drift, mut incomplete) = (0, 0);
    for r in results.into_inner().unwrap().into_iter().flatten() {
        drift += r.0;
        incomplete += usize::from(!r.1);
        for v in &r.2 {
            tr.emit(v);
        }
    }
    (drift, incomplete)
}

/// schedules: one JSON array per line, elements {a, p, k} as printed by MC_LocalStore (hist)
fn cmd_sched(cases: &str, out: &str, work: &str) {
    verif::install_step(step);
    let tr = Tracer::create(out);
    let work = PathBuf::from(work);
    let seed = vrt::seed_from_env();
    let mut jobs = vec![];
    for (idx, case) in vrt::read_ndjson(cases).iter().enumerate() {
        let steps = case.as_array().expect("schedule");
        let init = steps[0]["k"].as_str().unwrap_or("empty").to_string();
        let max_actor = steps.iter().map(|s| s["a"].as_u64().unwrap_or(0)).max().unwrap_or(0) as u32;
        let mut programs: Vec<Program> =
            (1..=max_actor.max(1)).map(|a| Program { actor: a, kinds: vec![], crash_at: 0 }).collect();
        let mut own_steps = vec![0usize; programs.len()];
        let mut script = vec![];
        for s in &steps[1..] {
            let a = s["a"].as_u64().unwrap() as usize;
            let p = s["p"].as_str().unwrap().to_string();
            let k = s["k"].as_str().unwrap();
            own_steps[a - 1] += 1;
            if p == "start" || p == "next" {
                programs[a - 1].kinds.push(k.to_string());
            }
            if k == "crash" {
                // the first step of an actor is its start, every later one a return from `step`
                programs[a - 1].crash_at = own_steps[a - 1] - 1;
            }
            script.push((a - 1, p));
        }
        let sc = Scenario { init, programs, strategy: Strategy::Script(script) };
        jobs.push((format!("s{idx}"), sc, seed ^ idx as u64, json!({"sid":idx})));
    }
    let n = jobs.len();
    let (drift, incomplete) = run_all(jobs, &work, &tr);
    println!("{}", json!({"scenarios":n,"drift":drift,"incomplete":incomplete}));
}

fn cmd_random(out: &str, work: &str, n: usize) {
    verif::install_step(step);
    let tr = Tracer::create(out);
    let work = PathBuf::from(work);
    let mut rng = Rng::new(vrt::seed_from_env());
    let mut jobs = vec![];
    for idx in 0..n {
        let nw = 1 + rng.below(3) as u32;
        let nr = rng.below(3) as u32;
        let mut programs = vec![];
        for a in 1..=nw {
            let nops = 1 + rng.below(3) as usize;
            let kinds = (0..nops).map(|_| (*rng.pick(&["put", "put", "puto", "del"])).to_string()).collect();
            let crash_at = if rng.chance(1, 4) { 1 + rng.below(12) as usize } else { 0 };
            programs.push(Program { actor: a, kinds, crash_at });
        }
        for a in 0..nr {
            let nops = 1 + rng.below(4) as usize;
            let kinds = (0..nops).map(|_| (*rng.pick(&["get", "get", "list"])).to_string()).collect();
            programs.push(Program { actor: 4 + a, kinds, crash_at: 0 });
        }
        let init = (*rng.pick(&["empty", "emptydir", "old"])).to_string();
        let strategy = if rng.chance(1, 3) { Strategy::Pct { changes: 3 } } else { Strategy::Random };
        let sc = Scenario { init, programs, strategy };
        jobs.push((format!("r{idx}"), sc, rng.next(), json!({"rid":idx})));
    }
    let (_, incomplete) = run_all(jobs, &work, &tr);
    println!("{}", json!({"scenarios":n,"incomplete":incomplete}));
}

// ------------------------------------------------------------------------------------------ crash (processes)

fn self_exe() -> PathBuf {
    env::current_exe().expect("current_exe")
}

/// child: perform one operation; FOLO_VERIF_CRASH_AT (set by the parent) makes a point abort the process
fn cmd_child_op(root: &str, kind: &str, obj: u32, class: &str, seed: u64) {
    // no core dump for the deliberate abort
    unsafe {
        let lim = libc::rlimit { rlim_cur: 0, rlim_max: 0 };
        libc::setrlimit(libc::RLIMIT_CORE, &lim);
    }
    // H_STORE_FSIZE=<bytes>: the process may not write files larger than that (RLIMIT_FSIZE, SIGXFSZ ignored): writes beyond
    // the limit fail with EFBIG - a write fault in the middle of storing an object
    if let Some(limit) = env::var("H_STORE_FSIZE").ok().and_then(|v| v.parse::<u64>().ok()) {
        unsafe {
            libc::signal(libc::SIGXFSZ, libc::SIG_IGN);
            let lim = libc::rlimit { rlim_cur: limit, rlim_max: limit };
            libc::setrlimit(libc::RLIMIT_FSIZE, &lim);
        }
    }
    let st = verif::local_storage(PathBuf::from(root));
    let bytes = payload(obj, class, seed);
    let (r, o, junk) = run_op(&st, kind, &bytes, &[]);
    println!("{}", json!({"r":r,"obj":o,"junk":junk}));
}

/// efbig <out> <work>: the writing process hits a file-size limit in the middle of storing a large object (a write fault,
/// not a crash): the operation must report the failure and the key must hold what it held before; a fresh process looks.
fn cmd_efbig(out: &str, work: &str) {
    let tr = Tracer::create(out);
    let work = PathBuf::from(work);
    let seed = vrt::seed_from_env();
    // "big": the fault hits an early chunk of several; "mid": the whole stored form is one (the last) buffered chunk
    let cases: Vec<(&str, &str, &str)> = ["big", "mid"]
        .iter()
        .flat_map(|c| [("empty", "put", *c), ("old", "puto", *c), ("empty", "puto", *c), ("old", "put", *c)])
        .collect();
    for (idx, (init, kind, class)) in cases.iter().enumerate() {
        let sb = Sandbox::new(&work, &format!("f{idx}"));
        let st = verif::local_storage(sb.root.clone());
        let init_val = if *init == "old" {
            rt().block_on(st.put(key(), &payload(OLD, "small", seed))).expect("seed old");
            OLD
        } else {
            0
        };
        tr.emit(&json!({"ev":"reset","init":init_val,"class":"efbig","kindof":kind,"initk":init}));
        tr.emit(&json!({"ev":"inv","t":1,"kind":kind,"obj":11}));
        let outp = Command::new(self_exe())
            .args(["child-op", sb.root.to_str().unwrap(), kind, "11", class, &seed.to_string()])
            .env("H_STORE_FSIZE", "65536")
            .env_remove(verif::CRASH_AT_VARIABLE)
            .stdout(Stdio::piped())
            .stderr(Stdio::null())
            .output()
            .expect("spawn child");
        use std::os::unix::process::ExitStatusExt;
        if outp.status.signal().is_some() {
            tr.emit(&json!({"ev":"crash","t":1,"signal":outp.status.signal()}));
        } else {
            let v: Value = serde_json::from_slice(&outp.stdout).unwrap_or(json!({"r":"err","obj":0,"junk":0}));
            tr.emit(&json!({"ev":"res","t":1,"r":v["r"],"obj":v["obj"],"junk":v["junk"]}));
        }
        let insp = Command::new(self_exe())
            .args(["inspect", sb.root.to_str().unwrap(), &seed.to_string(), "11", class])
            .env_remove(verif::CRASH_AT_VARIABLE)
            .env_remove("H_STORE_FSIZE")
            .output()
            .expect("spawn inspector");
        let evs: Value = serde_json::from_slice(&insp.stdout).expect("inspector output");
        for e in evs.as_array().expect("array") {
            tr.emit(e);
        }
        let (files, temps, outside) = sb.survey();
        tr.emit(&json!({"ev":"tree","files":files,"temps":temps,"outside":outside,"crashes":0}));
    }
    println!("{}", json!({"scenarios":cases.len()}));
}

/// fresh process: look at the store through the public operations only
fn cmd_inspect(root: &str, seed: u64, new_obj: u32, class: &str) {
    let st = verif::local_storage(PathBuf::from(root));
    let table = vec![(OLD, payload(OLD, "small", seed)), (new_obj, payload(new_obj, class, seed))];
    let mut evs = vec![];
    inspect_events(&st, &table, &mut evs);
    println!("{}", Value::Array(evs));
}

/// cases: {"init": "empty|emptydir|old", "kind": "put|puto|del", "at": "<point>|none"}
fn cmd_crash(cases: &str, out: &str, work: &str) {
    let tr = Tracer::create(out);
    let work = PathBuf::from(work);
    let seed = vrt::seed_from_env();
    let mut not_crashed = 0usize;
    let mut n = 0usize;
    for (idx, case) in vrt::read_ndjson(cases).iter().enumerate() {
        for class in ["small", "big"] {
            let init = case["init"].as_str().unwrap();
            let kind = case["kind"].as_str().unwrap();
            let at = case["at"].as_str().unwrap();
            let sb = Sandbox::new(&work, &format!("c{idx}{class}"));
            let st = verif::local_storage(sb.root.clone());
            let init_val = match init {
                "old" => {
                    rt().block_on(st.put(key(), &payload(OLD, "small", seed))).expect("seed old");
                    OLD
                }
                "emptydir" => {
                    fs::create_dir_all(sb.root.join("d")).expect("dir");
                    0
                }
                _ => 0,
            };
            let obj = if kind == "del" { 0 } else { 11 };
            tr.emit(&json!({"ev":"reset","init":init_val,"case":idx,"class":class,"kindof":kind,"at":at,"initk":init}));
            tr.emit(&json!({"ev":"inv","t":1,"kind":kind,"obj":obj}));
            let mut cmd = Command::new(self_exe());
            cmd.args(["child-op", sb.root.to_str().unwrap(), kind, "11", class, &seed.to_string()])
                .stdout(Stdio::piped())
                .stderr(Stdio::null());
            if at != "none" {
                cmd.env(verif::CRASH_AT_VARIABLE, at);
            } else {
                cmd.env_remove(verif::CRASH_AT_VARIABLE);
            }
            let outp = cmd.output().expect("spawn child");
            use std::os::unix::process::ExitStatusExt;
            let died = outp.status.signal().is_some();
            if died {
                tr.emit(&json!({"ev":"crash","t":1,"signal":outp.status.signal()}));
            } else {
                let v: Value = serde_json::from_slice(&outp.stdout).unwrap_or(json!({"r":"err","obj":0,"junk":0}));
                tr.emit(&json!({"ev":"res","t":1,"r":v["r"],"obj":v["obj"],"junk":v["junk"]}));
                if at != "none" {
                    not_crashed += 1; // the selected point was never reached (model/code drift)
                }
            }
            // FRESH process
            let insp = Command::new(self_exe())
                .args(["inspect", sb.root.to_str().unwrap(), &seed.to_string(), "11", class])
                .env_remove(verif::CRASH_AT_VARIABLE)
                .output()
                .expect("spawn inspector");
            let evs: Value = serde_json::from_slice(&insp.stdout).expect("inspector output");
            for e in evs.as_array().expect("array") {
                tr.emit(e);
            }
            let (files, temps, outside) = sb.survey();
            tr.emit(&json!({"ev":"tree","files":files,"temps":temps,"outside":outside,"crashes":u32::from(died)}));
            n += 1;
        }
    }
    println!("{}", json!({"scenarios":n,"not_crashed":not_crashed}));
}

// ------------------------------------------------------------------------------------------ free-running readers

/// A writer stores a large incompressible object (first put, or overwrite of an old object) while free-running readers
/// keep calling get / list on the same key. No hook is involved: whatever the write path looks like, a reader must see
/// nothing, the old or the complete new object, and never a temporary name. Records are appended under one mutex at
/// invocation and at response, so their order is consistent with real time.
fn cmd_race(out: &str, work: &str, rounds: usize) {
    use std::sync::atomic::{AtomicBool, Ordering};
    use std::sync::{Arc, Mutex};
    let tr = Tracer::create(out);
    let work = PathBuf::from(work);
    let seed = vrt::seed_from_env();
    for round in 0..rounds {
        let over = round % 2 == 1;
        let sb = Sandbox::new(&work, &format!("race{round}"));
        let st0 = verif::local_storage(sb.root.clone());
        let old = payload(OLD, "small", seed);
        let newb = payload(11, "huge", seed.wrapping_add(round as u64));
        if over {
            rt().block_on(st0.put(key(), &old)).expect("seed old");
        }
        let table = Arc::new(vec![(OLD, old), (11, newb)]);
        let log: Arc<Mutex<Vec<Value>>> = Arc::new(Mutex::new(vec![json!({"ev":"reset","init": if over { OLD } else { 0 },"class":"race","round":round,"over":over})]));
        let done = Arc::new(AtomicBool::new(false));
        let mut hs = vec![];
        for t in 2..=3u32 {
            let (root, table, log, done) = (sb.root.clone(), table.clone(), log.clone(), done.clone());
            hs.push(std::thread::spawn(move || {
                let st = verif::local_storage(root);
                let mut after = 0;
                let mut n = 0u32;
                while after < 2 && n < 500 {
                    std::thread::sleep(std::time::Duration::from_micros(1500));
                    if done.load(Ordering::SeqCst) {
                        after += 1;
                    }
                    let kind = if t == 3 && n % 3 == 2 { "list" } else { "get" };
                    log.lock().unwrap().push(json!({"ev":"inv","t":t,"kind":kind,"obj":0}));
                    let (r, o, junk) = run_op(&st, kind, &[], &table);
                    log.lock().unwrap().push(json!({"ev":"res","t":t,"r":r,"obj":o,"junk":junk}));
                    n += 1;
                }
            }));
        }
        std::thread::sleep(std::time::Duration::from_millis(3));
        let kind = if over { "puto" } else { "put" };
        log.lock().unwrap().push(json!({"ev":"inv","t":1,"kind":kind,"obj":11}));
        let (r, o, junk) = run_op(&st0, kind, &table[1].1, &table);
        log.lock().unwrap().push(json!({"ev":"res","t":1,"r":r,"obj":o,"junk":junk}));
        done.store(true, Ordering::SeqCst);
        for h in hs {
            let _ = h.join();
        }
        for v in log.lock().unwrap().iter() {
            tr.emit(v);
        }
        let mut evs = vec![];
        inspect_events(&st0, &table, &mut evs);
        for e in &evs {
            tr.emit(e);
        }
        let (files, temps, outside) = sb.survey();
        tr.emit(&json!({"ev":"tree","files":files,"temps":temps,"outside":outside,"crashes":0}));
    }
    println!("{}", json!({"scenarios":rounds}));
}

// ------------------------------------------------------------------------------------------ round trips

fn cmd_rt(out: &str, work: &str) {
    let tr = Tracer::create(out);
    let work = PathBuf::from(work);
    let seed = vrt::seed_from_env();
    let mut n = 0;
    // every payload class: put, get, put again (must fail, unchanged), overwrite, get, delete, get, delete
    for class in ["empty", "one", "gzmagic", "gzfull", "small", "big", "rep32767", "rep32768", "rep32769", "rep32775", "rep65537", "rep98310",
                  "json32770", "json65540"] {
        let sb = Sandbox::new(&work, &format!("p{class}"));
        let st = verif::local_storage(sb.root.clone());
        let a = payload(11, class, seed);
        let b = payload(12, "small", seed);
        let c = payload(13, if class == "big" { "big" } else { "small" }, seed);
        let table = vec![(11, a.clone()), (12, b.clone()), (13, c.clone())];
        tr.emit(&json!({"ev":"reset","init":0,"class":class,"len":a.len(),"nofault":1}));
        let script: [(&str, u32); 12] = [("get", 0), ("list", 0), ("put", 11), ("get", 0), ("list", 0), ("put", 12), ("get", 0),
                                         ("puto", 13), ("get", 0), ("del", 0), ("get", 0), ("del", 0)];
        for (kind, obj) in script {
            tr.emit(&json!({"ev":"inv","t":1,"kind":kind,"obj":obj}));
            let bytes = table.iter().find(|(o, _)| *o == obj).map(|(_, x)| x.clone()).unwrap_or_default();
            let (r, o, junk) = run_op(&st, kind, &bytes, &table);
            tr.emit(&json!({"ev":"res","t":1,"r":r,"obj":o,"junk":junk}));
        }
        let (files, temps, outside) = sb.survey();
        tr.emit(&json!({"ev":"tree","files":files,"temps":temps,"outside":outside,"crashes":0}));
        n += 1;
    }
    // the rename fails (the key's path is a directory): clean-up path of write_atomic; then the store is still usable
    {
        let sb = Sandbox::new(&work, "pclean");
        let st = verif::local_storage(sb.root.clone());
        fs::create_dir_all(sb.root.join("d").join("k.json")).expect("dir at the key path");
        let table = vec![(11, payload(11, "small", seed))];
        tr.emit(&json!({"ev":"reset","init":0,"class":"rename-fails"}));
        for (kind, obj) in [("puto", 11u32), ("list", 0)] {
            tr.emit(&json!({"ev":"inv","t":1,"kind":kind,"obj":obj}));
            let (r, o, junk) = run_op(&st, kind, &table[0].1, &table);
            tr.emit(&json!({"ev":"res","t":1,"r":r,"obj":o,"junk":junk}));
        }
        let (files, temps, outside) = sb.survey();
        tr.emit(&json!({"ev":"tree","files":files,"temps":temps,"outside":outside,"crashes":0}));
        n += 1;
    }
    println!("{}", json!({"scenarios":n}));
}

// ------------------------------------------------------------------------------------------ keys

const SYM: [char; 7] = ['?', 'a', '.', '/', '\\', '-', ':'];

fn key_string(codes: &[u64]) -> String {
    codes.iter().map(|c| SYM[*c as usize]).collect()
}

fn key_codes(s: &str) -> Vec<u64> {
    s.chars().map(|c| SYM.iter().position(|x| *x == c).unwrap_or(0) as u64).collect()
}

fn cmd_keys(cases: &str, out: &str, work: &str) {
    let tr = Tracer::create(out);
    let work = PathBuf::from(work);
    let seed = vrt::seed_from_env();
    let rt = rt();
    let body = payload(1, "small", seed);
    let mut n = 0usize;
    for case in vrt::read_ndjson(cases) {
        let codes: Vec<u64> = case["key"].as_array().unwrap().iter().map(|v| v.as_u64().unwrap()).collect();
        let key = key_string(&codes);
        let sb = Sandbox::new(&work, "k");
        let st = verif::local_storage(sb.root.clone());
        let valid = verif::key_is_valid(&key);
        let put = match vrt::catch(|| rt.block_on(st.put(&key, &body))) {
            Ok(Ok(())) => "ok",
            Ok(Err(e)) => classify(&e),
            Err(_) => "panic",
        };
        let get = match vrt::catch(|| rt.block_on(st.get(&key))) {
            Ok(Ok(b)) => {
                if b == body {
                    "same"
                } else {
                    "other"
                }
            }
            Ok(Err(e)) => classify(&e),
            Err(_) => "panic",
        };
        let listed: Vec<Vec<u64>> = match vrt::catch(|| rt.block_on(st.list(""))) {
            Ok(Ok(v)) => v.iter().map(|s| key_codes(s)).collect(),
            _ => vec![vec![0]],
        };
        let (files, temps, outside) = sb.survey();
        tr.emit(&json!({"ev":"key","key":codes,"text":key,"valid":valid,"put":put,"get":get,"listed":listed,
                        "files":files,"temps":temps,"outside":outside,"exp":case["valid"]}));
        n += 1;
    }
    println!("{}", json!({"keys":n}));
}

fn main() {
    let quiet_marker = std::panic::take_hook();
    drop(quiet_marker);
    vrt::quiet_panics();
    let a: Vec<String> = env::args().collect();
    match a.get(1).map(String::as_str) {
        Some("sched") => cmd_sched(&a[2], &a[3], &a[4]),
        Some("random") => cmd_random(&a[2], &a[3], a[4].parse().unwrap()),
        Some("crash") => cmd_crash(&a[2], &a[3], &a[4]),
        Some("rt") => cmd_rt(&a[2], &a[3]),
        Some("efbig") => cmd_efbig(&a[2], &a[3]),
        Some("race") => cmd_race(&a[2], &a[3], a[4].parse().unwrap()),
        Some("keys") => cmd_keys(&a[2], &a[3], &a[4]),
        Some("child-op") => cmd_child_op(&a[2], &a[3], a[4].parse().unwrap(), &a[5], a[6].parse().unwrap()),
        Some("inspect") => cmd_inspect(&a[2], a[3].parse().unwrap(), a[4].parse().unwrap(), &a[5]),
        _ => {
            eprintln!("usage: h_store sched|random|crash|rt|keys ...");
            std::process::exit(2);
        }
    }
}
