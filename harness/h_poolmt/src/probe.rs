//! The capability table of ThreadSafety.tla, MEASURED from rustc.
//!
//! `Probe<X>::SEND` etc. are evaluated by the compiler: an inherent associated const (which exists only when the
//! bound holds) shadows the const of the same name that every `Probe<X>` gets from the `Fallback` trait.
//! Nothing here is written by hand except the list of types to ask about.
use std::cell::Cell;
use std::marker::PhantomData;
use std::ops::{Deref, DerefMut};
use std::rc::Rc;

use infinity_pool::{
    BlindPool, BlindPooled, BlindPooledMut, LocalBlindPool, LocalBlindPooled, LocalBlindPooledMut, LocalOpaquePool,
    LocalPinnedPool, LocalPooled, LocalPooledMut, OpaquePool, PinnedPool, Pooled, PooledMut, RawBlindPool,
    RawBlindPooled, RawBlindPooledMut, RawOpaquePool, RawPinnedPool, RawPooled, RawPooledMut,
};

pub struct Probe<T: ?Sized>(PhantomData<T>);

pub trait Fallback {
    const SEND: bool = false;
    const SYNC: bool = false;
    const CLONE: bool = false;
    const DEREF: bool = false;
    const DEREFMUT: bool = false;
}
impl<T: ?Sized> Fallback for Probe<T> {}

#[allow(dead_code)]
impl<T: ?Sized + Send> Probe<T> {
    pub const SEND: bool = true;
}
#[allow(dead_code)]
impl<T: ?Sized + Sync> Probe<T> {
    pub const SYNC: bool = true;
}
#[allow(dead_code)]
impl<T: Clone> Probe<T> {
    pub const CLONE: bool = true;
}
#[allow(dead_code)]
impl<T: ?Sized + Deref> Probe<T> {
    pub const DEREF: bool = true;
}
#[allow(dead_code)]
impl<T: ?Sized + DerefMut> Probe<T> {
    pub const DEREFMUT: bool = true;
}

// ---- payload classes -------------------------------------------------------------------------------------
pub type SS = u32; // Send + Sync
pub type SN = Cell<u8>; // Send, !Sync
/// !Send, Sync (like a MutexGuard)
pub struct NS(#[allow(dead_code)] PhantomData<*const ()>);
// SAFETY: marker type without data; only its auto traits matter.
unsafe impl Sync for NS {}
pub type NN = Rc<u8>; // !Send, !Sync

#[allow(dead_code)]
pub trait Tr {
    fn poke(&self) -> u8;
}
pub trait TrSend: Tr + Send {}
pub trait TrSync: Tr + Sync {}
pub trait TrSendSync: Tr + Send + Sync {}

impl Tr for SN {
    fn poke(&self) -> u8 {
        self.set(self.get().wrapping_add(1));
        self.get()
    }
}
impl TrSend for SN {}

macro_rules! row {
    ($fam:expr, $h:expr, $shape:expr, $pc:expr, $t:ty) => {
        println!(
            "{}",
            serde_json::json!({
                "fam": $fam, "h": $h, "shape": $shape, "pc": $pc, "ty": stringify!($t),
                "send": <Probe<$t>>::SEND, "sync": <Probe<$t>>::SYNC, "clone": <Probe<$t>>::CLONE,
                "deref": <Probe<$t>>::DEREF, "derefmut": <Probe<$t>>::DEREFMUT,
            })
        );
    };
}

/// all payload shapes of one generic handle type
macro_rules! handle_rows {
    ($fam:expr, $name:expr, $h:ident) => {
        row!($fam, $name, "sized", "SS", $h<SS>);
        row!($fam, $name, "sized", "SN", $h<SN>);
        row!($fam, $name, "sized", "NS", $h<NS>);
        row!($fam, $name, "sized", "NN", $h<NN>);
        row!($fam, $name, "erased", "-", $h<()>);
        row!($fam, $name, "dyn", "-", $h<dyn Tr>);
        row!($fam, $name, "dyn+Send", "-", $h<dyn TrSend>);
        row!($fam, $name, "dyn+Sync", "-", $h<dyn TrSync>);
        row!($fam, $name, "dyn+Send+Sync", "-", $h<dyn TrSendSync>);
    };
}

macro_rules! typed_pool_rows {
    ($fam:expr, $name:expr, $p:ident, $($pc:expr => $t:ty),*) => {
        $( row!($fam, $name, "pool", $pc, $p<$t>); )*
    };
}

pub fn main() {
    // the payload classes themselves (sanity: the table is only meaningful if these come out as named)
    row!("payload", "payload", "sized", "SS", SS);
    row!("payload", "payload", "sized", "SN", SN);
    row!("payload", "payload", "sized", "NS", NS);
    row!("payload", "payload", "sized", "NN", NN);
    row!("payload", "payload", "dyn", "-", dyn Tr);
    row!("payload", "payload", "dyn+Send", "-", dyn TrSend);
    row!("payload", "payload", "dyn+Sync", "-", dyn TrSync);
    row!("payload", "payload", "dyn+Send+Sync", "-", dyn TrSendSync);

    handle_rows!("managed", "Pooled", Pooled);
    handle_rows!("managed", "PooledMut", PooledMut);
    handle_rows!("managed", "BlindPooled", BlindPooled);
    handle_rows!("managed", "BlindPooledMut", BlindPooledMut);
    handle_rows!("raw", "RawPooled", RawPooled);
    handle_rows!("raw", "RawPooledMut", RawPooledMut);
    handle_rows!("raw", "RawBlindPooled", RawBlindPooled);
    handle_rows!("raw", "RawBlindPooledMut", RawBlindPooledMut);
    handle_rows!("local", "LocalPooled", LocalPooled);
    handle_rows!("local", "LocalPooledMut", LocalPooledMut);
    handle_rows!("local", "LocalBlindPooled", LocalBlindPooled);
    handle_rows!("local", "LocalBlindPooledMut", LocalBlindPooledMut);

    row!("managed", "OpaquePool", "pool", "-", OpaquePool);
    row!("managed", "BlindPool", "pool", "-", BlindPool);
    typed_pool_rows!("managed", "PinnedPool", PinnedPool, "SS" => SS, "SN" => SN);
    row!("raw", "RawOpaquePool", "pool", "-", RawOpaquePool);
    row!("raw", "RawBlindPool", "pool", "-", RawBlindPool);
    typed_pool_rows!("raw", "RawPinnedPool", RawPinnedPool, "SS" => SS, "SN" => SN, "NS" => NS, "NN" => NN);
    row!("local", "LocalOpaquePool", "pool", "-", LocalOpaquePool);
    row!("local", "LocalBlindPool", "pool", "-", LocalBlindPool);
    typed_pool_rows!("local", "LocalPinnedPool", LocalPinnedPool, "SS" => SS, "SN" => SN, "NS" => NS, "NN" => NN);
}
