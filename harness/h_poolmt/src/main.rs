//! Harness for C03 (thread-safe pools on any schedule; Send/Sync of handles).
//!
//! `h_poolmt probe`                 prints the trait-impl table measured from rustc (one JSON object per line)
//! `h_poolmt demo <out.ndjson>`     runs, for every handle type whose measured impls allow it, a real two-thread
//!                                  program that reaches one `Cell` payload from two threads; records what happened
//! `h_poolmt dtor-race <out.ndjson> <secs>`   C04: destructor panics on one thread, other threads keep using the pool
//! `h_poolmt mt <pool> <threads> <ops> <out.ndjson>`   free-running threads against a real pool, linearization log
mod demo;
mod mt;
mod probe;
mod race;

fn main() {
    let args: Vec<String> = std::env::args().collect();
    match args.get(1).map(String::as_str) {
        Some("probe") => probe::main(),
        Some("demo") => demo::main(&args[2]),
        Some("mt") => mt::main(&args[2..]),
        Some("mt-burst") => mt::burst(&args[2..]),
        Some("dtor-race") => race::main(&args[2..]),
        _ => {
            eprintln!("usage: h_poolmt probe | demo <out> | mt <pool> <threads> <ops> <slabcap> <keep|poolgone> <out>");
            std::process::exit(2);
        }
    }
}
