//! C03-A driver: free-running threads against a real thread-safe pool with tiny slabs (hook H1's capacity override).
//!
//! Every record gets a number from ONE atomic counter. For pool mutations ("lin") the number is drawn inside hook
//! H1's event callback, which the raw pool invokes at the end of each mutator, i.e. while the caller still holds the
//! pool's mutex; destructors ("dtor") run inside `remove`, under the same mutex. So sorting by that number yields a
//! linearization order of the pool changes, with each thread's invocation / response records around them.
//! The harness records and never judges (a damaged canary is logged as `read` with v = 0).
use std::cell::{Cell, RefCell};
use std::num::NonZero;
use std::ops::Deref;
use std::sync::atomic::{AtomicU32, AtomicU64, Ordering};
use std::sync::{Arc, Mutex, OnceLock};

use infinity_pool::verif::{self, Event, Op};
use infinity_pool::{BlindPool, BlindPooled, BlindPooledMut, OpaquePool, PinnedPool, Pooled, PooledMut};
use vrt::{json, Rng, Tracer, Value};

static SEQ: AtomicU64 = AtomicU64::new(1);
static NEXT_OBJ: AtomicU32 = AtomicU32::new(1);

type Log = Arc<Mutex<Vec<Value>>>;
/// every thread's log, reachable from any thread so that the trace survives a panic of the code under test
static REGISTRY: Mutex<Vec<Log>> = Mutex::new(Vec::new());
static OUT: OnceLock<String> = OnceLock::new();

thread_local! {
    static LOG: RefCell<Option<Log>> = const { RefCell::new(None) };
    static TID: Cell<u32> = const { Cell::new(0) };
}

fn my_log() -> Log {
    LOG.with(|l| {
        l.borrow_mut()
            .get_or_insert_with(|| {
                let log: Log = Arc::new(Mutex::new(Vec::new()));
                REGISTRY.lock().unwrap_or_else(|e| e.into_inner()).push(log.clone());
                log
            })
            .clone()
    })
}

/// merge all logs by sequence number and write the trace
fn dump() {
    let mut all: Vec<Value> = Vec::new();
    for log in REGISTRY.lock().unwrap_or_else(|e| e.into_inner()).iter() {
        all.extend(log.lock().unwrap_or_else(|e| e.into_inner()).iter().cloned());
    }
    all.sort_by_key(|v| v["seq"].as_u64().unwrap());
    let tr = Tracer::create(OUT.get().expect("no output path"));
    for v in &all {
        tr.emit(v);
    }
    tr.flush();
}

fn tid() -> u32 {
    TID.with(Cell::get)
}

/// append a record to this thread's log with the next global sequence number
fn rec(mut v: Value) {
    let s = SEQ.fetch_add(1, Ordering::SeqCst);
    v["seq"] = json!(s);
    v["t"] = json!(tid());
    my_log().lock().unwrap_or_else(|e| e.into_inner()).push(v);
}

fn small(x: usize) -> usize {
    if x == verif::NO_INDEX { 0 } else { x }
}

fn on_event(e: &Event) {
    let op = match e.op {
        Op::Insert => "Insert",
        Op::Remove => "Remove",
        Op::RemoveUnpin => "RemoveUnpin",
        Op::Reserve => "Reserve",
        Op::ShrinkToFit => "ShrinkToFit",
    };
    rec(json!({"ev":"lin","op":op,"obj":0,"pool":e.pool,"slab":small(e.slab),"slot":small(e.slot),"v":e.len}));
}

// ------------------------------------------------------------------------------------------------ payload

fn canary_of(id: u32) -> u64 {
    (u64::from(id)).wrapping_mul(0x9E37_79B9_7F4A_7C15) ^ 0xA5A5_5A5A_C3C3_3C3C
}

pub struct P<const N: usize> {
    id: u32,
    canary: u64,
    pad: [u8; N],
}

impl<const N: usize> P<N> {
    fn new(id: u32) -> Self {
        Self { id, canary: canary_of(id), pad: [id as u8; N] }
    }
    fn check(&self) -> (u32, bool) {
        (self.id, self.canary == canary_of(self.id) && self.pad.iter().all(|b| *b == self.id as u8))
    }
}

/// burst mode (`mt-burst`): destructors are counted, not logged
static BURST: std::sync::atomic::AtomicBool = std::sync::atomic::AtomicBool::new(false);
static BURST_DTORS: AtomicU32 = AtomicU32::new(0);

impl<const N: usize> Drop for P<N> {
    fn drop(&mut self) {
        if BURST.load(Ordering::Relaxed) {
            BURST_DTORS.fetch_add(1, Ordering::SeqCst);
            self.canary = 0;
            return;
        }
        let ok = self.check().1;
        rec(json!({"ev":"dtor","op":"-","obj":self.id,"v": u8::from(ok)}));
        self.canary = 0; // poison: a later read through a stale handle shows up as a damaged canary
    }
}

type PA = P<4>;
type PB = P<72>;

// ------------------------------------------------------------------------------------------------ pools

trait Pl: Clone + Send + Sync + 'static {
    type U: Send + 'static;
    type S: Send + 'static;
    const HAS_ITER: bool;
    fn new() -> Self;
    fn insert(&self, id: u32, with: bool) -> Self::U;
    fn len(&self) -> usize;
    fn iter_count(&self) -> usize;
    fn reserve(&self, n: usize);
    fn shrink(&self);
    fn check_u(u: &Self::U) -> (u32, bool);
    fn check_s(s: &Self::S) -> (u32, bool);
    fn share(u: Self::U) -> Self::S;
    fn clone_s(s: &Self::S) -> Self::S;
    fn into_inner(u: Self::U) -> (u32, bool);
}

fn finish_inner<const N: usize>(p: P<N>) -> (u32, bool) {
    let r = p.check();
    std::mem::forget(p); // moved out of the pool: not a pool-side destruction, keep it out of the trace
    r
}

impl Pl for OpaquePool {
    type U = PooledMut<PA>;
    type S = Pooled<PA>;
    const HAS_ITER: bool = true;
    fn new() -> Self {
        OpaquePool::with_layout_of::<PA>()
    }
    fn insert(&self, id: u32, with: bool) -> Self::U {
        if with {
            // SAFETY: the closure initialises the slot.
            unsafe {
                self.insert_with(|u: &mut std::mem::MaybeUninit<PA>| {
                    u.write(PA::new(id));
                })
            }
        } else {
            OpaquePool::insert(self, PA::new(id))
        }
    }
    fn len(&self) -> usize {
        OpaquePool::len(self)
    }
    fn iter_count(&self) -> usize {
        self.with_iter(|it| it.count())
    }
    fn reserve(&self, n: usize) {
        OpaquePool::reserve(self, n);
    }
    fn shrink(&self) {
        self.shrink_to_fit();
    }
    fn check_u(u: &Self::U) -> (u32, bool) {
        u.deref().check()
    }
    fn check_s(s: &Self::S) -> (u32, bool) {
        s.deref().check()
    }
    fn share(u: Self::U) -> Self::S {
        u.into_shared()
    }
    fn clone_s(s: &Self::S) -> Self::S {
        s.clone()
    }
    fn into_inner(u: Self::U) -> (u32, bool) {
        finish_inner(u.into_inner())
    }
}

impl Pl for PinnedPool<PB> {
    type U = PooledMut<PB>;
    type S = Pooled<PB>;
    const HAS_ITER: bool = true;
    fn new() -> Self {
        PinnedPool::new()
    }
    fn insert(&self, id: u32, with: bool) -> Self::U {
        if with {
            // SAFETY: the closure initialises the slot.
            unsafe {
                self.insert_with(|u: &mut std::mem::MaybeUninit<PB>| {
                    u.write(PB::new(id));
                })
            }
        } else {
            PinnedPool::insert(self, PB::new(id))
        }
    }
    fn len(&self) -> usize {
        PinnedPool::len(self)
    }
    fn iter_count(&self) -> usize {
        self.with_iter(|it| it.count())
    }
    fn reserve(&self, n: usize) {
        PinnedPool::reserve(self, n);
    }
    fn shrink(&self) {
        self.shrink_to_fit();
    }
    fn check_u(u: &Self::U) -> (u32, bool) {
        u.deref().check()
    }
    fn check_s(s: &Self::S) -> (u32, bool) {
        s.deref().check()
    }
    fn share(u: Self::U) -> Self::S {
        u.into_shared()
    }
    fn clone_s(s: &Self::S) -> Self::S {
        s.clone()
    }
    fn into_inner(u: Self::U) -> (u32, bool) {
        finish_inner(u.into_inner())
    }
}

/// blind pool: two payload layouts, hence two inner raw pools behind one mutex
pub enum BU {
    A(BlindPooledMut<PA>),
    B(BlindPooledMut<PB>),
}
pub enum BS {
    A(BlindPooled<PA>),
    B(BlindPooled<PB>),
}

impl Pl for BlindPool {
    type U = BU;
    type S = BS;
    const HAS_ITER: bool = false;
    fn new() -> Self {
        BlindPool::new()
    }
    fn insert(&self, id: u32, with: bool) -> Self::U {
        match (id % 2 == 0, with) {
            (true, false) => BU::A(BlindPool::insert(self, PA::new(id))),
            (false, false) => BU::B(BlindPool::insert(self, PB::new(id))),
            // SAFETY: the closures initialise the slot.
            (true, true) => BU::A(unsafe {
                self.insert_with(|u: &mut std::mem::MaybeUninit<PA>| {
                    u.write(PA::new(id));
                })
            }),
            (false, true) => BU::B(unsafe {
                self.insert_with(|u: &mut std::mem::MaybeUninit<PB>| {
                    u.write(PB::new(id));
                })
            }),
        }
    }
    fn len(&self) -> usize {
        BlindPool::len(self)
    }
    fn iter_count(&self) -> usize {
        unreachable!()
    }
    fn reserve(&self, n: usize) {
        if n % 2 == 0 { self.reserve_for::<PA>(n) } else { self.reserve_for::<PB>(n) }
    }
    fn shrink(&self) {
        self.shrink_to_fit();
    }
    fn check_u(u: &Self::U) -> (u32, bool) {
        match u {
            BU::A(h) => h.deref().check(),
            BU::B(h) => h.deref().check(),
        }
    }
    fn check_s(s: &Self::S) -> (u32, bool) {
        match s {
            BS::A(h) => h.deref().check(),
            BS::B(h) => h.deref().check(),
        }
    }
    fn share(u: Self::U) -> Self::S {
        match u {
            BU::A(h) => BS::A(h.into_shared()),
            BU::B(h) => BS::B(h.into_shared()),
        }
    }
    fn clone_s(s: &Self::S) -> Self::S {
        match s {
            BS::A(h) => BS::A(h.clone()),
            BS::B(h) => BS::B(h.clone()),
        }
    }
    fn into_inner(u: Self::U) -> (u32, bool) {
        match u {
            BU::A(h) => finish_inner(h.into_inner()),
            BU::B(h) => finish_inner(h.into_inner()),
        }
    }
}

// ------------------------------------------------------------------------------------------------ driver

enum H<L: Pl> {
    U(u32, L::U),
    S(u32, L::S),
}

impl<L: Pl> H<L> {
    fn obj(&self) -> u32 {
        match self {
            H::U(o, _) | H::S(o, _) => *o,
        }
    }
}

fn read<L: Pl>(h: &H<L>, rng: &mut Rng) {
    let (id, ok) = match h {
        H::U(_, u) => L::check_u(u),
        H::S(_, s) => L::check_s(s),
    };
    let ok = ok && id == h.obj();
    if !ok || rng.chance(1, 4) {
        rec(json!({"ev":"read","op":"-","obj":h.obj(),"v": u8::from(ok)}));
    }
}

fn drop_handle<L: Pl>(h: H<L>) {
    rec(json!({"ev":"inv","op":"drop","obj":h.obj()}));
    drop(h);
    rec(json!({"ev":"resp","op":"drop","obj":0,"v":0}));
}

fn worker<L: Pl>(t: u32, pool: L, ops: u64, seed: u64, gone: bool, exchange: Arc<Mutex<Vec<H<L>>>>) -> Vec<H<L>> {
    TID.with(|c| c.set(t));
    let mut rng = Rng::new(seed ^ (u64::from(t) << 32) ^ 0x5151);
    let mut pool = Some(pool);
    let mut hs: Vec<H<L>> = Vec::new();
    for k in 0..ops {
        if gone && k == ops / 2 {
            pool = None; // this thread's pool value is dropped while handles are alive
        }
        if rng.chance(1, 3) {
            std::thread::yield_now();
        }
        let pick = rng.below(100);
        match pick {
            0..=24 => {
                if let Some(p) = &pool {
                    let id = NEXT_OBJ.fetch_add(1, Ordering::SeqCst);
                    let with = rng.chance(1, 5);
                    rec(json!({"ev":"inv","op": if with {"insert_with"} else {"insert"},"obj":id}));
                    let u = p.insert(id, with);
                    rec(json!({"ev":"resp","op":"insert","obj":id,"v":0}));
                    hs.push(H::U(id, u));
                }
            }
            25..=44 => {
                if !hs.is_empty() {
                    let i = rng.below(hs.len() as u64) as usize;
                    let h = hs.swap_remove(i);
                    read(&h, &mut rng);
                    drop_handle(h);
                }
            }
            45..=54 => {
                // clone a shared handle
                if let Some(i) = (0..hs.len()).find(|i| matches!(hs[*i], H::S(..))) {
                    if let H::S(o, s) = &hs[i] {
                        let c = L::clone_s(s);
                        rec(json!({"ev":"clone","op":"clone","obj":*o,"v":0}));
                        hs.push(H::S(*o, c));
                    }
                }
            }
            55..=61 => {
                // unique -> shared (no new handle, the same one changes kind)
                if let Some(i) = (0..hs.len()).find(|i| matches!(hs[*i], H::U(..))) {
                    if let H::U(o, u) = hs.swap_remove(i) {
                        hs.push(H::S(o, L::share(u)));
                    }
                }
            }
            62..=66 => {
                if let Some(i) = (0..hs.len()).rev().find(|i| matches!(hs[*i], H::U(..))) {
                    if let H::U(o, u) = hs.swap_remove(i) {
                        rec(json!({"ev":"inv","op":"into_inner","obj":o}));
                        let (id, ok) = L::into_inner(u);
                        rec(json!({"ev":"resp","op":"into_inner","obj":o,"v": u8::from(ok && id == o)}));
                    }
                }
            }
            67..=74 => {
                if let Some(p) = &pool {
                    rec(json!({"ev":"inv","op":"len","obj":0}));
                    let v = p.len();
                    rec(json!({"ev":"resp","op":"len","obj":0,"v":v}));
                }
            }
            75..=79 => {
                if let (Some(p), true) = (&pool, L::HAS_ITER) {
                    rec(json!({"ev":"inv","op":"iter","obj":0}));
                    let v = p.iter_count();
                    rec(json!({"ev":"resp","op":"iter","obj":0,"v":v}));
                }
            }
            80..=83 => {
                if let Some(p) = &pool {
                    let n = 1 + rng.below(4) as usize;
                    rec(json!({"ev":"inv","op":"reserve","obj":0}));
                    p.reserve(n);
                    rec(json!({"ev":"resp","op":"reserve","obj":0,"v":0}));
                }
            }
            84..=88 => {
                if let Some(p) = &pool {
                    rec(json!({"ev":"inv","op":"shrink","obj":0}));
                    p.shrink();
                    rec(json!({"ev":"resp","op":"shrink","obj":0,"v":0}));
                }
            }
            89..=94 => {
                // hand a handle to another thread / take one
                if rng.chance(1, 2) {
                    if !hs.is_empty() {
                        let i = rng.below(hs.len() as u64) as usize;
                        let h = hs.swap_remove(i);
                        exchange.lock().unwrap().push(h);
                    }
                } else if let Some(h) = exchange.lock().unwrap().pop() {
                    hs.push(h);
                }
            }
            _ => {
                if !hs.is_empty() {
                    let i = rng.below(hs.len() as u64) as usize;
                    read(&hs[i], &mut rng);
                }
            }
        }
        // keep the number of live objects per thread bounded so that slabs are reused and truncated
        while hs.len() > 6 {
            let h = hs.swap_remove(0);
            drop_handle(h);
        }
    }
    drop(pool);
    hs
}

fn run<L: Pl>(threads: u32, ops: u64, slabcap: usize, gone: bool, out: &str) {
    OUT.set(out.to_string()).expect("set once");
    verif::set_slab_capacity_override(NonZero::new(slabcap));
    verif::set_event_callback(Some(on_event));
    std::panic::set_hook(Box::new(|info| {
        let msg = info.payload().downcast_ref::<&str>().map(|s| (*s).to_string())
            .or_else(|| info.payload().downcast_ref::<String>().cloned()).unwrap_or_default();
        rec(json!({"ev":"oppanic","op":"-","obj":0,"v":0,"msg":msg.chars().take(160).collect::<String>()}));
        // a panic of the code under test ends the run: keep what was recorded (unwinding through more handle
        // drops could abort the process and lose the trace)
        dump();
        // SAFETY: plain process exit.
        unsafe { libc::_exit(0) };
    }));
    let seed = vrt::seed_from_env();
    let pool = L::new();
    let exchange: Arc<Mutex<Vec<H<L>>>> = Arc::new(Mutex::new(Vec::new()));
    let mut joins = Vec::new();
    for t in 1..=threads {
        let (p, ex) = (pool.clone(), exchange.clone());
        joins.push(std::thread::spawn(move || worker::<L>(t, p, ops, seed, gone, ex)));
    }
    let mut pool = Some(pool);
    if gone {
        pool = None;
    }
    let mut left: Vec<H<L>> = Vec::new();
    for j in joins {
        match j.join() {
            Ok(hs) => left.extend(hs),
            Err(_) => rec(json!({"ev":"oppanic","op":"-","obj":0,"v":0,"msg":"worker thread died"})),
        }
    }
    left.extend(std::mem::take(&mut *exchange.lock().unwrap()));
    // quiescent: every thread has joined
    match &pool {
        Some(p) => {
            let v = p.len();
            rec(json!({"ev":"quiet","op":"len","obj":0,"v":v}));
        }
        None => rec(json!({"ev":"quiet","op":"nopool","obj":0,"v":0})),
    }
    for h in left {
        read(&h, &mut Rng::new(1));
        drop_handle(h);
    }
    match &pool {
        Some(p) => {
            let v = p.len();
            rec(json!({"ev":"quiet","op":"len","obj":0,"v":v}));
        }
        None => rec(json!({"ev":"quiet","op":"nopool","obj":0,"v":0})),
    }
    drop(pool);
    dump();
}

/// mt-burst <threads> <rounds> <out>: every round a FRESH BlindPool; all threads insert their first object - of the same,
/// so far unseen layout - at the same instant (spinning rendezvous), keep the handle, meet again; the main thread then
/// notes len(), how many handles still read their own intact object and how many destructors have run already (none may
/// have), the handles are dropped and len() is noted again.  One record per round; hook H1's callback is not installed.
pub fn burst(args: &[String]) {
    use std::sync::atomic::AtomicUsize;
    let (threads, rounds, out): (usize, usize, &String) = (args[0].parse().unwrap(), args[1].parse().unwrap(), &args[2]);
    let budget = std::time::Duration::from_secs(args.get(3).and_then(|s| s.parse().ok()).unwrap_or(20));
    let t0 = std::time::Instant::now();
    BURST.store(true, Ordering::SeqCst);
    let tr = Tracer::create(out);
    tr.emit(&json!({"ev":"reset","idx":0,"mode":"burst","threads":threads}));
    let slot: Arc<Mutex<Option<BlindPool>>> = Arc::new(Mutex::new(None));
    let phase = Arc::new(AtomicUsize::new(0));       // 3 * round + {1: pool published, 2: go, 3: drop}
    let arrived = Arc::new(AtomicUsize::new(0));
    let intact = Arc::new(AtomicUsize::new(0));
    let mut hs = Vec::new();
    for w in 0..threads {
        let (slot, phase, arrived, intact) = (slot.clone(), phase.clone(), arrived.clone(), intact.clone());
        hs.push(std::thread::spawn(move || {
            for r in 0..rounds {
                while phase.load(Ordering::SeqCst) < 3 * r + 1 {
                    if phase.load(Ordering::SeqCst) == usize::MAX {
                        return;
                    }
                    std::thread::yield_now();
                }
                if phase.load(Ordering::SeqCst) == usize::MAX {
                    return;
                }
                let pool = slot.lock().unwrap().as_ref().unwrap().clone();
                arrived.fetch_add(1, Ordering::SeqCst);
                while phase.load(Ordering::SeqCst) < 3 * r + 2 {
                    std::hint::spin_loop();
                }
                let id = (r * threads + w) as u32 + 1;
                // a panic of the code under test must not strand the rendezvous: it is counted and the round goes on
                let pool2 = pool.clone();
                let h = vrt::catch(move || BlindPool::insert(&pool2, PB::new(id))).ok();
                arrived.fetch_add(1, Ordering::SeqCst);
                while phase.load(Ordering::SeqCst) < 3 * r + 3 {
                    if phase.load(Ordering::SeqCst) == usize::MAX {
                        return;
                    }
                    std::thread::yield_now();
                }
                let intact2 = intact.clone();
                let _ = vrt::catch(move || {
                    if let Some(h) = h {
                        let (got, ok) = h.deref().check();
                        if got == id && ok {
                            intact2.fetch_add(1, Ordering::SeqCst);
                        }
                        drop(h);
                    }
                    drop(pool);
                });
                arrived.fetch_add(1, Ordering::SeqCst);
            }
        }));
    }
    for r in 0..rounds {
        if t0.elapsed() > budget {
            break;
        }
        let mut stuck = false;
        let pool = BlindPool::new();
        *slot.lock().unwrap() = Some(pool.clone());
        arrived.store(0, Ordering::SeqCst);
        intact.store(0, Ordering::SeqCst);
        BURST_DTORS.store(0, Ordering::SeqCst);
        phase.store(3 * r + 1, Ordering::SeqCst);
        let wait0 = std::time::Instant::now();
        while arrived.load(Ordering::SeqCst) < threads && wait0.elapsed().as_secs() < 8 {
            std::thread::yield_now();
        }
        stuck |= arrived.load(Ordering::SeqCst) < threads;
        phase.store(3 * r + 2, Ordering::SeqCst);
        let wait0 = std::time::Instant::now();
        while arrived.load(Ordering::SeqCst) < 2 * threads && wait0.elapsed().as_secs() < 8 {
            std::thread::yield_now();
        }
        stuck |= arrived.load(Ordering::SeqCst) < 2 * threads;
        let len = vrt::catch(|| pool.len()).unwrap_or(usize::MAX >> 40);
        let early = BURST_DTORS.load(Ordering::SeqCst);
        phase.store(3 * r + 3, Ordering::SeqCst);
        let wait0 = std::time::Instant::now();
        while arrived.load(Ordering::SeqCst) < 3 * threads && wait0.elapsed().as_secs() < 8 {
            std::thread::yield_now();
        }
        stuck |= arrived.load(Ordering::SeqCst) < 3 * threads;
        let after = vrt::catch(|| pool.len()).unwrap_or(usize::MAX >> 40);
        let dtors = BURST_DTORS.load(Ordering::SeqCst);
        tr.emit(&json!({"ev":"burst","n":threads,"len":len,"early":early,"intact":intact.load(Ordering::SeqCst),"after":after,"dtors":dtors,"round":r,"stuck":stuck}));
        *slot.lock().unwrap() = None;
        if stuck {
            // a thread hangs inside the code under test: the round is recorded (and rejected); leave without joining
            tr.flush();
            std::process::exit(0);
        }
    }
    phase.store(usize::MAX, Ordering::SeqCst);
    for h in hs {
        h.join().expect("burst thread");
    }
    tr.flush();
}

pub fn main(args: &[String]) {
    let (pool, threads, ops, slabcap, variant, out) =
        (&args[0], args[1].parse().unwrap(), args[2].parse().unwrap(), args[3].parse().unwrap(), &args[4], &args[5]);
    let gone = variant == "poolgone";
    match pool.as_str() {
        "OpaquePool" => run::<OpaquePool>(threads, ops, slabcap, gone, out),
        "PinnedPool" => run::<PinnedPool<PB>>(threads, ops, slabcap, gone, out),
        "BlindPool" => run::<BlindPool>(threads, ops, slabcap, gone, out),
        x => {
            eprintln!("unknown pool {x}");
            std::process::exit(2);
        }
    }
}
