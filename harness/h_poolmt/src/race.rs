//! `h_poolmt dtor-race <out.ndjson> <secs>`: C04 on the thread-safe pools with other threads present.
//!
//! One thread keeps inserting objects whose destructor panics and drops their handles (the panic is caught and counted: the
//! drop must terminate by propagating it).  Meanwhile observer threads call `len()` on clones of the pool and a second writer
//! inserts and drops harmless objects.  "No operation panics or blocks because of the earlier event" holds for operations
//! of OTHER threads as much as for later operations of the same thread.  One `dtorrace` record per pool type.
use std::sync::atomic::{AtomicBool, AtomicU64, Ordering};
use std::sync::Arc;
use std::time::{Duration, Instant};

use infinity_pool::{BlindPool, OpaquePool, PinnedPool};
use vrt::{json, Tracer};

#[allow(dead_code)]
struct Bomb(u64, bool);
impl Drop for Bomb {
    fn drop(&mut self) {
        if self.1 {
            panic!("scripted destructor panic");
        }
    }
}

trait RP: Clone + Send + Sync + 'static {
    const NAME: &'static str;
    fn new() -> Self;
    fn len(&self) -> usize;
    /// insert an object and drop its handle
    fn cycle(&self, id: u64, armed: bool);
}
impl RP for OpaquePool {
    const NAME: &'static str = "OpaquePool";
    fn new() -> Self {
        OpaquePool::with_layout_of::<Bomb>()
    }
    fn len(&self) -> usize {
        OpaquePool::len(self)
    }
    fn cycle(&self, id: u64, armed: bool) {
        drop(OpaquePool::insert(self, Bomb(id, armed)));
    }
}
impl RP for PinnedPool<Bomb> {
    const NAME: &'static str = "PinnedPool";
    fn new() -> Self {
        PinnedPool::new()
    }
    fn len(&self) -> usize {
        PinnedPool::len(self)
    }
    fn cycle(&self, id: u64, armed: bool) {
        drop(PinnedPool::insert(self, Bomb(id, armed)));
    }
}
impl RP for BlindPool {
    const NAME: &'static str = "BlindPool";
    fn new() -> Self {
        BlindPool::new()
    }
    fn len(&self) -> usize {
        BlindPool::len(self)
    }
    fn cycle(&self, id: u64, armed: bool) {
        drop(BlindPool::insert(self, Bomb(id, armed)));
    }
}

fn one<L: RP>(tr: &Tracer, budget: Duration, shared_handles: bool) {
    let pool = L::new();
    let stop = Arc::new(AtomicBool::new(false));
    let (bombs, bomb_panics, obs_calls, obs_panics, wr_calls, wr_panics, wrong_len) = (
        Arc::new(AtomicU64::new(0)), Arc::new(AtomicU64::new(0)), Arc::new(AtomicU64::new(0)), Arc::new(AtomicU64::new(0)),
        Arc::new(AtomicU64::new(0)), Arc::new(AtomicU64::new(0)), Arc::new(AtomicU64::new(0)));
    let mut hs = Vec::new();
    for _ in 0..3 {
        let (p, stop, c, f, w) = (pool.clone(), stop.clone(), obs_calls.clone(), obs_panics.clone(), wrong_len.clone());
        hs.push(std::thread::spawn(move || {
            while !stop.load(Ordering::Relaxed) {
                let p2 = p.clone();
                match vrt::catch(move || p2.len()) {
                    // at most the bomber's and the writer's object are alive at any time
                    Ok(n) => {
                        if n > 2 {
                            w.fetch_add(1, Ordering::Relaxed);
                        }
                    }
                    Err(_) => {
                        f.fetch_add(1, Ordering::Relaxed);
                    }
                }
                c.fetch_add(1, Ordering::Relaxed);
            }
        }));
    }
    {
        let (p, stop, c, f) = (pool.clone(), stop.clone(), wr_calls.clone(), wr_panics.clone());
        hs.push(std::thread::spawn(move || {
            let mut id = 1u64 << 40;
            while !stop.load(Ordering::Relaxed) {
                let p2 = p.clone();
                id += 1;
                if vrt::catch(move || p2.cycle(id, false)).is_err() {
                    f.fetch_add(1, Ordering::Relaxed);
                }
                c.fetch_add(1, Ordering::Relaxed);
            }
        }));
    }
    let t0 = Instant::now();
    let mut id = 0u64;
    let mut bad = 0u64;
    while t0.elapsed() < budget && bad == 0 {
        for _ in 0..64 {
            id += 1;
            let p2 = pool.clone();
            bombs.fetch_add(1, Ordering::Relaxed);
            if vrt::catch(move || p2.cycle(id, true)).is_err() {
                bomb_panics.fetch_add(1, Ordering::Relaxed);
            }
        }
        bad = obs_panics.load(Ordering::Relaxed) + wr_panics.load(Ordering::Relaxed) + wrong_len.load(Ordering::Relaxed);
    }
    stop.store(true, Ordering::SeqCst);
    let mut joined = 0;
    for h in hs {
        joined += u32::from(h.join().is_ok());
    }
    let p2 = pool.clone();
    let final_len = vrt::catch(move || p2.len()).map(|n| n as i64).unwrap_or(-1);
    let p2 = pool.clone();
    let final_cycle = i32::from(vrt::catch(move || p2.cycle(0, false)).is_ok());
    let _ = shared_handles;
    tr.emit(&json!({"ev":"dtorrace","pool":L::NAME,"bombs":bombs.load(Ordering::SeqCst).min(2_000_000_000),
        "bomb_panics":bomb_panics.load(Ordering::SeqCst).min(2_000_000_000),
        "obs_calls":obs_calls.load(Ordering::SeqCst).min(2_000_000_000),"obs_panics":obs_panics.load(Ordering::SeqCst).min(2_000_000_000),
        "wr_calls":wr_calls.load(Ordering::SeqCst).min(2_000_000_000),"wr_panics":wr_panics.load(Ordering::SeqCst).min(2_000_000_000),
        "wrong_len":wrong_len.load(Ordering::SeqCst).min(2_000_000_000),"joined":joined,"final_len":final_len,"final_cycle":final_cycle}));
}

pub fn main(args: &[String]) {
    let out = &args[0];
    let secs: f64 = args.get(1).and_then(|s| s.parse().ok()).unwrap_or(3.0);
    std::panic::set_hook(Box::new(|_| {}));
    let tr = Tracer::create(out);
    tr.emit(&json!({"ev":"reset","idx":0,"mode":"dtorrace"}));
    let b = Duration::from_secs_f64(secs);
    one::<OpaquePool>(&tr, b, false);
    one::<PinnedPool<Bomb>>(&tr, b, false);
    one::<BlindPool>(&tr, b, false);
    tr.flush();
}
