//! Real two-thread programs that reach ONE `Cell<u8>` payload from two threads at the same time, for every handle
//! type whose measured impls let such a program compile. Safe code for the managed handles; for the raw handles the
//! only `unsafe` is `as_ref()`, whose documented contract (the pool is alive) is met.
//!
//! The programs are selected at compile time by the same inherent-over-trait shadowing as the probe, so this file
//! builds whatever the impls are: if a handle type stops being `Sync` (or `Send + Clone`) for a `!Sync` payload, the
//! corresponding demo is reported as `"compiles": false` instead of breaking the build.
//!
//! No data race is executed: thread A writes through its `&Cell` before a barrier, thread B reads through its own
//! `&Cell` after it, and both references are alive across the barrier. What is demonstrated is that the type system
//! let a `!Sync` object be shared.
use std::cell::Cell;
use std::ops::Deref;
use std::sync::Barrier;
use std::thread;

use infinity_pool::{BlindPool, OpaquePool, PinnedPool, RawOpaquePool, RawPooled, define_pooled_dyn_cast};
use vrt::{json, Tracer, Value};

use crate::probe::{Tr, SN};

define_pooled_dyn_cast!(Tr);

fn tid() -> u64 {
    // SAFETY: gettid has no preconditions.
    (unsafe { libc::syscall(libc::SYS_gettid) }) as u64
}

/// thread A: set(7) then barrier; thread B: barrier then get(). Both hold `&Cell` obtained through `get` at the barrier.
fn two_threads<H: Sync + ?Sized>(h: &H, get: impl Fn(&H) -> &Cell<u8> + Sync) -> Value {
    let bar = Barrier::new(2);
    let (a, b) = thread::scope(|s| {
        let tb = s.spawn(|| {
            let c: &Cell<u8> = get(h);
            let addr = c as *const Cell<u8> as usize;
            bar.wait();
            let seen = c.get();
            bar.wait();
            (tid(), addr, seen)
        });
        let c: &Cell<u8> = get(h);
        let addr = c as *const Cell<u8> as usize;
        c.set(7);
        bar.wait();
        bar.wait();
        ((tid(), addr), tb.join().unwrap())
    });
    json!({"compiles": true, "threads": [a.0, b.0], "distinct_threads": a.0 != b.0, "same_payload_address": a.1 == b.1,
           "written_by_first": 7, "read_by_second": b.2})
}

// ---- via `&handle` (needs Handle: Sync) -------------------------------------------------------------------
pub struct ViaSync<'a, H: ?Sized>(pub &'a H);
#[allow(dead_code)]
pub trait NoViaSync {
    fn run(&self) -> Value {
        json!({"compiles": false})
    }
}
impl<H: ?Sized> NoViaSync for ViaSync<'_, H> {}
impl<H: ?Sized + Sync + Deref<Target = Cell<u8>>> ViaSync<'_, H> {
    pub fn run(&self) -> Value {
        two_threads(self.0, |h| &**h)
    }
}

pub struct ViaSyncDyn<'a, H: ?Sized>(pub &'a H);
#[allow(dead_code)]
pub trait NoViaSyncDyn {
    fn run(&self) -> Value {
        json!({"compiles": false})
    }
}
impl<H: ?Sized> NoViaSyncDyn for ViaSyncDyn<'_, H> {}
impl<H: ?Sized + Sync + Deref<Target = dyn Tr>> ViaSyncDyn<'_, H> {
    /// the payload is a Cell<u8> behind `dyn Tr`; `poke` increments it: one poke per thread, barrier in between
    pub fn run(&self) -> Value {
        let bar = Barrier::new(2);
        let h = self.0;
        let (a, b) = thread::scope(|s| {
            let tb = s.spawn(|| {
                let t: &dyn Tr = &**h;
                bar.wait();
                let v = t.poke();
                bar.wait();
                (tid(), v)
            });
            let t: &dyn Tr = &**h;
            let v = t.poke();
            bar.wait();
            bar.wait();
            ((tid(), v), tb.join().unwrap())
        });
        json!({"compiles": true, "threads": [a.0, b.0], "distinct_threads": a.0 != b.0,
               "poke_first": a.1, "poke_second": b.1, "same_payload": b.1 == a.1 + 1})
    }
}

// ---- via clone + move (needs Handle: Send + Clone) ----------------------------------------------------------
pub struct ViaClone<'a, H>(pub &'a H);
#[allow(dead_code)]
pub trait NoViaClone {
    fn run(&self) -> Value {
        json!({"compiles": false})
    }
}
impl<H> NoViaClone for ViaClone<'_, H> {}
impl<H: Send + Clone + Deref<Target = Cell<u8>>> ViaClone<'_, H> {
    pub fn run(&self) -> Value {
        let bar = Barrier::new(2);
        let mine = self.0.clone();
        let theirs = self.0.clone();
        let (a, b) = thread::scope(|s| {
            let bar = &bar;
            let tb = s.spawn(move || {
                let c: &Cell<u8> = &theirs;
                let addr = c as *const Cell<u8> as usize;
                bar.wait();
                let seen = c.get();
                bar.wait();
                (tid(), addr, seen)
            });
            let c: &Cell<u8> = &mine;
            let addr = c as *const Cell<u8> as usize;
            c.set(9);
            bar.wait();
            bar.wait();
            ((tid(), addr), tb.join().unwrap())
        });
        json!({"compiles": true, "threads": [a.0, b.0], "distinct_threads": a.0 != b.0, "same_payload_address": a.1 == b.1,
               "written_by_first": 9, "read_by_second": b.2})
    }
}

// ---- raw handles: `as_ref` (unsafe, liveness-only contract) through `&handle` (needs Handle: Sync) ----------
pub struct ViaRaw<'a, H>(pub &'a H);
#[allow(dead_code)]
pub trait NoViaRaw {
    fn run(&self) -> Value {
        json!({"compiles": false})
    }
}
impl<H> NoViaRaw for ViaRaw<'_, H> {}
impl ViaRaw<'_, RawPooled<SN>>
where
    RawPooled<SN>: Sync,
{
    pub fn run(&self) -> Value {
        // SAFETY (as_ref): the pool outlives this call (see main); that is the whole documented contract.
        two_threads(self.0, |h| unsafe { h.as_ref() })
    }
}

pub fn main(out: &str) {
    let tr = Tracer::create(out);
    let rec = |h: &str, pc: &str, via: &str, v: Value| {
        let mut o = json!({"h": h, "pc": pc, "via": via});
        for (k, x) in v.as_object().unwrap() {
            o[k] = x.clone();
        }
        tr.emit(&o);
    };

    let opaque = OpaquePool::with_layout_of::<SN>();
    let pinned = PinnedPool::<SN>::new();
    let blind = BlindPool::new();

    // unique handles, shared by reference
    let h = opaque.insert(Cell::new(0u8));
    rec("PooledMut", "SN", "&handle (Sync)", ViaSync(&h).run());
    let h = pinned.insert(Cell::new(0u8));
    rec("PooledMut(PinnedPool)", "SN", "&handle (Sync)", ViaSync(&h).run());
    let h = blind.insert(Cell::new(0u8));
    rec("BlindPooledMut", "SN", "&handle (Sync)", ViaSync(&h).run());

    // shared handles: by reference, and by clone + move
    let h = opaque.insert(Cell::new(0u8)).into_shared();
    rec("Pooled", "SN", "&handle (Sync)", ViaSync(&h).run());
    rec("Pooled", "SN", "clone + move (Send + Clone)", ViaClone(&h).run());
    let h = blind.insert(Cell::new(0u8)).into_shared();
    rec("BlindPooled", "SN", "&handle (Sync)", ViaSync(&h).run());
    rec("BlindPooled", "SN", "clone + move (Send + Clone)", ViaClone(&h).run());

    // trait-object view of a !Sync payload
    let h = opaque.insert(Cell::new(0u8)).into_shared().cast_tr();
    rec("Pooled<dyn Tr>", "SN", "&handle (Sync)", ViaSyncDyn(&h).run());
    let h = blind.insert(Cell::new(0u8)).cast_tr();
    rec("BlindPooledMut<dyn Tr>", "SN", "&handle (Sync)", ViaSyncDyn(&h).run());

    // raw handle: contract access
    let mut raw = RawOpaquePool::with_layout_of::<SN>();
    let h = raw.insert(Cell::new(0u8)).into_shared();
    rec("RawPooled", "SN", "&handle (Sync) + as_ref", ViaRaw(&h).run());
    // SAFETY: the handle is valid and the object still in the pool.
    unsafe { raw.remove(h) };
    tr.flush();
}
