//! Harness for C20: replays samples enumerated by TLC (every weak order, every split; Benjamini-Hochberg families) and
//! seeded random ones into the real `cbh_stats` functions and records the results as ndjson for
//! `spec/stats/Trace_RankStats.tla` to judge.  Nothing is decided here.
//!
//! Real-valued results are logged as integers so that TLC can compare them with exact rationals:
//!   nr(v, D)   -> [round(v*D), round((v*D - round(v*D)) * 1e12)]      (the judge knows the exact value of v*D)
//!   phl(p)     -> [hi, lo] with round(p * 1e18) = hi * 1e9 + lo, or [-1, -1] if p is not a finite number in [0, 1]
use std::env;
use std::num::NonZero;

use cbh_stats::{
    MannWhitneyU, SelectionCalibration, benjamini_hochberg, mann_kendall, mann_whitney_superiority, mann_whitney_u_pvalue,
    median, pettitt, selection_adjusted_change_point, student_t_two_sided_p, theil_sen_line,
};
use vrt::{Rng, Tracer, Value, json};

const FLAG: i64 = 2_000_000_000;

fn nr(v: f64, den: f64) -> (i64, i64) {
    let s = v * den;
    if !s.is_finite() || s.abs() > 1.0e9 {
        return (FLAG, 0);
    }
    let num = s.round();
    let res = ((s - num) * 1.0e12).round().clamp(-1.9e9, 1.9e9);
    (num as i64, res as i64)
}

fn phl(p: f64) -> (i64, i64) {
    if !p.is_finite() || !(0.0..=1.0).contains(&p) {
        return (-1, -1);
    }
    let units = (p * 1.0e18).round() as u128;
    ((units / 1_000_000_000) as i64, (units % 1_000_000_000) as i64)
}

fn binom(n: usize, k: usize) -> f64 {
    let mut c = 1.0_f64;
    for i in 1..=k {
        c = c * (n - k + i) as f64 / i as f64;
    }
    c.round()
}

fn gcd(a: u64, b: u64) -> u64 {
    if b == 0 { a } else { gcd(b, a % b) }
}

fn lcm_up_to(k: u64) -> u64 {
    (1..=k.max(1)).fold(1, |l, i| l / gcd(l, i) * i)
}

/// strictly increasing maps from the small integers of a sample to f64
const RANK_EMBS: [&str; 6] = ["id", "neg", "big", "tiny", "offs", "mix"];
const MIX: [f64; 8] = [-1.7e308, -1.0, -5e-324, 0.0, 5e-324, 1.0, 1.7e308, f64::MAX];

fn embed(name: &str, v: i64) -> Option<f64> {
    let f = v as f64;
    Some(match name {
        "id" => f,
        "neg" => f - 10.0,
        "big" => f * 1.0e300,
        "tiny" => f * 5e-324,
        "offs" => 1.0e15 + f,
        "mix" => {
            if (1..=8).contains(&v) {
                MIX[(v - 1) as usize]
            } else {
                return None;
            }
        }
        _ => return None,
    })
}

fn embed_all(name: &str, x: &[i64]) -> Option<Vec<f64>> {
    x.iter().map(|v| embed(name, *v)).collect()
}

const AFF: [(i64, i64); 3] = [(1, 0), (1, -10), (3, -7)];
/// (exponent, shift): the sample x (integers 1..=7) is replayed as (x + shift) * 2^exponent, exactly.  With (1020, 8) every
/// value lies in [9, 15] * 2^1020 < f64::MAX = (2 - 2^-52) * 2^1023 and the SUM of any two values exceeds f64::MAX while
/// their mean does not; (-1070, 0) puts the sample among the subnormals.
const BIG_EXPS: [(i32, i64); 2] = [(1020, 8), (-1070, 0)];

/// exact 2^e for -1074 <= e <= 1023
fn pow2(e: i32) -> f64 {
    if e >= -1022 {
        f64::from_bits(((e + 1023) as u64) << 52)
    } else {
        f64::from_bits(1u64 << (e + 1074))
    }
}

fn calibration() -> SelectionCalibration {
    SelectionCalibration {
        permutation_order_budget: NonZero::new(720).expect("nonzero"),
        analytic_weight: 0.1,
        accept_analytic_below: f64::MIN_POSITIVE,
        reject_at_or_above: 1.0,
    }
}

/// the calibration that isolates the permutation component: a vanishing analytic weight makes the analytic component 1
fn calibration_perm() -> SelectionCalibration {
    SelectionCalibration {
        permutation_order_budget: NonZero::new(50_000).expect("nonzero"),
        analytic_weight: 1e-10,
        accept_analytic_below: f64::MIN_POSITIVE,
        reject_at_or_above: 1.0,
    }
}

thread_local! {
    /// every PERM_EVERY-th sample of 6 points gets the permutation-component rows (all smaller samples do)
    static PERM_EVERY: std::cell::Cell<u64> = const { std::cell::Cell::new(40) };
    static PERM_SEEN: std::cell::Cell<u64> = const { std::cell::Cell::new(0) };
}

/// number of distinct orderings of the sample: n! / prod(c_i!)
fn orbit_order(x: &[i64]) -> f64 {
    let fact = |k: usize| (1..=k).map(|i| i as f64).product::<f64>();
    let mut d = fact(x.len());
    let mut seen: Vec<i64> = vec![];
    for v in x {
        if !seen.contains(v) {
            seen.push(*v);
            d /= fact(x.iter().filter(|w| *w == v).count());
        }
    }
    d
}

fn as_int(v: f64, frac: &mut u32) -> i64 {
    if v.is_finite() && v.fract() == 0.0 && v.abs() < 1.0e9 {
        v as i64
    } else {
        *frac += 1;
        FLAG
    }
}

fn seq_record(x: &[i64]) -> Value {
    let vals: Vec<Vec<f64>> = RANK_EMBS.iter().filter_map(|name| embed_all(name, x)).collect();
    seq_record_of(x, &vals, true)
}

/// equal values of x mapped alternately to +0.0 and -0.0 (numerically still a tie), the other values to w - c:
/// None if x has no tie
fn signed_zero(x: &[i64]) -> Option<Vec<f64>> {
    let c = *x.iter().filter(|w| x.iter().filter(|u| u == w).count() >= 2).min()?;
    let mut flip = false;
    Some(
        x.iter()
            .map(|w| {
                if *w == c {
                    flip = !flip;
                    if flip { 0.0 } else { -0.0 }
                } else {
                    (*w - c) as f64
                }
            })
            .collect(),
    )
}

fn seq_record_of(x: &[i64], vals: &[Vec<f64>], with_aff: bool) -> Value {
    let n = x.len();
    let mut frac = 0u32;
    let mut rank_rows = vec![];
    let mut p_rows = vec![];
    let mut perm_rows = vec![];
    let want_perm = with_aff && n >= 2 && (n <= 5 || (n == 6 && PERM_SEEN.with(|c| {
        c.set(c.get() + 1);
        c.get() % PERM_EVERY.with(std::cell::Cell::get) == 0
    })));
    for v in vals {
        let v = v.clone();
        let pet = pettitt(&v);
        let mk = mann_kendall(&v);
        let sel = vrt::catch(|| selection_adjusted_change_point(&v, 1, calibration())).unwrap_or_else(|_| {
            frac += 1000;
            None
        });
        let (ps, pi, pk, pp) = match pet {
            Some(c) => (1, c.index as i64, as_int(c.k_statistic, &mut frac), phl(c.p_value)),
            None => (0, 0, 0, (0, 0)),
        };
        let (ss, si, tp, sup, tpp, adj) = match sel {
            Some(s) => {
                let small = s.index.min(n - s.index);
                (1, s.index as i64, nr(s.tainted_p, binom(n, small)), nr(s.superiority, (2 * s.index * (n - s.index)) as f64),
                 phl(s.tainted_p), phl(s.adjusted_p))
            }
            None => (0, 0, (0, 0), (0, 0), (0, 0), (0, 0)),
        };
        rank_rows.push(json!([ps, pi, pk, as_int(mk.s, &mut frac), ss, si, tp.0, tp.1, sup.0, sup.1]));
        if want_perm {
            // adjusted p under the permutation-only calibration, as a multiple of 1 / (number of distinct orderings)
            let d = orbit_order(x);
            let row = match vrt::catch(|| selection_adjusted_change_point(&v, 1, calibration_perm())) {
                Ok(Some(sp)) => {
                    let a = nr(sp.adjusted_p, d);
                    json!([1, a.0, a.1, i32::from(sp.adjusted_p == sp.tainted_p), d as i64])
                }
                Ok(None) => json!([0, 0, 0, 0, d as i64]),
                Err(_) => json!([-1, 0, 0, 0, d as i64]),
            };
            perm_rows.push(row);
        }
        let mkp = phl(mk.p_value);
        p_rows.push(json!([pp.0, pp.1, mkp.0, mkp.1, tpp.0, tpp.1, adj.0, adj.1]));
    }
    let l = lcm_up_to(n.saturating_sub(1) as u64) as f64;
    let mut aff_rows = vec![];
    for (a, b) in AFF {
        if !with_aff {
            break;
        }
        let v: Vec<f64> = x.iter().map(|t| (a * t + b) as f64).collect();
        let (ts, sl, ic) = match theil_sen_line(&v) {
            Some((s, i)) => (1, nr(s, 2.0 * l), nr(i, 4.0 * l)),
            None => (0, (0, 0), (0, 0)),
        };
        let (ms, md) = match median(&v) {
            Some(m) => (1, nr(m, 2.0)),
            None => (0, (0, 0)),
        };
        aff_rows.push(json!([a, b, ts, sl.0, sl.1, ic.0, ic.1, ms, md.0, md.1]));
    }
    // medians of the sample scaled by 2^e (exact, order preserving; the largest values come within a factor 2 of f64::MAX, so the
    // sum of the two central values of an even-sized sample is not representable while their mean is); scaled back before logging
    let mut big_rows = vec![];
    for (e, shift) in BIG_EXPS {
        if !with_aff {
            break;
        }
        let sc = pow2(e);
        let v: Vec<f64> = x.iter().map(|t| ((*t + shift) as f64) * sc).collect();
        let (ms, md) = match median(&v) {
            Some(m) => (1, nr(m / sc - shift as f64, 2.0)),
            None => (0, (0, 0)),
        };
        big_rows.push(json!([e, ms, md.0, md.1]));
    }
    json!({"op":"seq","x":x,"rank":rank_rows,"pp":p_rows,"aff":aff_rows,"big":big_rows,"perm":perm_rows,"frac":frac})
}

fn split_record(x: &[i64], t: usize) -> Value {
    let vals: Vec<Vec<f64>> = RANK_EMBS.iter().filter_map(|name| embed_all(name, x)).collect();
    split_record_of(x, t, &vals)
}

fn split_record_of(x: &[i64], t: usize, vals: &[Vec<f64>]) -> Value {
    let n = x.len();
    let total = binom(n, t.min(n - t));
    let pairs2 = (2 * t * (n - t)) as f64;
    let mut rows = vec![];
    for v in vals {
        let (left, right) = v.split_at(t);
        let row = match (MannWhitneyU::new(left, right), MannWhitneyU::new(right, left)) {
            (Some(a), Some(b)) => {
                let p = nr(a.two_sided_p_value(), total);
                let s = nr(a.superiority(), pairs2);
                let sp = nr(b.two_sided_p_value(), total);
                let ss = nr(b.superiority(), pairs2);
                let cp = nr(mann_whitney_u_pvalue(left, right), total);
                let cs = nr(mann_whitney_superiority(left, right).unwrap_or(f64::NAN), pairs2);
                let hl = phl(a.two_sided_p_value());
                json!([1, p.0, p.1, s.0, s.1, sp.0, sp.1, ss.0, ss.1, cp.0, cp.1, cs.0, cs.1, hl.0, hl.1])
            }
            _ => json!([0, 0, 0, 0, 0, 0, 0, 0, 0, 0, 0, 0, 0, 0, 0]),
        };
        rows.push(row);
    }
    json!({"op":"split","x":x,"t":t,"r":rows})
}

fn ints(v: &Value) -> Vec<i64> {
    v.as_array().map(|a| a.iter().map(|e| e.as_i64().unwrap()).collect()).unwrap_or_default()
}

/// cases: {"x":[..]} as printed by MC_RankStats (RCASE)
fn cmd_ranks(cases: &str, out: &str) {
    if let Ok(k) = std::env::var("H_STATS_PERM_EVERY") {
        PERM_EVERY.with(|c| c.set(k.parse().expect("H_STATS_PERM_EVERY")));
    }
    let tr = Tracer::create(out);
    tr.emit(&json!({"op":"embs","rank":RANK_EMBS,"aff":AFF.iter().map(|(a, b)| vec![*a, *b]).collect::<Vec<_>>()}));
    let mut n = 0usize;
    for case in vrt::read_ndjson(cases) {
        let x = ints(&case["x"]);
        tr.emit(&seq_record(&x));
        n += 1;
        for t in 1..x.len() {
            tr.emit(&split_record(&x, t));
            n += 1;
        }
        // probe: +0.0 and -0.0 are equal numbers, i.e. a tie
        if x.len() <= 5 {
            if let Some(v) = signed_zero(&x) {
                let vals = vec![v];
                let mut rec = seq_record_of(&x, &vals, false);
                rec["tag"] = json!("signedzero");
                tr.emit(&rec);
                for t in 1..x.len() {
                    let mut rec = split_record_of(&x, t, &vals);
                    rec["tag"] = json!("signedzero");
                    tr.emit(&rec);
                }
            }
        }
    }
    // empty sides
    for (l, r) in [(0usize, 0usize), (0, 2), (3, 0)] {
        let left = vec![1.0; l];
        let right = vec![2.0; r];
        let some = i32::from(MannWhitneyU::new(&left, &right).is_some());
        let cp = phl(mann_whitney_u_pvalue(&left, &right));
        let cs = i32::from(mann_whitney_superiority(&left, &right).is_some());
        tr.emit(&json!({"op":"mwempty","l":l,"r":r,"some":some,"cp":[cp.0, cp.1],"cs_some":cs}));
    }
    println!("{}", json!({"records":n}));
}

/// cases: {"p":[[n,d]..],"q":[n,d],"m":m} as printed by MC_BH (BCASE)
fn cmd_bh(cases: &str, out: &str) {
    let tr = Tracer::create(out);
    let mut n = 0usize;
    for case in vrt::read_ndjson(cases) {
        let ps: Vec<f64> = case["p"].as_array().map(|a| a.iter().map(|r| r[0].as_f64().unwrap() / r[1].as_f64().unwrap()).collect()).unwrap_or_default();
        let q = case["q"][0].as_f64().unwrap() / case["q"][1].as_f64().unwrap();
        let m = case["m"].as_u64().unwrap() as usize;
        let rec = match vrt::catch(|| benjamini_hochberg(&ps, q, m)) {
            Ok(keep) => json!({"op":"bh","p":case["p"],"q":case["q"],"m":m,"panic":0,"keep":keep.iter().map(|k| i32::from(*k)).collect::<Vec<_>>()}),
            Err(_) => json!({"op":"bh","p":case["p"],"q":case["q"],"m":m,"panic":1,"keep":[]}),
        };
        tr.emit(&rec);
        n += 1;
    }
    println!("{}", json!({"records":n}));
}

/// seeded random samples beyond the exhaustive bound:
///  * lopsided splits of heavily tied series (exact path, judged exactly: the small side has <= 3 points)
///  * long series on the approximation paths: only the range of every p-value is judged
///  * Student t: monotone, symmetric, degenerate inputs
fn cmd_random(out: &str, n_lop: usize, n_long: usize) {
    let tr = Tracer::create(out);
    let mut rng = Rng::new(vrt::seed_from_env());
    let mut n = 0usize;
    for _ in 0..n_lop {
        let len = 8 + rng.below(17) as usize; // 8..24
        let levels = 1 + rng.below(6) as i64;
        let x: Vec<i64> = (0..len).map(|_| 1 + rng.below(levels as u64) as i64).collect();
        let small = 1 + rng.below(3) as usize;
        let t = if rng.chance(1, 2) { small } else { len - small };
        tr.emit(&split_record(&x, t));
        n += 1;
    }
    // Theil-Sen and the median beyond the exhaustive bound: 8..13 noisy points (28..78 pairwise slopes, even and odd counts,
    // longer than any small-slice special case of a sort or selection routine), judged exactly
    for k in 0..n_lop * 2 {
        let len = 8 + (k % 6);
        let drift = rng.below(5) as i64 - 2;
        let noise = 2 + rng.below(28);
        let x: Vec<i64> = (0..len).map(|j| 30 + drift * (j as i64) / 2 + rng.below(noise) as i64 - (noise as i64) / 2).collect();
        let mut frac = 0u32;
        let l = lcm_up_to(len as u64 - 1) as f64;
        let mut rows = vec![];
        for (a, b) in AFF {
            let v: Vec<f64> = x.iter().map(|t| (a * t + b) as f64).collect();
            let (ts, sl, ic) = match theil_sen_line(&v) {
                Some((s, i)) => (1, nr(s, 2.0 * l), nr(i, 4.0 * l)),
                None => (0, (0, 0), (0, 0)),
            };
            let (ms, md) = match median(&v) {
                Some(m) => (1, nr(m, 2.0)),
                None => (0, (0, 0)),
            };
            let mk = mann_kendall(&v);
            rows.push(json!([a, b, ts, sl.0, sl.1, ic.0, ic.1, ms, md.0, md.1, as_int(mk.s, &mut frac)]));
        }
        tr.emit(&json!({"op":"ts","x":x,"aff":rows,"frac":frac}));
        n += 1;
    }
    // Mann-Kendall on long block-structured series (closed-form S and variance; see Trace_RankStats mkb): 2..7 blocks, each
    // constant, strictly increasing or strictly decreasing, 300..4000 points in total, tie groups of up to thousands of points;
    // kept when the trend is moderate (the p-value is then neither 1 nor at the reportable floor)
    let mut kept = 0usize;
    let mut tries = 0usize;
    while kept < n_long && tries < 400_000 {
        tries += 1;
        let total = *rng.pick(&[300usize, 800, 1290, 1291, 1400, 1500, 2000, 2600, 3000, 4000]);
        let k = 2 + rng.below(6) as usize;
        // sizes: cut points; mirrored sizes keep S small
        let mut sizes: Vec<usize> = (0..k).map(|_| 1 + rng.below(100) as usize).collect();
        let sum: usize = sizes.iter().sum();
        for c in sizes.iter_mut() {
            *c = (*c * total / sum).max(1);
        }
        if rng.chance(2, 3) {
            for j in 0..k / 2 {
                sizes[k - 1 - j] = (sizes[j] + rng.below(9) as usize).max(1);
            }
        }
        let mut blocks: Vec<(usize, i64, i64)> = vec![];
        let mut odd = 1i64;
        for (j, c) in sizes.iter().enumerate() {
            let kind = match rng.below(4) { 0 => 1, 1 => -1, _ => 0 };
            let level = if kind == 0 {
                // mirrored levels for constant blocks
                if j >= k / 2 && rng.chance(2, 3) { blocks.get(k - 1 - j).filter(|b| b.2 == 0).map(|b| b.1).unwrap_or(2 * rng.below(4) as i64) } else { 2 * rng.below(4) as i64 }
            } else {
                let l = odd + 2 * rng.below(3) as i64;
                odd = l + 2;
                if rng.chance(1, 2) { l } else { -l }
            };
            blocks.push((*c, level, kind));
        }
        // levels of non-constant blocks must be unique
        let uniq = blocks.iter().enumerate().all(|(i, a)| blocks.iter().enumerate().all(|(j, b)| i == j || a.1 != b.1 || (a.2 == 0 && b.2 == 0)));
        if !uniq {
            continue;
        }
        let n_tot: usize = blocks.iter().map(|b| b.0).sum();
        let mut s_est = 0f64;
        for (j, b) in blocks.iter().enumerate() {
            s_est += b.2 as f64 * (b.0 * (b.0 - 1) / 2) as f64;
            for a in blocks.iter().take(j) {
                s_est += (a.0 * b.0) as f64 * ((b.1 - a.1).signum() as f64);
            }
        }
        let sd_est = ((n_tot as f64).powi(3) / 9.0).sqrt();
        // stimulus selection only (the judge derives everything itself): keep moderate trends, and a few extreme ones
        if s_est.abs() > 6.0 * sd_est && !rng.chance(1, 200) {
            continue;
        }
        let mut v: Vec<f64> = Vec::with_capacity(n_tot);
        for b in &blocks {
            for i in 0..b.0 {
                let off = match b.2 { 1 => i as f64, -1 => (b.0 - i) as f64, _ => 0.0 };
                v.push(b.1 as f64 * 1.0e5 + off);
            }
        }
        let mk = mann_kendall(&v);
        let mut frac = 0u32;
        let p = phl(mk.p_value);
        tr.emit(&json!({"op":"mkb","blocks":blocks.iter().map(|b| vec![b.0 as i64, b.1, b.2]).collect::<Vec<_>>(),
                        "s":as_int(mk.s, &mut frac),"p":[p.0, p.1],"frac":frac,"n":n_tot}));
        kept += 1;
        n += 1;
    }
    for i in 0..n_long {
        let len = *rng.pick(&[40usize, 60, 61, 120, 500, 1000]);
        let style = rng.below(5);
        let v: Vec<f64> = (0..len)
            .map(|j| match style {
                0 => 7.0,                                            // constant
                1 => (rng.below(3)) as f64,                          // heavily tied
                2 => (rng.next() as f64) * 1.0e280,                  // extreme magnitude, no infinities
                3 => 100.0 + (rng.below(1000) as f64) * 1e-9 + if j >= len / 2 { 50.0 } else { 0.0 }, // near-tied step
                _ => -((rng.next() % 1_000_000) as f64) * 5e-324,    // negative subnormals
            })
            .collect();
        let t = match i % 3 {
            0 => len / 2,
            1 => 1 + rng.below(3) as usize,
            _ => 1 + rng.below((len - 1) as u64) as usize,
        };
        let (l, r) = v.split_at(t);
        let mut ps = vec![];
        ps.push(phl(mann_whitney_u_pvalue(l, r)));
        if let Some(m) = MannWhitneyU::new(r, l) {
            ps.push(phl(m.two_sided_p_value()));
        }
        ps.push(phl(mann_kendall(&v).p_value));
        if let Some(c) = pettitt(&v) {
            ps.push(phl(c.p_value));
        }
        if len <= 120 {
            let cal = SelectionCalibration { permutation_order_budget: NonZero::new(500).expect("nonzero"), ..calibration() };
            if let Ok(Some(s)) = vrt::catch(|| selection_adjusted_change_point(&v, 5, cal)) {
                ps.push(phl(s.tainted_p));
                ps.push(phl(s.adjusted_p));
            }
        }
        tr.emit(&json!({"op":"range","len":len,"style":style,"t":t,"ps":ps.iter().map(|p| vec![p.0, p.1]).collect::<Vec<_>>()}));
        n += 1;
    }
    // completely separated samples whose exact permutation tail 2 / C(l + r, l) is below the reportable floor 1e-15
    // (27 v 28 and beyond, lopsided 6 v 1064), and just above it: the reported p-value must stay in [1e-15, 1]
    for (a, b) in [(27usize, 28usize), (28, 28), (28, 29), (30, 30), (6, 1064), (1064, 6), (5, 1064), (26, 27), (3, 100)] {
        let l: Vec<f64> = (0..a).map(|i| i as f64).collect();
        let r: Vec<f64> = (0..b).map(|i| 1.0e6 + i as f64).collect();
        let mut ps = vec![];
        ps.push(phl(mann_whitney_u_pvalue(&l, &r)));
        ps.push(phl(mann_whitney_u_pvalue(&r, &l)));
        if let Some(m) = MannWhitneyU::new(&l, &r) {
            ps.push(phl(m.two_sided_p_value()));
        }
        if a + b <= 120 {
            let v: Vec<f64> = l.iter().chain(r.iter()).copied().collect();
            if let Some(c) = pettitt(&v) {
                ps.push(phl(c.p_value));
            }
            ps.push(phl(mann_kendall(&v).p_value));
            let cal = SelectionCalibration { permutation_order_budget: NonZero::new(200).expect("nonzero"), ..calibration() };
            if let Ok(Some(s)) = vrt::catch(|| selection_adjusted_change_point(&v, 5, cal)) {
                ps.push(phl(s.tainted_p));
                ps.push(phl(s.adjusted_p));
            }
        }
        tr.emit(&json!({"op":"range","len":a + b,"style":9,"t":a,"ps":ps.iter().map(|p| vec![p.0, p.1]).collect::<Vec<_>>()}));
        n += 1;
    }
    // Student t: p(0) = 1, non-increasing in |t|, symmetric, degenerate inputs give exactly 1
    for df in [1.0, 1.5, 2.0, 3.0, 10.0, 29.0, 1000.0, 1.0e6, 1.0e9] {
        let grid = [0.0, 0.25, 0.5, 1.0, 1.5, 2.0, 3.0, 5.0, 8.0, 13.0, 40.0, 1.0e3, 1.0e6, 1.0e100, 1.0e300];
        let ps: Vec<(i64, i64)> = grid.iter().map(|t| phl(student_t_two_sided_p(*t, df))).collect();
        let neg: Vec<(i64, i64)> = grid.iter().map(|t| phl(student_t_two_sided_p(-*t, df))).collect();
        let deg: Vec<(i64, i64)> = [
            student_t_two_sided_p(f64::NAN, df),
            student_t_two_sided_p(f64::INFINITY, df),
            student_t_two_sided_p(f64::NEG_INFINITY, df),
            student_t_two_sided_p(2.0, f64::NAN),
            student_t_two_sided_p(2.0, f64::INFINITY),
            student_t_two_sided_p(2.0, 0.5),
            student_t_two_sided_p(2.0, -1.0),
        ]
        .iter()
        .map(|p| phl(*p))
        .collect();
        let f = |v: &Vec<(i64, i64)>| v.iter().map(|p| vec![p.0, p.1]).collect::<Vec<_>>();
        tr.emit(&json!({"op":"tmono","df":format!("{df}"),"ps":f(&ps),"neg":f(&neg),"deg":f(&deg)}));
        n += 1;
    }
    println!("{}", json!({"records":n}));
}

fn main() {
    vrt::quiet_panics();
    let a: Vec<String> = env::args().collect();
    match a.get(1).map(String::as_str) {
        Some("ranks") => cmd_ranks(&a[2], &a[3]),
        Some("bh") => cmd_bh(&a[2], &a[3]),
        Some("random") => cmd_random(&a[2], a[3].parse().unwrap(), a[4].parse().unwrap()),
        _ => {
            eprintln!("usage: h_stats ranks|bh|random ...");
            std::process::exit(2);
        }
    }
}
