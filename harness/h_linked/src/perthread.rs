//! Per-thread wrappers: `InstancePerThreadSync` (references may cross threads) and `InstancePerThread` (they may not).
//! Each task runs a program of  ["acq"] | ["cln", i] | ["snd", i, to] | ["rcv"] | ["drp", i]  where i indexes the task's
//! list of held references at that moment; whatever is still held at the end of the program is dropped in order.
use vrt::sched;
use vrt::{json, Value};

use crate::obj::Obj;
use crate::{emit, finish_run, fresh_id, me, new_exec, take_free_log, Mailboxes, RunResult};

thread_local! {
    /// set by op "acqr": the next instance factory that runs on this thread re-enters acquire() on the same wrapper
    static NEST_ARMED: std::cell::Cell<bool> = const { std::cell::Cell::new(false) };
    /// how to do that for the wrapper type of this task; returns (reference id, the reference), which the factory KEEPS
    static NEST_FN: std::cell::RefCell<Option<std::rc::Rc<dyn Fn() -> (u32, Box<dyn std::any::Any>)>>> = const { std::cell::RefCell::new(None) };
    static NEST_OUT: std::cell::RefCell<Vec<(u32, Box<dyn std::any::Any>)>> = const { std::cell::RefCell::new(Vec::new()) };
}

/// Called from the instance factory (InstCell::new): a re-entrant acquire on the same wrapper, once, if armed.
pub fn maybe_reenter() {
    if !NEST_ARMED.with(|a| a.replace(false)) {
        return;
    }
    let f = NEST_FN.with(|f| f.borrow().clone());
    if let Some(f) = f {
        let got = f();
        NEST_OUT.with(|o| o.borrow_mut().push(got));
    }
}

fn ops_of(st: &Value) -> Vec<Vec<Vec<Value>>> {
    st["progs"].as_array().unwrap().iter().map(|p| p.as_array().unwrap().iter().map(|o| o.as_array().unwrap().clone()).collect()).collect()
}

macro_rules! program_runner {
    ($name:ident, $wrapper:ty, $refty:ty, $can_move:expr) => {
        fn $name(w: $wrapper, prog: Vec<Vec<Value>>, mail: Mailboxes<$refty>) {
            let t = me() as usize;
            let mut held: Vec<(u32, $refty)> = Vec::new();
            {
                let wn = w.clone();
                NEST_FN.with(|f| {
                    *f.borrow_mut() = Some(std::rc::Rc::new(move || {
                        let r = wn.acquire();
                        let id = fresh_id();
                        emit(json!({"ev":"acquire","t":me(),"ref":id,"inst":r.id(),"born":r.born(),"fam":r.fam()}));
                        (id, Box::new(r) as Box<dyn std::any::Any>)
                    }))
                });
            }
            for op in prog {
                // With re-entrant factories ("acqr") the number of references a program holds depends on the schedule (a
                // nested acquire happens only when the outer lookup misses). Under a schedule other than the scripted one an
                // operation may name a reference the task does not hold: it is skipped (not applicable), never an event.
                if matches!(op[0].as_str(), Some("cln" | "snd" | "drp")) && op[1].as_u64().unwrap() as usize >= held.len() {
                    continue;
                }
                match op[0].as_str().unwrap() {
                    "acq" | "acqr" => {
                        sched::point("op:acq");
                        NEST_ARMED.with(|a| a.set(op[0].as_str() == Some("acqr")));
                        let r = w.acquire();
                        NEST_ARMED.with(|a| a.set(false));
                        // references the factory obtained re-entrantly and kept: this thread holds them from now on
                        for (nid, b) in NEST_OUT.with(|o| std::mem::take(&mut *o.borrow_mut())) {
                            held.push((nid, *b.downcast::<$refty>().expect("nested reference type")));
                        }
                        let id = fresh_id();
                        emit(json!({"ev":"acquire","t":t,"ref":id,"inst":r.id(),"born":r.born(),"fam":r.fam()}));
                        held.push((id, r));
                    }
                    "cln" => {
                        sched::point("op:cln");
                        let i = op[1].as_u64().unwrap() as usize;
                        let r = held[i].1.clone();
                        let id = fresh_id();
                        emit(json!({"ev":"clone","t":t,"src":held[i].0,"ref":id,"inst":r.id()}));
                        held.push((id, r));
                    }
                    "snd" => {
                        sched::point("op:snd");
                        let i = op[1].as_u64().unwrap() as usize;
                        let to = op[2].as_u64().unwrap() as usize;
                        let (id, r) = held.remove(i);
                        emit(json!({"ev":"send","t":t,"ref":id,"to":to}));
                        assert!($can_move, "this reference type cannot leave its thread");
                        mail.send(to, id, r);
                    }
                    "rcv" => {
                        sched::point("op:rcv");
                        let m = mail.clone();
                        sched::block_until("op:rcv", move || m.has(t));
                        let (id, r) = mail.recv(t);
                        emit(json!({"ev":"recv","t":t,"ref":id}));
                        held.push((id, r));
                    }
                    "drp" => {
                        sched::point("op:drp");
                        let i = op[1].as_u64().unwrap() as usize;
                        let (id, r) = held.remove(i);
                        emit(json!({"ev":"drop_begin","t":t,"ref":id}));
                        drop(r);
                        emit(json!({"ev":"drop_end","t":t,"ref":id}));
                    }
                    o => panic!("unknown op {o}"),
                }
            }
            while !held.is_empty() {
                sched::point("op:drp");
                let (id, r) = held.remove(0);
                emit(json!({"ev":"drop_begin","t":t,"ref":id}));
                drop(r);
                emit(json!({"ev":"drop_end","t":t,"ref":id}));
            }
            NEST_FN.with(|f| *f.borrow_mut() = None);
            drop(w);
        }
    };
}

program_runner!(run_sync_prog, linked::InstancePerThreadSync<Obj>, linked::RefSync<Obj>, true);

// `Ref` is not Send: the mailbox is never used for it, but the runner is shared; wrap to satisfy the type only.
struct Local(linked::Ref<Obj>);
impl Local {
    fn id(&self) -> u32 {
        self.0.id()
    }
    fn born(&self) -> u32 {
        self.0.born()
    }
    fn fam(&self) -> u32 {
        self.0.fam()
    }
}
impl Clone for Local {
    fn clone(&self) -> Self {
        Local(self.0.clone())
    }
}
struct LocalWrapper(linked::InstancePerThread<Obj>);
impl Clone for LocalWrapper {
    fn clone(&self) -> Self {
        LocalWrapper(self.0.clone())
    }
}
impl LocalWrapper {
    fn acquire(&self) -> Local {
        Local(self.0.acquire())
    }
}
program_runner!(run_rc_prog, LocalWrapper, Local, false);

pub fn run(st: &Value, idx: usize, seed: u64) -> RunResult {
    let progs = ops_of(st);
    let n = progs.len();
    let (mut ex, scripted) = new_exec(st, seed);
    let fam = fresh_id();
    let first = Obj::new_family(fam);
    let mut pre = vec![json!({"ev":"wrapper","fam":fam,"variant":st["variant"]})];
    let post;
    let rep;
    if st["variant"].as_str() == Some("rc") {
        let w = linked::InstancePerThread::new(first);
        for (t, prog) in progs.into_iter().enumerate() {
            let wc = w.clone();
            // Mailboxes<Local> is never shared across threads for this variant (programs have no snd/rcv).
            ex.spawn(&format!("t{t}"), move || run_rc_prog(LocalWrapper(wc), prog, Mailboxes::new(n)));
        }
        pre.extend(take_free_log());
        rep = ex.run();
        let completed = matches!(rep.outcome, vrt::sched::Outcome::Completed);
        let mut p = take_free_log();
        if completed {
            if let Err(m) = vrt::catch(move || drop(w)) {
                p.push(json!({"ev":"panic","t":99,"msg":m}));
            }
        } else {
            std::mem::forget(w);
        }
        p.extend(take_free_log());
        post = p;
    } else {
        let w = linked::InstancePerThreadSync::new(first);
        let mail: Mailboxes<linked::RefSync<Obj>> = Mailboxes::new(n);
        for (t, prog) in progs.into_iter().enumerate() {
            let wc = w.clone();
            let m = mail.clone();
            ex.spawn(&format!("t{t}"), move || run_sync_prog(wc, prog, m));
        }
        pre.extend(take_free_log());
        rep = ex.run();
        let completed = matches!(rep.outcome, vrt::sched::Outcome::Completed);
        let mut p = take_free_log();
        if completed {
            // references never received (none, if the programs came from the model) are dropped by the harness
            for (id, r) in mail.drain() {
                p.push(json!({"ev":"drop_begin","t":99,"ref":id}));
                drop(r);
                p.extend(take_free_log());
                p.push(json!({"ev":"drop_end","t":99,"ref":id}));
            }
            if let Err(m) = vrt::catch(move || drop(w)) {
                p.push(json!({"ev":"panic","t":99,"msg":m.chars().take(160).collect::<String>()}));
            }
        } else {
            std::mem::forget(w);
            std::mem::forget(mail);
        }
        p.extend(take_free_log());
        post = p;
    }
    finish_run(st, idx, pre, rep, post, scripted)
}

// ------------------------------------------------------------------------------------------------ free-running race

mod race {
    use std::sync::atomic::{AtomicUsize, Ordering};
    use std::sync::{mpsc, Arc};
    use std::time::{Duration, Instant};

    use vrt::{json, Value};

    #[allow(dead_code)]
    struct Cell(Arc<AtomicUsize>, Arc<AtomicUsize>);
    impl Drop for Cell {
        fn drop(&mut self) {
            self.1.fetch_add(1, Ordering::SeqCst);
        }
    }

    #[linked::object]
    struct Thing {
        #[allow(dead_code)]
        cell: Cell,
    }

    impl Thing {
        fn new(created: Arc<AtomicUsize>, destroyed: Arc<AtomicUsize>) -> Self {
            linked::new!(Self {
                cell: {
                    created.fetch_add(1, Ordering::SeqCst);
                    Cell(Arc::clone(&created), Arc::clone(&destroyed))
                },
            })
        }
    }

    /// Plain OS threads, no scheduler: the owner thread hands its ONLY reference to a helper thread, which drops it there
    /// (`RefSync: Send`); while that foreign drop is in flight the owner keeps acquiring pairs a, b on its own thread.  a is
    /// alive while b is acquired, so both must be the same instance ("at most one live instance per thread").  One summary
    /// record, judged by LinkedAbs.
    pub fn run(budget: Duration) -> Vec<Value> {
        let (created, destroyed) = (Arc::new(AtomicUsize::new(0)), Arc::new(AtomicUsize::new(0)));
        let w = linked::InstancePerThreadSync::new(Thing::new(Arc::clone(&created), Arc::clone(&destroyed)));
        let (tx, rx) = mpsc::channel::<linked::RefSync<Thing>>();
        let (ack_tx, ack_rx) = mpsc::channel::<()>();
        let helper = std::thread::spawn(move || {
            while let Ok(r) = rx.recv() {
                drop(r);
                if ack_tx.send(()).is_err() {
                    break;
                }
            }
        });
        let t0 = Instant::now();
        let (mut rounds, mut pairs, mut two_live) = (0u64, 0u64, 0u64);
        while t0.elapsed() < budget && two_live == 0 {
            let r1 = w.acquire();
            tx.send(r1).expect("helper alive");
            let mut acked = false;
            for _ in 0..64 {
                let a = w.acquire();
                let b = w.acquire();
                pairs += 1;
                if !std::ptr::eq(&raw const *a, &raw const *b) {
                    two_live += 1;
                }
                drop(b);
                drop(a);
                if ack_rx.try_recv().is_ok() {
                    acked = true;
                    break;
                }
            }
            if !acked {
                ack_rx.recv().expect("helper alive");
            }
            rounds += 1;
        }
        drop(tx);
        helper.join().expect("helper");
        drop(w);
        vec![
            json!({"ev":"reset","stim":0,"kind":"pt-race","id":"pt:foreign-drop-races-acquire:free-running"}),
            json!({"ev":"ptrace","rounds":rounds.min(2_000_000_000),"pairs":pairs.min(2_000_000_000),"two_live":two_live,
                   "created":created.load(Ordering::SeqCst).min(2_000_000_000),"destroyed":destroyed.load(Ordering::SeqCst).min(2_000_000_000)}),
            json!({"ev":"end","outcome":"completed","drift":0,"scripted":false,"nsteps":0,"steps":[]}),
        ]
    }
}

pub fn race_free(budget: std::time::Duration) -> Vec<vrt::Value> {
    race::run(budget)
}
