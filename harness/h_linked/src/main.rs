//! Harness for C12 (linked objects).  Runs TLC-generated stimuli (dependency graphs between linked statics, programs
//! of acquire / clone / send / receive / drop on per-thread wrappers, with or without a schedule script) on the real
//! `linked` crate under the deterministic scheduler and records an ndjson trace for TLC (Trace_Linked) to judge.
//!
//!   h_linked run  <stimuli.ndjson> <trace.ndjson> <start-index>   scheduler-controlled; exit code 3 + "RESUME <i>" when a
//!                                                                 stimulus left threads stuck (process state is tainted)
//!   h_linked free <stimulus-json>  <trace.ndjson> <watchdog-ms>   free-running OS threads, no scheduler; a run that does not
//!                                                                 finish within the watchdog is logged as outcome "hung"
use std::collections::VecDeque;
use std::sync::atomic::{AtomicU32, Ordering};
use std::sync::{Arc, Mutex};
use std::time::Duration;

use vrt::sched::{self, Exec, Outcome, Strategy};
use vrt::{json, Value};

mod obj;
mod perthread;
mod statics;

/// Events emitted outside scheduler tasks (main thread, free-running threads), in real-time order.
static FREE_LOG: Mutex<Vec<Value>> = Mutex::new(Vec::new());
static NEXT_ID: AtomicU32 = AtomicU32::new(1);

thread_local! {
    static FREE_ID: std::cell::Cell<u32> = const { std::cell::Cell::new(99) };
}

pub fn fresh_id() -> u32 {
    NEXT_ID.fetch_add(1, Ordering::SeqCst)
}

/// Small id of the calling thread: the task index under the scheduler, the index given by `set_free_id` for
/// free-running threads, 99 for the harness main thread.
pub fn me() -> u32 {
    match sched::task_id() {
        Some(t) => t as u32,
        None => FREE_ID.with(|c| c.get()),
    }
}

pub fn set_free_id(id: u32) {
    FREE_ID.with(|c| c.set(id));
}

pub fn emit(v: Value) {
    if sched::in_task() {
        sched::emit(v);
    } else {
        FREE_LOG.lock().unwrap_or_else(|e| e.into_inner()).push(v);
    }
}

pub fn take_free_log() -> Vec<Value> {
    std::mem::take(&mut *FREE_LOG.lock().unwrap_or_else(|e| e.into_inner()))
}

fn hook_point(name: &'static str) {
    sched::point(name);
}

fn hook_block(name: &'static str, ready: &dyn Fn() -> bool) {
    sched::point(name);
    sched::block_until(name, || ready());
}

pub fn strategy_of(st: &Value) -> (Strategy, bool) {
    if let Some(sc) = st.get("script").and_then(Value::as_array) {
        let v = sc.iter().map(|e| (e[0].as_u64().unwrap() as usize, e[1].as_str().unwrap().to_string())).collect();
        (Strategy::Script(v), true)
    } else if st.get("pct").and_then(Value::as_u64).is_some() {
        (Strategy::Pct { changes: st["pct"].as_u64().unwrap() as usize }, false)
    } else {
        (Strategy::Random, false)
    }
}

pub fn outcome_name(o: &Outcome) -> &'static str {
    match o {
        Outcome::Completed => "completed",
        Outcome::Deadlock(_) => "deadlock",
        Outcome::StepLimit => "steplimit",
        Outcome::Stuck(_) => "stuck",
    }
}

pub struct RunResult {
    pub events: Vec<Value>,
    pub tainted: bool,
}

/// Runs one executor and assembles the records of one stimulus: reset, events before, the scheduler log, events after, end.
pub fn finish_run(st: &Value, idx: usize, pre: Vec<Value>, rep: sched::Report, post: Vec<Value>, scripted: bool) -> RunResult {
    let mut events = vec![json!({"ev":"reset","stim":idx,"kind":st["kind"],"id":st.get("id").cloned().unwrap_or(json!(""))})];
    events.extend(pre);
    let mut drift = rep.drift;
    for e in rep.log {
        if e.get("ev").and_then(Value::as_str) == Some("drift") {
            drift = drift.max(1);
            continue; // kept out of the judged trace; counted below
        }
        events.push(e);
    }
    for (t, p) in rep.panics.iter().enumerate() {
        if let Some(m) = p {
            events.push(json!({"ev":"panic","t":t,"msg":m.chars().take(160).collect::<String>()}));
        }
    }
    events.extend(post);
    let steps: Vec<Value> = rep.steps.iter().map(|s| json!([s.task, s.op])).collect();
    let tainted = !matches!(rep.outcome, Outcome::Completed);
    events.push(json!({"ev":"end","outcome":outcome_name(&rep.outcome),"drift":drift,"scripted":scripted,"nsteps":steps.len(),
                       "steps": if tainted || drift > 0 { Value::Array(steps) } else { json!([]) }}));
    RunResult { events, tainted }
}

fn write_events(out: &mut std::fs::File, evs: &[Value]) {
    use std::io::Write;
    let mut buf = Vec::new();
    for e in evs {
        serde_json::to_writer(&mut buf, e).unwrap();
        buf.push(b'\n');
    }
    out.write_all(&buf).unwrap();
    out.flush().unwrap();
}

fn main() {
    vrt::quiet_panics();
    let args: Vec<String> = std::env::args().collect();
    linked::verif::install(linked::verif::Hooks { point: hook_point, block_until: hook_block });
    match args.get(1).map(String::as_str) {
        Some("run") => {
            let stimuli = vrt::read_ndjson(&args[2]);
            let start: usize = args[4].parse().unwrap();
            let mut out = std::fs::OpenOptions::new().create(true).append(true).open(&args[3]).unwrap();
            let seed = vrt::seed_from_env();
            for (i, st) in stimuli.iter().enumerate().skip(start) {
                let r = match st["kind"].as_str().unwrap() {
                    "statics" => statics::run(st, i, seed.wrapping_add(i as u64)),
                    "pt" => perthread::run(st, i, seed.wrapping_add(i as u64)),
                    k => panic!("unknown stimulus kind {k}"),
                };
                write_events(&mut out, &r.events);
                if r.tainted {
                    // stuck threads may hold locks of the code under test (the global registry lock is process wide)
                    println!("RESUME {}", i + 1);
                    std::process::exit(3);
                }
            }
            println!("DONE {}", stimuli.len());
        }
        Some("free") => {
            let st: Value = serde_json::from_str(&args[2]).unwrap();
            let mut out = std::fs::OpenOptions::new().create(true).append(true).open(&args[3]).unwrap();
            let ms: u64 = args[4].parse().unwrap();
            let evs = statics::run_free(&st, Duration::from_millis(ms));
            write_events(&mut out, &evs);
            // stuck threads are abandoned with the process
            std::process::exit(0);
        }
        Some("ptrace") => {
            let mut out = std::fs::OpenOptions::new().create(true).append(true).open(&args[2]).unwrap();
            let ms: u64 = args[3].parse().unwrap();
            let evs = perthread::race_free(Duration::from_millis(ms));
            write_events(&mut out, &evs);
        }
        _ => {
            eprintln!("usage: h_linked run <stimuli.ndjson> <trace.ndjson> <start> | free <stimulus-json> <trace.ndjson> <watchdog-ms>");
            std::process::exit(2);
        }
    }
}

/// Mailboxes for moving references between tasks.
pub struct Mailboxes<T> {
    pub boxes: Arc<Mutex<Vec<VecDeque<(u32, T)>>>>,
}

impl<T> Clone for Mailboxes<T> {
    fn clone(&self) -> Self {
        Self { boxes: Arc::clone(&self.boxes) }
    }
}

impl<T> Mailboxes<T> {
    pub fn new(n: usize) -> Self {
        Self { boxes: Arc::new(Mutex::new((0..n).map(|_| VecDeque::new()).collect())) }
    }
    pub fn send(&self, to: usize, id: u32, v: T) {
        self.boxes.lock().unwrap()[to].push_back((id, v));
    }
    pub fn has(&self, me: usize) -> bool {
        !self.boxes.lock().unwrap()[me].is_empty()
    }
    pub fn recv(&self, me: usize) -> (u32, T) {
        self.boxes.lock().unwrap()[me].pop_front().expect("mailbox checked non-empty")
    }
    pub fn drain(&self) -> Vec<(u32, T)> {
        let mut g = self.boxes.lock().unwrap();
        g.iter_mut().flat_map(|q| q.drain(..).collect::<Vec<_>>()).collect()
    }
}

pub fn new_exec(st: &Value, seed: u64) -> (Exec, bool) {
    let (strategy, scripted) = strategy_of(st);
    let mut ex = Exec::new(strategy, seed ^ st.get("seed").and_then(Value::as_u64).unwrap_or(0));
    ex.max_steps = 20_000;
    ex.step_timeout = Duration::from_secs(10);
    (ex, scripted)
}
