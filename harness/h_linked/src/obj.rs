//! The instrumented linked object: every instance records its family tag, the thread that created it and (on drop) the
//! thread that destroyed it.  Written as a user of the crate would: `#[linked::object]` + `linked::new!`.
use vrt::json;

use crate::{emit, fresh_id, me};

/// Per-instance state; its constructor runs inside the instance factory (once per linked instance), its destructor when
/// the instance is dropped.
pub struct InstCell {
    pub id: u32,
    pub fam: u32,
    pub born: u32,
}

impl InstCell {
    pub fn new(fam: u32) -> Self {
        let c = Self { id: fresh_id(), fam, born: me() };
        emit(json!({"ev":"create","t":c.born,"inst":c.id,"fam":fam}));
        // a factory may use the wrapper it is being created for (program op "acqr")
        crate::perthread::maybe_reenter();
        c
    }
}

impl Drop for InstCell {
    fn drop(&mut self) {
        emit(json!({"ev":"destroy","t":me(),"inst":self.id}));
    }
}

#[linked::object]
pub struct Obj {
    cell: InstCell,
}

impl Obj {
    /// A new family: `fam` is the tag shared by every instance linked to the returned one.
    pub fn new_family(fam: u32) -> Self {
        linked::new!(Self { cell: InstCell::new(fam) })
    }
    pub fn id(&self) -> u32 {
        self.cell.id
    }
    pub fn fam(&self) -> u32 {
        self.cell.fam
    }
    pub fn born(&self) -> u32 {
        self.cell.born
    }
}
