//! Linked statics with a configurable dependency graph between their initialisers.
use std::sync::mpsc;
use std::sync::Mutex;
use std::time::Duration;

use vrt::{json, Value};

use crate::obj::Obj;
use crate::{emit, finish_run, fresh_id, me, new_exec, take_free_log, RunResult};

linked::instances! {
    static S1: Obj = init(1);
    static S2: Obj = init(2);
    static S3: Obj = init(3);
}

/// deps[k] = statics whose `get()` the initialiser of static k calls (ascending), set per stimulus.
static DEPS: Mutex<[Vec<u32>; 4]> = Mutex::new([Vec::new(), Vec::new(), Vec::new(), Vec::new()]);

fn get_static(k: u32) -> Obj {
    match k {
        1 => S1.get(),
        2 => S2.get(),
        3 => S3.get(),
        _ => panic!("no such static"),
    }
}

/// One `get()` as user code sees it: begin, the call, end with what the returned instance says about itself.
pub fn access(k: u32) {
    emit(json!({"ev":"get_begin","t":me(),"s":k}));
    let o = get_static(k);
    emit(json!({"ev":"get_end","t":me(),"s":k,"fam":o.fam(),"inst":o.id(),"born":o.born()}));
    drop(o);
}

/// The initialiser expression of static k: touches its dependencies, then creates the first instance of a new family.
fn init(k: u32) -> Obj {
    let deps = DEPS.lock().unwrap()[k as usize].clone();
    for d in deps {
        access(d);
    }
    let fam = fresh_id();
    emit(json!({"ev":"init_run","t":me(),"s":k,"fam":fam}));
    Obj::new_family(fam)
}

fn configure(st: &Value) -> Vec<Vec<u32>> {
    let mut d = DEPS.lock().unwrap();
    for k in 1..=3u32 {
        d[k as usize] = st["deps"][k.to_string()].as_array().map(|a| a.iter().map(|x| x.as_u64().unwrap() as u32).collect()).unwrap_or_default();
        d[k as usize].sort_unstable();
    }
    st["progs"].as_array().unwrap().iter().map(|p| p.as_array().unwrap().iter().map(|x| x.as_u64().unwrap() as u32).collect()).collect()
}

pub fn run(st: &Value, idx: usize, seed: u64) -> RunResult {
    linked::__private_clear_linked_variables_global();
    let progs = configure(st);
    let (mut ex, scripted) = new_exec(st, seed);
    for (t, prog) in progs.iter().enumerate() {
        let prog = prog.clone();
        ex.spawn(&format!("t{t}"), move || {
            for k in prog {
                vrt::sched::point("op:get");
                access(k);
            }
        });
    }
    let pre = take_free_log();
    let rep = ex.run();
    let post = take_free_log();
    finish_run(st, idx, pre, rep, post, scripted)
}

/// Free-running variant: plain OS threads, no scheduler.  Events are appended to the global log in real-time order.
pub fn run_free(st: &Value, watchdog: Duration) -> Vec<Value> {
    let progs = configure(st);
    let (tx, rx) = mpsc::channel::<u32>();
    let n = progs.len();
    for (t, prog) in progs.into_iter().enumerate() {
        let tx = tx.clone();
        std::thread::spawn(move || {
            crate::set_free_id(t as u32);
            let r = vrt::catch(|| {
                for k in prog {
                    access(k);
                }
            });
            if let Err(m) = r {
                emit(json!({"ev":"panic","t":t,"msg":m}));
            }
            let _ = tx.send(t as u32);
        });
    }
    let deadline = std::time::Instant::now() + watchdog;
    let mut done = 0;
    while done < n {
        let left = deadline.saturating_duration_since(std::time::Instant::now());
        match rx.recv_timeout(left) {
            Ok(_) => done += 1,
            Err(_) => break,
        }
    }
    let mut evs = vec![json!({"ev":"reset","stim":0,"kind":"statics","id":st.get("id").cloned().unwrap_or(json!(""))})];
    evs.extend(take_free_log());
    evs.push(json!({"ev":"end","outcome": if done == n { "completed" } else { "hung" },"drift":0,"scripted":false,"nsteps":0,"steps":[]}));
    evs
}
