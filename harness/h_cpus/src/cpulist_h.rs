//! cpulist codec: model-space ids are embedded into u32 at several bases (DESIGN §3.4) so that the model's
//! top of range (2^W-1) is the code's u32::MAX.
use vrt::{json, Tracer, Value};

/// (name, base): real id = base + model id
fn embeddings(w: u32) -> Vec<(&'static str, u32)> {
    let max_item = (1u32 << w) - 1;
    vec![
        ("low", 0),
        ("mid", (1u32 << 31) - (max_item / 2) - 1), // straddles the i32 boundary
        ("top", u32::MAX - max_item),               // model's largest id = u32::MAX
    ]
}

fn back(v: u32, base: u32, span: u32) -> i64 {
    if v >= base && v - base <= span { i64::from(v - base) } else { -1 }
}

/// Lexical split of a cpulist text into parts of integers (no interpretation). None if not lexically a cpulist.
fn lex(text: &str) -> Option<Vec<Vec<u32>>> {
    let mut parts = Vec::new();
    for part in text.split(',') {
        if part.is_empty() {
            parts.push(vec![]);
            continue;
        }
        let (range, stride) = match part.split_once(':') {
            Some((r, s)) => (r, Some(s)),
            None => (part, None),
        };
        let mut nums = Vec::new();
        match range.split_once('-') {
            Some((a, b)) => {
                nums.push(a.parse::<u32>().ok()?);
                nums.push(b.parse::<u32>().ok()?);
            }
            None => {
                if stride.is_some() {
                    return None;
                }
                nums.push(range.parse::<u32>().ok()?);
            }
        }
        if let Some(s) = stride {
            nums.push(s.parse::<u32>().ok()?);
        }
        parts.push(nums);
    }
    Some(parts)
}

fn parts_back(parts: &[Vec<u32>], base: u32, span: u32) -> Value {
    Value::Array(
        parts
            .iter()
            .map(|p| {
                Value::Array(
                    p.iter()
                        .enumerate()
                        // the stride (3rd number) is not an id and is not embedded
                        .map(|(i, v)| if i == 2 { json!(*v) } else { json!(back(*v, base, span)) })
                        .collect(),
                )
            })
            .collect(),
    )
}

fn run_emit(tr: &Tracer, emb: &str, base: u32, span: u32, input: &[u32], shuffle_seed: u64) {
    let mut real: Vec<u32> = input.iter().map(|x| base + x).collect();
    // emit accepts any order and duplicates
    let mut rng = vrt::Rng::new(shuffle_seed);
    for i in (1..real.len()).rev() {
        let j = rng.below(i as u64 + 1) as usize;
        real.swap(i, j);
    }
    if !real.is_empty() && rng.chance(1, 3) {
        let d = *rng.pick(&real);
        real.push(d);
    }
    let res = vrt::catch(|| cpulist::emit(real.iter().copied()));
    let rec = match res {
        Err(msg) => json!({"op":"emit","emb":emb,"input":input,"ok":false,"parts":[],"rok":false,"reparsed":[],"text":"","panic":msg}),
        Ok(text) => {
            let parts = lex(&text);
            let reparsed = vrt::catch(|| cpulist::parse(&text));
            let (rok, rp): (bool, Vec<i64>) = match reparsed {
                Ok(Ok(v)) => (true, v.iter().map(|x| back(*x, base, span)).collect()),
                _ => (false, vec![]),
            };
            match parts {
                // not even lexically a cpulist: ok=false so the judge rejects it
                None => json!({"op":"emit","emb":emb,"input":input,"ok":false,"parts":[],"rok":rok,"reparsed":rp,"text":text,"panic":"unlexable output"}),
                Some(p) => json!({"op":"emit","emb":emb,"input":input,"ok":true,"parts":parts_back(&p, base, span),"rok":rok,"reparsed":rp,"text":text}),
            }
        }
    };
    tr.emit(&rec);
}

pub fn emit_cases(cases: &str, out: &str, w: u32) {
    let tr = Tracer::create(out);
    let span = (1u32 << w) - 1;
    for (n, case) in vrt::read_ndjson(cases).iter().enumerate() {
        let input: Vec<u32> = case["input"].as_array().unwrap().iter().map(|v| v.as_u64().unwrap() as u32).collect();
        for (emb, base) in embeddings(w) {
            run_emit(&tr, emb, base, span, &input, n as u64);
        }
    }
}

fn render(parts: &[Vec<u32>], base: u32) -> String {
    parts
        .iter()
        .map(|p| match p.len() {
            0 => String::new(),
            1 => format!("{}", base + p[0]),
            2 => format!("{}-{}", base + p[0], base + p[1]),
            _ => format!("{}-{}:{}", base + p[0], base + p[1], p[2]),
        })
        .collect::<Vec<_>>()
        .join(",")
}

pub fn parse_cases(cases: &str, out: &str, w: u32) {
    let tr = Tracer::create(out);
    let span = (1u32 << w) - 1;
    for case in vrt::read_ndjson(cases) {
        let parts: Vec<Vec<u32>> = case["parts"]
            .as_array()
            .unwrap()
            .iter()
            .map(|p| p.as_array().unwrap().iter().map(|v| v.as_u64().unwrap() as u32).collect())
            .collect();
        for (emb, base) in embeddings(w) {
            let text = render(&parts, base);
            let res = vrt::catch(|| cpulist::parse(&text));
            let rec = match res {
                Ok(Ok(v)) => {
                    let r: Vec<i64> = v.iter().map(|x| back(*x, base, span)).collect();
                    json!({"op":"parse","emb":emb,"parts":case["parts"],"ok":true,"result":r,"text":text})
                }
                Ok(Err(e)) => json!({"op":"parse","emb":emb,"parts":case["parts"],"ok":false,"result":[],"text":text,"err":e.to_string().lines().next().unwrap_or("").to_string()}),
                // a panic is neither Ok nor Err: log as ok with an impossible result so the judge rejects either way
                Err(msg) => json!({"op":"parse","emb":emb,"parts":case["parts"],"ok":true,"result":[-1,-1],"text":text,"panic":msg}),
            };
            tr.emit(&rec);
        }
    }
}

/// Seeded random id sets inside a window of `2^w` ids at random bases; emit + reparse, and random texts for parse.
pub fn random(out: &str, n: u64, w: u32) {
    let tr = Tracer::create(out);
    let span = (1u32 << w) - 1;
    let mut rng = vrt::Rng::new(vrt::seed_from_env());
    for i in 0..n {
        let base = match rng.below(5) {
            0 => 0,
            1 => u32::MAX - span,
            2 => (1u32 << 31) - span / 2,
            3 => (rng.next() as u32) % (u32::MAX - span),
            _ => (rng.below(4096)) as u32,
        };
        if rng.chance(2, 3) {
            // runs make ranges likely
            let mut set = std::collections::BTreeSet::new();
            let runs = rng.below(6);
            for _ in 0..runs {
                let start = rng.below(u64::from(span) + 1) as u32;
                let len = 1 + rng.below(12) as u32;
                for k in 0..len {
                    if start + k <= span {
                        set.insert(start + k);
                    }
                }
            }
            if rng.chance(1, 4) {
                set.insert(span);
                set.insert(span - 1);
                set.insert(span - 2);
            }
            let input: Vec<u32> = set.into_iter().collect();
            run_emit(&tr, "rand", base, span, &input, i);
        } else {
            let nparts = rng.below(5);
            let mut parts = Vec::new();
            for _ in 0..nparts {
                let a = rng.below(u64::from(span) + 1) as u32;
                let b = if rng.chance(1, 6) { rng.below(u64::from(span) + 1) as u32 } else { a + rng.below(u64::from(span - a) + 1) as u32 };
                let s = rng.below(9) as u32;
                parts.push(match rng.below(4) {
                    0 => vec![],
                    1 => vec![a],
                    2 => vec![a, b],
                    _ => vec![a, b, s],
                });
            }
            let text = render(&parts, base);
            let res = vrt::catch(|| cpulist::parse(&text));
            let pj: Vec<Value> = parts.iter().map(|p| json!(p)).collect();
            let rec = match res {
                Ok(Ok(v)) => {
                    let r: Vec<i64> = v.iter().map(|x| back(*x, base, span)).collect();
                    json!({"op":"parse","emb":"rand","parts":pj,"ok":true,"result":r,"text":text})
                }
                Ok(Err(e)) => json!({"op":"parse","emb":"rand","parts":pj,"ok":false,"result":[],"text":text,"err":e.to_string().lines().next().unwrap_or("").to_string()}),
                Err(msg) => json!({"op":"parse","emb":"rand","parts":pj,"ok":true,"result":[-1,-1],"text":text,"panic":msg}),
            };
            tr.emit(&rec);
        }
    }
}
