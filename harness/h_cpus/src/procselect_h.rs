//! C09: drives the real ProcessorSetBuilder on fake hardware and records (topology, query, result).
use std::collections::BTreeSet;
use std::num::NonZero;

use many_cpus_impl::fake::{HardwareBuilder, ProcessorBuilder};
use many_cpus_impl::{EfficiencyClass, Processor, SystemHardware};
use vrt::{json, Rng, Tracer, Value};

#[derive(Clone, Debug)]
struct P {
    id: u32,
    region: u32,
    cls: char, // 'P' | 'E'
}

#[derive(Clone, Debug)]
struct Query {
    srcall: bool,
    source: BTreeSet<u32>,
    except: BTreeSet<u32>,
    pass: BTreeSet<u32>, // ids for which the filter predicate returns true
    cls: &'static str,   // any | P | E
    policy: String,
    quota4: i64, // -1 = not enforced, else 4 * max_processor_time
    /// Some(S): the query is made by a thread that has pinned itself to S (through this hardware instance) and asks
    /// `where_available_for_current_thread()`: candidates are further restricted to S
    avail: Option<BTreeSet<u32>>,
}

thread_local! {
    static ORDER: std::cell::Cell<u32> = const { std::cell::Cell::new(0) };
}

fn run_one(tr: &Tracer, topo: &[P], q: &Query, op: &str, n: usize) {
    let mut hb = HardwareBuilder::new();
    for p in topo {
        hb = hb.processor(
            ProcessorBuilder::new()
                .id(p.id)
                .memory_region(p.region)
                .efficiency_class(if p.cls == 'P' { EfficiencyClass::Performance } else { EfficiencyClass::Efficiency }),
        );
    }
    if q.quota4 >= 0 {
        hb = hb.max_processor_time(q.quota4 as f64 / 4.0);
    }
    let q2 = q.clone();
    let op2 = op.to_string();
    let on_fresh_thread = q.avail.is_some();
    let body = move || {
        let hw = SystemHardware::fake(hb);
        let all = hw.all_processors();
        let base_set = if q2.srcall {
            Some(all.clone())
        } else {
            // a ProcessorSet holding exactly the source ids (never empty by construction of the stimulus)
            all.filter(|p| q2.source.contains(&p.id()))
        };
        let base_set = base_set.expect("stimulus guarantees a non-empty source");
        let mut b = base_set.to_builder();
        if let Some(av) = &q2.avail {
            let av = av.clone();
            all.filter(|p| av.contains(&p.id())).expect("stimulus guarantees a non-empty affinity").pin_current_thread_to();
            b = b.where_available_for_current_thread();
        }
        let excepted: Vec<Processor> = all.iter().filter(|p| q2.except.contains(&p.id())).cloned().collect();
        let pass = q2.pass.clone();
        // The criteria are independent of the order in which the builder methods are called (the last class selector and
        // the last region policy win, filters and exclusions accumulate). ORDER picks one of several call orders; the odd
        // ones first select the OPPOSITE class / another policy and correct it after the filter has been applied.
        let order = ORDER.with(|o| {
            let v = o.get();
            o.set(v.wrapping_add(1));
            v % 4
        });
        let cls = |b: many_cpus_impl::ProcessorSetBuilder, c: &str| match c {
            "P" => b.performance_processors_only(),
            "E" => b.efficiency_processors_only(),
            _ => b,
        };
        let pol = |b: many_cpus_impl::ProcessorSetBuilder, p: &str| match p {
            "same" => b.same_memory_region(),
            "different" => b.different_memory_regions(),
            "prefer_same" => b.prefer_same_memory_region(),
            "prefer_different" => b.prefer_different_memory_regions(),
            _ => b,
        };
        let opposite = match q2.cls {
            "P" => "E",
            "E" => "P",
            _ => "P",
        };
        match order {
            0 => {
                b = cls(b, q2.cls);
                b = pol(b, q2.policy.as_str());
                b = b.except(excepted.iter());
                b = b.filter(move |p| pass.contains(&p.id()));
                if q2.quota4 >= 0 {
                    b = b.enforce_resource_quota();
                }
            }
            1 if q2.cls != "any" => {
                b = cls(b, opposite);
                b = b.filter(move |p| pass.contains(&p.id()));
                b = cls(b, q2.cls);
                b = b.except(excepted.iter());
                b = pol(b, q2.policy.as_str());
                if q2.quota4 >= 0 {
                    b = b.enforce_resource_quota();
                }
            }
            2 => {
                if q2.quota4 >= 0 {
                    b = b.enforce_resource_quota();
                }
                b = b.filter(move |p| pass.contains(&p.id()));
                if matches!(q2.policy.as_str(), "same" | "different" | "prefer_same" | "prefer_different") {
                    b = pol(b, if q2.policy == "different" { "same" } else { "different" });   // corrected below
                }
                b = b.except(excepted.iter());
                b = pol(b, q2.policy.as_str());
                b = cls(b, q2.cls);
            }
            _ => {
                b = b.except(excepted.iter());
                b = pol(b, q2.policy.as_str());
                b = b.filter(move |p| pass.contains(&p.id()));
                b = cls(b, q2.cls);
                if q2.quota4 >= 0 {
                    b = b.enforce_resource_quota();
                }
            }
        }
        let r = if op2 == "take" { b.take(NonZero::new(n).unwrap()) } else { b.take_all() };
        r.map(|set| set.processors().iter().map(|p| p.id()).collect::<Vec<u32>>())
    };
    // a pin sticks to its thread: queries that pin first run on a thread of their own
    let res = if on_fresh_thread {
        std::thread::spawn(move || vrt::catch(body)).join().unwrap_or_else(|_| Err("thread died".into()))
    } else {
        vrt::catch(body)
    };
    // what the judge sees: the affinity is one more restriction of the source set
    let (srcall_j, source_j) = match &q.avail {
        None => (q.srcall, q.source.clone()),
        Some(av) => {
            let base: BTreeSet<u32> = if q.srcall { topo.iter().map(|p| p.id).collect() } else { q.source.clone() };
            (false, base.intersection(av).copied().collect())
        }
    };
    let topo_j: Vec<Value> = topo.iter().map(|p| json!({"id":p.id,"region":p.region,"cls":p.cls.to_string()})).collect();
    let qj = json!({"srcall":srcall_j,"source":source_j,"except":q.except,"pass":q.pass,"cls":q.cls,"policy":q.policy,"quota4":q.quota4,
                    "avail":q.avail.is_some()});
    let rec = match res {
        Ok(Some(ids)) => json!({"topo":topo_j,"q":qj,"op":op,"n":n,"some":true,"ids":ids}),
        Ok(None) => json!({"topo":topo_j,"q":qj,"op":op,"n":n,"some":false,"ids":[]}),
        // a panic is not an answer: recorded as "some" with an impossible id so that the judge rejects it
        Err(msg) => json!({"topo":topo_j,"q":qj,"op":op,"n":n,"some":true,"ids":[4000000],"panic":msg}),
    };
    tr.emit(&rec);
}

/// TLC-enumerated candidate maps. Each case is run `reps` times (the code's random picks differ per call), plain and
/// with decoy processors that the query must exclude through except / filter / class / source.
pub fn cases(cases: &str, out: &str, reps: u64) {
    let tr = Tracer::create(out);
    for (ci, case) in vrt::read_ndjson(cases).iter().enumerate() {
        let topo: Vec<P> = case["topo"]
            .as_array()
            .unwrap()
            .iter()
            .map(|p| P { id: p["id"].as_u64().unwrap() as u32, region: p["region"].as_u64().unwrap() as u32, cls: 'P' })
            .collect();
        let policy = case["policy"].as_str().unwrap().to_string();
        let n = case["n"].as_u64().unwrap() as usize;
        let quota4 = case["quota4"].as_i64().unwrap();
        let op = case["op"].as_str().unwrap();
        for rep in 0..reps {
            let variant = (ci as u64 + rep) % 5;
            let mut t = topo.clone();
            let ids: BTreeSet<u32> = topo.iter().map(|p| p.id).collect();
            let mut q = Query { srcall: true, source: BTreeSet::new(), except: BTreeSet::new(), pass: ids.clone(), cls: "any", policy: policy.clone(), quota4, avail: None };
            // decoys sit in the same regions as real candidates (and in a fresh one), so a leak changes the answer
            let decoys = [P { id: 91, region: 1, cls: 'P' }, P { id: 92, region: 2, cls: 'P' }, P { id: 93, region: 7, cls: 'P' }];
            match variant {
                0 if !topo.is_empty() => {}
                1 => {
                    t.extend(decoys.iter().cloned());
                    q.except = decoys.iter().map(|p| p.id).collect();
                    q.pass.extend(q.except.iter().copied());
                }
                2 => {
                    t.extend(decoys.iter().cloned()); // rejected by the filter predicate
                }
                3 => {
                    t.extend(decoys.iter().map(|p| P { cls: 'E', ..p.clone() }));
                    q.pass.extend(decoys.iter().map(|p| p.id));
                    q.cls = "P";
                }
                _ => {
                    if topo.is_empty() {
                        // source must be non-empty: use except for the decoys instead
                        t.extend(decoys.iter().cloned());
                        q.except = decoys.iter().map(|p| p.id).collect();
                    } else {
                        t.extend(decoys.iter().cloned());
                        q.pass.extend(decoys.iter().map(|p| p.id));
                        q.srcall = false;
                        q.source = ids.clone();
                    }
                }
            }
            run_one(&tr, &t, &q, op, n);
        }
    }
}

/// Seeded random topologies (<= 64 processors, <= 8 regions, sparse ids, mixed classes, any quota) and queries.
pub fn random(out: &str, count: u64) {
    let tr = Tracer::create(out);
    let mut rng = Rng::new(vrt::seed_from_env());
    let policies = ["any", "same", "different", "prefer_same", "prefer_different"];
    for _ in 0..count {
        let big = rng.chance(1, 4);
        let np = 1 + rng.below(if big { 64 } else { 12 }) as usize;
        let nr = 1 + rng.below(8) as u32;
        let mut ids = BTreeSet::new();
        while ids.len() < np {
            ids.insert(if rng.chance(1, 2) { rng.below(200) as u32 } else { rng.below(64) as u32 });
        }
        let skew = rng.chance(1, 2);
        let topo: Vec<P> = ids
            .iter()
            .map(|id| P {
                id: *id,
                region: if skew { (rng.below(u64::from(nr)) * rng.below(u64::from(nr)) / u64::from(nr)) as u32 } else { rng.below(u64::from(nr)) as u32 } * 3,
                cls: if rng.chance(1, 3) { 'E' } else { 'P' },
            })
            .collect();
        let all: Vec<u32> = ids.iter().copied().collect();
        let sub = |rng: &mut Rng, keep_num: u64, keep_den: u64| -> BTreeSet<u32> { all.iter().copied().filter(|_| rng.chance(keep_num, keep_den)).collect() };
        let mut q = Query {
            srcall: rng.chance(1, 2),
            source: BTreeSet::new(),
            except: if rng.chance(1, 2) { sub(&mut rng, 1, 5) } else { BTreeSet::new() },
            pass: if rng.chance(1, 2) { sub(&mut rng, 4, 5) } else { all.iter().copied().collect() },
            cls: *rng.pick(&["any", "any", "P", "E"]),
            policy: rng.pick(&policies).to_string(),
            quota4: if rng.chance(1, 2) { -1 } else { rng.below(4 * (np as u64 + 2)) as i64 },
            avail: None,
        };
        if !q.srcall {
            q.source = sub(&mut rng, 3, 4);
            if q.source.is_empty() {
                q.source.insert(all[0]);
            }
        }
        if rng.chance(1, 4) {
            // the querying thread has pinned itself to a few processors (often several of one region) that overlap the source
            let base: Vec<u32> = if q.srcall { all.clone() } else { q.source.iter().copied().collect() };
            let anchor = *rng.pick(&base);
            let region = topo.iter().find(|p| p.id == anchor).map(|p| p.region).unwrap_or(0);
            let mut av: BTreeSet<u32> = BTreeSet::new();
            av.insert(anchor);
            for p in &topo {
                if (p.region == region && rng.chance(1, 2)) || rng.chance(1, 10) {
                    av.insert(p.id);
                }
            }
            q.avail = Some(av);
        }
        if rng.chance(1, 3) {
            run_one(&tr, &topo, &q, "take_all", 1);
        } else {
            let wide = rng.chance(1, 3);
            let n = 1 + rng.below(if wide { np as u64 + 1 } else { 6 }) as usize;
            run_one(&tr, &topo, &q, "take", n);
        }
    }
}
