//! C11 part C: machine descriptions (TLC-enumerated or seeded random) are rendered to the kernel's text files,
//! the real Linux platform + SystemHardware are built over them through hook H4, and the observed inventory is
//! recorded next to the description for TLC (Trace_LinuxInventory) to judge.  Rendering is purely lexical and uses
//! its own cpulist writer (kernel style "%*pbl": runs of >= 2 as ranges), never the crate's emitter.
use std::collections::{BTreeMap, BTreeSet, HashMap};
use std::fmt::Write as _;
use std::sync::{Arc, Mutex};

use many_cpus_impl::verif::{VerifAffinityKernel, VerifFilesystem, VerifLinuxPlatform};
use many_cpus_impl::EfficiencyClass;
use vrt::{json, Rng, Tracer, Value};

// ------------------------------------------------------------------------------------------------ rendering

/// Kernel-style cpulist ("0-3,5,8-9"); `stride` variant renders even/odd runs as "a-b:2" sometimes (the kernel
/// never prints strides, user-written masks may; only used for files the platform parses with the same parser).
pub fn cpulist(ids: &BTreeSet<u32>) -> String {
    let v: Vec<u32> = ids.iter().copied().collect();
    let mut parts = Vec::new();
    let mut i = 0;
    while i < v.len() {
        let mut j = i;
        while j + 1 < v.len() && v[j + 1] == v[j] + 1 {
            j += 1;
        }
        if j > i {
            parts.push(format!("{}-{}", v[i], v[j]));
        } else {
            parts.push(format!("{}", v[i]));
        }
        i = j + 1;
    }
    parts.join(",")
}

#[derive(Debug, Default)]
pub struct MemFs {
    cpuinfo: String,
    possible: Option<String>,
    online: Option<String>,
    node_possible: Option<String>,
    node_cpulist: HashMap<u32, String>,
    cpu_online: HashMap<u32, String>,
    status: String,
    cgroup: Option<String>,
    cg_v2: HashMap<String, String>,
    cg_v1_quota: HashMap<String, String>,
    cg_v1_period: HashMap<String, String>,
    reads: Mutex<BTreeMap<String, u32>>,
}

impl MemFs {
    fn hit(&self, what: &str) {
        *self.reads.lock().unwrap().entry(what.to_string()).or_insert(0) += 1;
    }
    pub fn max_reads(&self) -> u32 {
        self.reads.lock().unwrap().values().copied().max().unwrap_or(0)
    }
}

impl VerifFilesystem for MemFs {
    fn get_cpuinfo_contents(&self) -> String {
        self.hit("cpuinfo");
        self.cpuinfo.clone()
    }
    fn get_possible_cpus_contents(&self) -> Option<String> {
        self.hit("possible");
        self.possible.clone()
    }
    fn get_online_cpus_contents(&self) -> Option<String> {
        self.hit("online");
        self.online.clone()
    }
    fn get_numa_node_possible_contents(&self) -> Option<String> {
        self.hit("node_possible");
        self.node_possible.clone()
    }
    fn get_numa_node_cpulist_contents(&self, node_index: u32) -> Option<String> {
        self.hit(&format!("node{node_index}"));
        self.node_cpulist.get(&node_index).cloned()
    }
    fn get_cpu_online_contents(&self, cpu_index: u32) -> Option<String> {
        self.hit(&format!("cpu{cpu_index}"));
        self.cpu_online.get(&cpu_index).cloned()
    }
    fn get_proc_self_status_contents(&self) -> String {
        self.hit("status");
        self.status.clone()
    }
    fn get_proc_self_cgroup(&self) -> Option<String> {
        self.cgroup.clone()
    }
    fn get_v1_cgroup_cpu_quota(&self, cgroup_name: &str) -> Option<String> {
        self.cg_v1_quota.get(cgroup_name).cloned()
    }
    fn get_v1_cgroup_cpu_period(&self, cgroup_name: &str) -> Option<String> {
        self.cg_v1_period.get(cgroup_name).cloned()
    }
    fn get_v2_cgroup_cpu_quota_and_period(&self, cgroup_name: &str) -> Option<String> {
        self.cg_v2.get(cgroup_name).cloned()
    }
}

/// The inventory never touches thread affinity; a kernel that refuses everything proves it.
#[derive(Debug)]
pub struct NoKernel;
impl VerifAffinityKernel for NoKernel {
    fn sched_setaffinity_current(&self, _mask: &[u8]) -> Result<(), i32> {
        Err(38) // ENOSYS
    }
    fn sched_getaffinity_current(&self, _buffer: &mut [u8]) -> Result<(), i32> {
        Err(38)
    }
    fn sched_getcpu(&self) -> i32 {
        -1
    }
}

fn ids_of(v: &Value) -> BTreeSet<u32> {
    v.as_array().map(|a| a.iter().map(|x| x.as_u64().unwrap() as u32).collect()).unwrap_or_default()
}

fn mask_file(v: &Value, nl: bool) -> Option<String> {
    if !v["p"].as_bool().unwrap() {
        return None;
    }
    let mut s = cpulist(&ids_of(&v["ids"]));
    if nl {
        s.push('\n');
    }
    Some(s)
}

const CG_NAMES: [&str; 3] = ["/", "/docker/6a74f501e3b4", "/kubepods.slice/pod7/cri-9"];

/// Renders a description (schema: see spec/cpus/LinuxInventory.tla) into an in-memory filesystem.
pub fn render(d: &Value) -> MemFs {
    let style = d["style"].as_u64().unwrap();
    let nl = style % 2 == 0; // trailing newline in mask files (real files have one; the parser must trim)
    let mut fs = MemFs::default();
    // ---- /proc/cpuinfo
    let (k_proc, k_bogo, k_model) = match style {
        0 => ("processor\t", "bogomips\t", "model name\t"),
        1 => ("Processor\t", "BogoMIPS\t", "Model Name\t"),
        2 => ("processor       ", "BogoMIPS        ", "model name      "),
        _ => ("PROCESSOR", "BOGOMIPS", "MODEL NAME"),
    };
    let mut ci = String::new();
    for rec in d["rows"].as_array().unwrap() {
        let id = rec["id"].as_u64().unwrap();
        let bogo = rec["bogo"].as_i64().unwrap();
        writeln!(ci, "{k_proc}: {id}").unwrap();
        if style != 1 {
            writeln!(ci, "{k_model}: Verif Processor @ 1.00GHz").unwrap();
        } else {
            writeln!(ci, "CPU implementer\t: 0x41").unwrap();
            writeln!(ci, "CPU part\t: 0xd0c").unwrap();
        }
        writeln!(ci, "flags\t\t: fpu vme de pse").unwrap();
        if bogo >= 0 {
            writeln!(ci, "{k_bogo}: {bogo}.00").unwrap();
        }
        writeln!(ci, "power management:").unwrap();
        writeln!(ci).unwrap();
    }
    if style >= 2 {
        // trailing machine-level block without a processor key (arm boards)
        writeln!(ci, "Hardware\t: BCM2835").unwrap();
        writeln!(ci, "Revision\t: a02082").unwrap();
        writeln!(ci, "Serial\t\t: 00000000deadbeef").unwrap();
        if style == 3 {
            writeln!(ci).unwrap();
        }
    }
    fs.cpuinfo = ci;
    // ---- id space masks
    fs.possible = mask_file(&d["possible"], nl);
    fs.online = mask_file(&d["online"], nl);
    fs.node_possible = mask_file(&d["nodes"], nl);
    for m in d["members"].as_array().unwrap() {
        if m["f"].as_bool().unwrap() {
            let mut s = cpulist(&ids_of(&m["cpus"]));
            s.push('\n');
            fs.node_cpulist.insert(m["n"].as_u64().unwrap() as u32, s);
        }
    }
    for rec in d["rows"].as_array().unwrap() {
        let id = rec["id"].as_u64().unwrap() as u32;
        match rec["file"].as_i64().unwrap() {
            0 => {
                fs.cpu_online.insert(id, "0\n".to_string());
            }
            1 => {
                fs.cpu_online.insert(id, "1\n".to_string());
            }
            _ => {}
        }
    }
    // ---- /proc/self/status
    let allowed = cpulist(&ids_of(&d["allowed"]));
    let mut st = String::new();
    st.push_str("Name:\th_cpus\nUmask:\t0022\nState:\tR (running)\nTgid:\t4242\n");
    if style == 3 {
        st.push('\n');
    }
    st.push_str("Threads:\t1\nSigQ:\t0/31413\nSeccomp:\t0\nSpeculation_Store_Bypass:\tthread vulnerable\n");
    st.push_str("Cpus_allowed:\tffffffff\n");
    writeln!(st, "Cpus_allowed_list:\t{allowed}").unwrap();
    st.push_str("Mems_allowed:\t00000001\nMems_allowed_list:\t0\nvoluntary_ctxt_switches:\t3\n");
    fs.status = st;
    // ---- cgroups
    let cg = &d["cg"];
    let kind = cg["k"].as_str().unwrap();
    let q = cg["q"].as_i64().unwrap();
    let p = cg["p"].as_i64().unwrap();
    let name = CG_NAMES[(style as usize + d["allowed"].as_array().unwrap().len()) % CG_NAMES.len()];
    let hybrid = format!("12:cpuset:{name}\n4:cpu,cpuacct:{name}\n3:memory:{name}\n1:name=systemd:{name}\n0::{name}\n");
    match kind {
        "nofile" => fs.cgroup = None,
        "none" => fs.cgroup = Some(format!("0::{name}\n")),
        "v2" => {
            fs.cgroup = Some(format!("0::{name}\n"));
            fs.cg_v2.insert(name.to_string(), format!("{q} {p}\n"));
        }
        "v2max" => {
            fs.cgroup = Some(format!("0::{name}\n"));
            fs.cg_v2.insert(name.to_string(), format!("max {p}\n"));
        }
        "v1" => {
            fs.cgroup = Some(hybrid);
            fs.cg_v1_quota.insert(name.to_string(), format!("{q}\n"));
            fs.cg_v1_period.insert(name.to_string(), format!("{p}\n"));
        }
        "v1neg" => {
            fs.cgroup = Some(hybrid);
            fs.cg_v1_quota.insert(name.to_string(), "-1\n".to_string());
            fs.cg_v1_period.insert(name.to_string(), format!("{p}\n"));
        }
        "v1pure" => {
            // a host without the unified hierarchy: no "0::" line at all
            fs.cgroup = Some(format!("12:cpuset:{name}\n4:cpu,cpuacct:{name}\n3:memory:{name}\n1:name=systemd:{name}\n"));
            fs.cg_v1_quota.insert(name.to_string(), format!("{q}\n"));
            fs.cg_v1_period.insert(name.to_string(), format!("{p}\n"));
        }
        "v1diff" => {
            // hybrid hierarchy: the unified ("0::") path is the systemd unit, the cpu controller has its own path
            fs.cgroup = Some(format!("12:cpuset:{name}\n4:cpu,cpuacct:{name}\n3:memory:{name}\n1:name=systemd:/system.slice/containerd.service\n0::/system.slice/containerd.service\n"));
            fs.cg_v1_quota.insert(name.to_string(), format!("{q}\n"));
            fs.cg_v1_period.insert(name.to_string(), format!("{p}\n"));
        }
        other => panic!("unknown cgroup kind {other}"),
    }
    fs
}

// ------------------------------------------------------------------------------------------------ observing

fn eff(c: EfficiencyClass) -> u32 {
    match c {
        EfficiencyClass::Performance => 1,
        EfficiencyClass::Efficiency => 0,
    }
}

/// Builds the platform over the rendered files and records everything the public API (and the probe) says.
/// Every question is asked in its own catch_unwind: a panic is an answer ("panic" fields), never a harness failure.
pub fn observe(d: &Value) -> Value {
    let fs = Arc::new(render(d));
    let platform = VerifLinuxPlatform::new(fs.clone(), Arc::new(NoKernel));
    let mut panics: Vec<String> = Vec::new();
    let hw = match vrt::catch(|| platform.hardware()) {
        Ok(hw) => Some(hw),
        Err(m) => {
            panics.push(format!("SystemHardware: {m}"));
            None
        }
    };
    // id -> (region, eff) as the public API reports it; id -> (region, active, eff) as the probe reports it
    let mut public: BTreeMap<u32, (u32, u32)> = BTreeMap::new();
    let mut nprocs = -1i64;
    let (mut maxcpu, mut maxregion, mut active, mut quota1000) = (-1i64, -1i64, -1i64, -1i64);
    if let Some(hw) = &hw {
        match vrt::catch(|| hw.all_processors().processors().iter().map(|p| (p.id(), p.memory_region_id(), eff(p.efficiency_class()))).collect::<Vec<_>>()) {
            Ok(v) => {
                nprocs = v.len() as i64;
                for (i, r, e) in v {
                    public.insert(i, (r, e));
                }
            }
            Err(m) => panics.push(format!("all_processors: {m}")),
        }
        match vrt::catch(|| (hw.max_processor_id(), hw.max_memory_region_id(), hw.active_processor_count())) {
            Ok((a, b, c)) => {
                maxcpu = i64::from(a);
                maxregion = i64::from(b);
                active = c as i64;
            }
            Err(m) => panics.push(format!("maxima: {m}")),
        }
        match vrt::catch(|| hw.resource_quota().max_processor_time()) {
            Ok(t) => quota1000 = (t * 1000.0).round() as i64,
            Err(m) => panics.push(format!("resource_quota: {m}")),
        }
    }
    // probe view (includes processors the platform found inactive)
    let mut probe: BTreeMap<u32, (u32, bool, u32)> = BTreeMap::new();
    match vrt::catch(|| platform.processors_including_inactive()) {
        Ok(v) => {
            for p in v {
                probe.insert(p.id, (p.memory_region_id, p.is_active, eff(p.efficiency_class)));
            }
        }
        Err(m) => {
            if hw.is_some() {
                panics.push(format!("probe: {m}"));
            }
        }
    }
    // join on the processor id: one observed row per /proc/cpuinfo record of the description
    let mut listed: BTreeSet<u32> = BTreeSet::new();
    let mut rows = Vec::new();
    for rec in d["rows"].as_array().unwrap() {
        let id = rec["id"].as_u64().unwrap() as u32;
        listed.insert(id);
        let pb = public.get(&id);
        let pr = probe.get(&id);
        let region: i64 = pb.map(|x| i64::from(x.0)).or(pr.map(|x| i64::from(x.0))).unwrap_or(-1);
        let e: i64 = pb.map(|x| i64::from(x.1)).or(pr.map(|x| i64::from(x.2))).unwrap_or(-1);
        let raw: i64 = match pr {
            Some((_, true, _)) => 1,
            Some((_, false, _)) => 0,
            None => -1,
        };
        rows.push(json!({"rep": u32::from(pb.is_some()), "region": region, "eff": e, "raw": raw}));
    }
    let extra: BTreeSet<u32> = public.keys().chain(probe.keys()).copied().filter(|i| !listed.contains(i)).collect();
    json!({"panic": panics.join(" | "), "rows": rows, "extra": extra, "nprocs": nprocs, "maxcpu": maxcpu, "maxregion": maxregion,
           "active": active, "quota1000": quota1000, "maxreads": fs.max_reads()})
}

pub fn cases(cases: &str, out: &str) {
    let tr = Tracer::create(out);
    for case in vrt::read_ndjson(cases) {
        let d = if case.get("d").is_some() { case["d"].clone() } else { case.clone() };
        let obs = observe(&d);
        tr.emit(&json!({"op": "inventory", "d": d, "obs": obs}));
    }
}

/// Prints the rendered files of one description (replay / debugging).
pub fn show(case: &str) {
    let v: Value = serde_json::from_str(case).expect("json");
    let d = if v.get("d").is_some() { v["d"].clone() } else { v };
    let fs = render(&d);
    println!("--- /proc/cpuinfo\n{}", fs.cpuinfo);
    println!("--- possible {:?}\n--- online {:?}\n--- node/possible {:?}", fs.possible, fs.online, fs.node_possible);
    println!("--- node cpulists {:?}\n--- cpuN/online {:?}", fs.node_cpulist, fs.cpu_online);
    println!("--- /proc/self/status\n{}", fs.status);
    println!("--- cgroup {:?}\n v2 {:?}\n v1 {:?} {:?}", fs.cgroup, fs.cg_v2, fs.cg_v1_quota, fs.cg_v1_period);
    println!("--- observed\n{}", observe(&d));
}

// ------------------------------------------------------------------------------------------------ random machines

fn pick_subset(rng: &mut Rng, from: &BTreeSet<u32>, num: u64, den: u64) -> BTreeSet<u32> {
    from.iter().copied().filter(|_| rng.chance(num, den)).collect()
}

/// One seeded random, kernel-consistent machine: up to `maxcpus` possible cpus, up to 8 nodes.
pub fn random_description(rng: &mut Rng, maxcpus: u32) -> Value {
    let n = 1 + rng.below(u64::from(maxcpus)) as u32;
    // possible ids: dense 0..n, or sparse (some platforms number with gaps)
    let mut possible: BTreeSet<u32> = (0..n).collect();
    if rng.chance(1, 4) {
        let keep = pick_subset(rng, &possible, 3, 4);
        if !keep.is_empty() {
            possible = keep;
        }
    }
    // online: all, a prefix, or random
    let mut online: BTreeSet<u32> = match rng.below(4) {
        0 => possible.clone(),
        1 => {
            let k = 1 + rng.below(possible.len() as u64) as usize;
            possible.iter().copied().take(k).collect()
        }
        2 => pick_subset(rng, &possible, 1, 2),
        _ => pick_subset(rng, &possible, 9, 10),
    };
    if online.is_empty() {
        online.insert(*possible.iter().next().unwrap());
    }
    // cpuinfo: online processors; sometimes a kernel that also lists offline ones; sometimes a hotplug race drops one
    let mut listed = online.clone();
    let lists_offline = rng.chance(1, 5);
    if lists_offline {
        listed.extend(pick_subset(rng, &possible, 1, 2));
    }
    if rng.chance(1, 8) && listed.len() > 1 {
        let victim = *rng.pick(&listed.iter().copied().collect::<Vec<_>>());
        listed.remove(&victim);
    }
    // allowed: everything possible, or a subset; must admit at least one listed online processor
    let usable: BTreeSet<u32> = listed.intersection(&online).copied().collect();
    let usable = if usable.is_empty() {
        let c = *online.iter().next().unwrap();
        listed.insert(c);
        BTreeSet::from([c])
    } else {
        usable
    };
    let mut allowed: BTreeSet<u32> = match rng.below(3) {
        0 => possible.clone(),
        1 => pick_subset(rng, &possible, 1, 2),
        _ => pick_subset(rng, &possible, 1, 8),
    };
    if allowed.intersection(&usable).next().is_none() {
        allowed.insert(*rng.pick(&usable.iter().copied().collect::<Vec<_>>()));
    }
    // per-cpu online files: "0" for offline, absent or "1" for online (cpu0 usually absent)
    let file_style = rng.below(3);
    let file_of = |rng: &mut Rng, c: u32| -> i64 {
        if !online.contains(&c) {
            0
        } else {
            match file_style {
                0 => -1,
                1 => 1,
                _ => {
                    if c == 0 || rng.chance(1, 6) {
                        -1
                    } else {
                        1
                    }
                }
            }
        }
    };
    // which id-space masks the kernel publishes
    let (pub_possible, pub_online) = match rng.below(6) {
        0 => (false, false),
        1 => (false, true),
        _ => (true, true),
    };
    // nodes
    let topo = rng.below(5); // 0 = no node directory, 1 = mask that names nothing, else nodes
    let mut members = Vec::new();
    let mut node_ids: BTreeSet<u32> = BTreeSet::new();
    if topo >= 2 {
        let nn = 1 + rng.below(8) as u32;
        let spacing = if rng.chance(1, 4) { 2 } else { 1 };
        let nodes: Vec<u32> = (0..nn).map(|i| i * spacing).collect();
        node_ids = nodes.iter().copied().collect();
        // kernel semantics: a node's cpulist holds its online cpus; contiguous blocks or interleaved
        let interleave = rng.chance(1, 3);
        let pv: Vec<u32> = possible.iter().copied().collect();
        let mut by_node: BTreeMap<u32, BTreeSet<u32>> = BTreeMap::new();
        for (i, c) in pv.iter().enumerate() {
            let k = if interleave { i % nodes.len() } else { i * nodes.len() / pv.len() };
            if online.contains(c) {
                by_node.entry(nodes[k]).or_default().insert(*c);
            }
        }
        // hotplug race: a cpu vanishes from its node list although cpuinfo still lists it
        if rng.chance(1, 6) {
            if let Some((_, set)) = by_node.iter_mut().next() {
                if let Some(c) = set.iter().next().copied() {
                    set.remove(&c);
                }
            }
        }
        for nd in &nodes {
            let cpus = by_node.get(nd).cloned().unwrap_or_default();
            // a memory-only / never-onlined node: empty list or no directory at all
            let f = !(cpus.is_empty() && rng.chance(1, 2));
            members.push(json!({"n": nd, "f": f, "cpus": cpus}));
        }
    }
    let nodes_v = match topo {
        0 => json!({"p": false, "ids": []}),
        1 => json!({"p": true, "ids": []}),
        _ => json!({"p": true, "ids": node_ids}),
    };
    // bogomips pattern
    let bp = rng.below(4);
    let listed_v: Vec<Value> = listed
        .iter()
        .enumerate()
        .map(|(i, c)| {
            let bogo: i64 = match bp {
                0 => -1,
                1 => 4800,
                2 => {
                    if c % 2 == 0 {
                        4800
                    } else {
                        2400
                    }
                }
                _ => {
                    if i == 0 {
                        -1
                    } else if c % 3 == 0 {
                        3000
                    } else {
                        5000
                    }
                }
            };
            json!({"id": c, "bogo": bogo, "file": file_of(rng, *c)})
        })
        .collect();
    // cgroup
    let period = *rng.pick(&[1000i64, 10_000, 100_000]);
    let cpus_x4 = 1 + rng.below(4 * (u64::from(n).min(18) + 2)) as i64; // quota in quarter cpus
    let quota = (cpus_x4 * period / 4).max(1);
    let kind = *rng.pick(&["none", "nofile", "v2", "v2", "v2", "v2max", "v1", "v1", "v1neg", "v1pure", "v1diff"]);
    json!({
        "possible": {"p": pub_possible, "ids": possible},
        "online": {"p": pub_online, "ids": online},
        "rows": listed_v,
        "style": rng.below(4),
        "allowed": allowed,
        "nodes": nodes_v,
        "members": members,
        "cg": {"k": kind, "q": quota, "p": period},
    })
}

pub fn random(out: &str, count: u64) {
    let tr = Tracer::create(out);
    let mut rng = Rng::new(vrt::seed_from_env() ^ 0xC11);
    for i in 0..count {
        let maxcpus = match i % 10 {
            0 => 1024,
            1 | 2 => 200,
            3 | 4 | 5 => 40,
            _ => 9,
        };
        let d = random_description(&mut rng, maxcpus);
        let obs = observe(&d);
        tr.emit(&json!({"op": "inventory", "d": d, "obs": obs}));
    }
}
