//! C11 part B / C10: the real affinity mask type (through hook H4) replayed on TLC-generated insertion sequences
//! under the word embeddings of spec/cpus/CpuMask.tla, plus seeded random real-space masks.  The harness reads the
//! set bits out of the raw bytes itself (bit n of the buffer = byte n/8, bit n%8: what the kernel sees).
use std::num::NonZero;

use many_cpus_impl::verif::VerifCpuMask;
use vrt::{json, Rng, Tracer, Value};

// The same tables as EmbBits / EmbWords in CpuMask.tla (the judge re-derives every embedded value and rejects a
// record whose stimulus does not match, so a typo here cannot go unnoticed).
pub const EMB_BITS: [[u32; 3]; 4] = [[0, 1, 63], [0, 62, 63], [1, 62, 63], [0, 1, 62]];
pub const EMB_WORDS: [[u32; 4]; 4] = [[0, 1, 2, 3], [0, 1, 15, 16], [0, 15, 16, 31], [14, 15, 16, 17]];

pub fn emb_id(e: usize, m: u32) -> u32 {
    EMB_WORDS[e][(m / 3) as usize] * 64 + EMB_BITS[e][(m % 3) as usize]
}
pub fn emb_width(e: usize, k: u32) -> usize {
    EMB_WORDS[e][(k - 1) as usize] as usize + 1
}

pub fn set_bits(bytes: &[u8]) -> Vec<u32> {
    let mut v = Vec::new();
    for (i, b) in bytes.iter().enumerate() {
        for j in 0..8 {
            if b & (1 << j) != 0 {
                v.push((i * 8 + j) as u32);
            }
        }
    }
    v
}

/// Builds a real mask and records everything observable about it.
fn build(rw0: usize, rins: &[u32]) -> Result<(VerifCpuMask, Value), String> {
    let rins = rins.to_vec();
    vrt::catch(move || {
        let mut m = if rw0 == 0 { VerifCpuMask::new() } else { VerifCpuMask::with_words(NonZero::new(rw0).unwrap()) };
        for id in &rins {
            m.insert(*id);
        }
        let bytes = m.raw_bytes();
        // the way sched_getaffinity fills a mask: bytes in, ids out
        let back = VerifCpuMask::from_raw_bytes(NonZero::new(m.words()).unwrap(), &bytes);
        let obs = json!({"ids": m.processor_ids(), "bits": set_bits(&bytes), "words": m.words(), "lenbytes": m.len_bytes(),
                         "ids2": back.processor_ids(), "eqback": back == m});
        (m, obs)
    })
}

fn record(tr: &Tracer, e: usize, w0: u32, ins: &[u32], rw0: usize, rins: &[u32]) -> Option<VerifCpuMask> {
    match build(rw0, rins) {
        Ok((m, obs)) => {
            tr.emit(&json!({"op":"mask","e":e,"w0":w0,"ins":ins,"rw0": if rw0 == 0 { VerifCpuMask::default_words() } else { rw0 },
                            "rins":rins,"panic":"","obs":obs}));
            Some(m)
        }
        Err(msg) => {
            tr.emit(&json!({"op":"mask","e":e,"w0":w0,"ins":ins,"rw0":rw0,"rins":rins,"panic":msg,
                            "obs":{"ids":[],"bits":[],"words":0,"lenbytes":0,"ids2":[],"eqback":false}}));
            None
        }
    }
}

/// TLC-generated cases {"w0": k, "ins": [model ids]} under every embedding; plus equality of differently built masks.
pub fn cases(cases: &str, out: &str) {
    let tr = Tracer::create(out);
    for case in vrt::read_ndjson(cases) {
        let w0 = case["w0"].as_u64().unwrap() as u32;
        let ins: Vec<u32> = case["ins"].as_array().unwrap().iter().map(|v| v.as_u64().unwrap() as u32).collect();
        for e in 0..4 {
            let rins: Vec<u32> = ins.iter().map(|m| emb_id(e, *m)).collect();
            let a = record(&tr, e + 1, w0, &ins, emb_width(e, w0), &rins);
            // B: same set, other initial width, reversed order, first id twice.  C: first id missing.
            let w1 = w0 % 3 + 1;
            let mut ins_b: Vec<u32> = ins.iter().rev().copied().collect();
            if let Some(f) = ins.first() {
                ins_b.push(*f);
            }
            let ins_c: Vec<u32> = ins.iter().skip(1).copied().collect();
            for (tag, other) in [("b", &ins_b), ("c", &ins_c)] {
                let rother: Vec<u32> = other.iter().map(|m| emb_id(e, *m)).collect();
                let ob = build(emb_width(e, w1), &rother);
                if let (Some(a), Ok((b, _))) = (&a, &ob) {
                    let (a2, b2) = (a.clone(), b.clone());
                    let eq = vrt::catch(move || (a2 == b2, b2 == a2));
                    let (ab, ba, p) = match eq {
                        Ok((x, y)) => (x, y, String::new()),
                        Err(m) => (false, true, m),
                    };
                    tr.emit(&json!({"op":"maskeq","e":e + 1,"tag":tag,"a":{"w0":w0,"ins":ins},"b":{"w0":w1,"ins":other},
                                    "eq":ab,"eqrev":ba,"panic":p}));
                }
            }
        }
    }
}

/// Seeded random real-space masks: widths 1..40 words or the default, ids up to 4200 (beyond 64 words).
pub fn random(out: &str, count: u64) {
    let tr = Tracer::create(out);
    let mut rng = Rng::new(vrt::seed_from_env() ^ 0xB17);
    for _ in 0..count {
        let rw0 = match rng.below(4) {
            0 => 0, // CpuMask::new()
            1 => 1 + rng.below(3) as usize,
            _ => 1 + rng.below(40) as usize,
        };
        let n = rng.below(9);
        let top = *rng.pick(&[64u64, 130, 1024, 1100, 4200]);
        let rins: Vec<u32> = (0..n)
            .map(|_| {
                if rng.chance(1, 3) {
                    // word edges
                    let w = rng.below(top / 64 + 1) as u32;
                    w * 64 + *rng.pick(&[0u32, 1, 62, 63])
                } else {
                    rng.below(top) as u32
                }
            })
            .collect();
        record(&tr, 0, 0, &[], rw0, &rins);
    }
}
