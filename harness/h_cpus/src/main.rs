//! Harness for C09/C10/C11: runs the real `cpulist` and `many_cpus_impl` code on stimuli produced by TLC
//! (or seeded random ones) and records what happened as ndjson for TLC to judge.
use std::env;

mod cpulist_h;
mod procselect_h;
// ---- C11 parts B/C and C10 (hook H4)
mod inventory_h;
mod masks_h;
mod pinning_h;

fn main() {
    vrt::quiet_panics();
    let args: Vec<String> = env::args().collect();
    match args.get(1).map(String::as_str) {
        Some("cpulist-emit") => cpulist_h::emit_cases(&args[2], &args[3], args[4].parse().unwrap()),
        Some("cpulist-parse") => cpulist_h::parse_cases(&args[2], &args[3], args[4].parse().unwrap()),
        Some("cpulist-random") => cpulist_h::random(&args[2], args[3].parse().unwrap(), args[4].parse().unwrap()),
        Some("procselect") => procselect_h::cases(&args[2], &args[3], args[4].parse().unwrap()),
        Some("procselect-random") => procselect_h::random(&args[2], args[3].parse().unwrap()),
        Some("masks") => masks_h::cases(&args[2], &args[3]),
        Some("masks-random") => masks_h::random(&args[2], args[3].parse().unwrap()),
        Some("pin-histories") => pinning_h::histories(&args[2], &args[3], &args[4]),
        Some("pin-idrace") => pinning_h::idrace(&args[2], args[3].parse().unwrap()),
        Some("pin-subsets") => pinning_h::subsets(&args[2], &args[3], args[4].parse().unwrap(), args[5].parse().unwrap()),
        Some("inventory") => inventory_h::cases(&args[2], &args[3]),
        Some("inventory-random") => inventory_h::random(&args[2], args[3].parse().unwrap()),
        Some("inventory-show") => inventory_h::show(&args[2]),
        _ => {
            eprintln!("usage: h_cpus <cpulist-emit|cpulist-parse|cpulist-random> ...");
            std::process::exit(2);
        }
    }
}
