//! Harness for C09/C10/C11: runs the real `cpulist` and `many_cpus_impl` code on stimuli produced by TLC
//! (or seeded random ones) and records what happened as ndjson for TLC to judge.
use std::env;

mod cpulist_h;
mod procselect_h;

fn main() {
    vrt::quiet_panics();
    let args: Vec<String> = env::args().collect();
    match args.get(1).map(String::as_str) {
        Some("cpulist-emit") => cpulist_h::emit_cases(&args[2], &args[3], args[4].parse().unwrap()),
        Some("cpulist-parse") => cpulist_h::parse_cases(&args[2], &args[3], args[4].parse().unwrap()),
        Some("cpulist-random") => cpulist_h::random(&args[2], args[3].parse().unwrap(), args[4].parse().unwrap()),
        Some("procselect") => procselect_h::cases(&args[2], &args[3], args[4].parse().unwrap()),
        Some("procselect-random") => procselect_h::random(&args[2], args[3].parse().unwrap()),
        _ => {
            eprintln!("usage: h_cpus <cpulist-emit|cpulist-parse|cpulist-random> ...");
            std::process::exit(2);
        }
    }
}
