//! C10: pin / spawn histories replayed on the REAL kernel (and on the H4 Linux platform over a harness kernel that
//! stores raw mask bytes, and on fake hardware), with the OS's own view read back by the harness after every
//! operation and logged next to the library's answers, for TLC (Trace_Pinning) to judge.
//!
//! Only threads spawned here (or by the library on behalf of this harness) are ever pinned; the main thread and the
//! process affinity are never touched.
use std::collections::{BTreeMap, BTreeSet, HashMap};
use std::sync::mpsc::{channel, Receiver, Sender};
use std::sync::{Arc, Mutex};
use std::thread::{self, ThreadId};

use many_cpus_impl::fake::{HardwareBuilder, ProcessorBuilder};
use many_cpus_impl::verif::{VerifAffinityKernel, VerifLinuxPlatform};
use many_cpus_impl::{ProcessorSet, SystemHardware};
use vrt::{json, Rng, Tracer, Value};

use crate::inventory_h;
use crate::masks_h::{emb_id, set_bits};

// ------------------------------------------------------------------------------------------------ harness kernel

/// A stand-in for the kernel's affinity syscalls that keeps, per thread, the raw bytes it was last handed.
/// Semantics follow kernel/sched/syscalls.c: setaffinity zero-extends / truncates the user mask to the kernel's
/// cpumask size, intersects with the cpus that exist and fails with EINVAL when nothing is left; getaffinity fails
/// with EINVAL when the buffer is shorter than nr_cpu_ids bits or not a multiple of sizeof(long).
#[derive(Debug)]
pub struct HKernel {
    nr_cpu_ids: usize,
    cpus: BTreeSet<u32>, // cpus that exist (active)
    threads: Mutex<HashMap<ThreadId, ThreadAff>>,
    get_widths: Mutex<HashMap<ThreadId, Vec<(usize, bool)>>>, // bytes offered to getaffinity, accepted?
    tick: Mutex<u64>,
    /// threads whose next sched_setaffinity is refused with EINVAL (fault injection: the OS does not take the mask)
    refuse: Mutex<std::collections::HashSet<ThreadId>>,
}

#[derive(Debug, Clone)]
struct ThreadAff {
    raw: Vec<u8>,
    effective: BTreeSet<u32>,
}

const EINVAL: i32 = 22;

impl HKernel {
    pub fn new(nr_cpu_ids: usize, cpus: BTreeSet<u32>) -> Self {
        Self { nr_cpu_ids, cpus, threads: Mutex::new(HashMap::new()), get_widths: Mutex::new(HashMap::new()), tick: Mutex::new(0),
               refuse: Mutex::new(std::collections::HashSet::new()) }
    }
    /// the calling thread's next sched_setaffinity fails
    pub fn refuse_next(&self) {
        self.refuse.lock().unwrap().insert(thread::current().id());
    }
    /// the affinity record of the calling thread (None = never set), to hand to a thread it creates
    fn entry(&self) -> Option<ThreadAff> {
        self.threads.lock().unwrap().get(&thread::current().id()).cloned()
    }
    /// a newly created thread starts with the affinity of its creator, as in the kernel
    fn inherit(&self, parent: Option<ThreadAff>) {
        if let Some(a) = parent {
            self.threads.lock().unwrap().insert(thread::current().id(), a);
        }
    }
    fn current(&self) -> ThreadAff {
        let id = thread::current().id();
        self.threads.lock().unwrap().get(&id).cloned().unwrap_or_else(|| {
            // never set: the default affinity is every cpu that exists; raw bytes as the kernel would report them
            let mut raw = vec![0u8; self.nr_cpu_ids.div_ceil(8)];
            for c in &self.cpus {
                raw[(*c / 8) as usize] |= 1 << (*c % 8);
            }
            ThreadAff { raw, effective: self.cpus.clone() }
        })
    }
    /// (raw bytes last accepted for the calling thread, effective set)
    pub fn snapshot(&self) -> (Vec<u8>, BTreeSet<u32>) {
        let a = self.current();
        (a.raw, a.effective)
    }
    pub fn take_get_widths(&self) -> Vec<(usize, bool)> {
        self.get_widths.lock().unwrap().remove(&thread::current().id()).unwrap_or_default()
    }
}

impl VerifAffinityKernel for HKernel {
    fn sched_setaffinity_current(&self, mask: &[u8]) -> Result<(), i32> {
        if self.refuse.lock().unwrap().remove(&thread::current().id()) {
            return Err(EINVAL);
        }
        let mut eff = BTreeSet::new();
        for b in set_bits(mask) {
            if (b as usize) < self.nr_cpu_ids && self.cpus.contains(&b) {
                eff.insert(b);
            }
        }
        if eff.is_empty() {
            return Err(EINVAL);
        }
        self.threads.lock().unwrap().insert(thread::current().id(), ThreadAff { raw: mask.to_vec(), effective: eff });
        Ok(())
    }

    fn sched_getaffinity_current(&self, buffer: &mut [u8]) -> Result<(), i32> {
        let ok = buffer.len() * 8 >= self.nr_cpu_ids && buffer.len() % 8 == 0;
        self.get_widths.lock().unwrap().entry(thread::current().id()).or_default().push((buffer.len(), ok));
        if !ok {
            return Err(EINVAL);
        }
        for c in self.current().effective {
            buffer[(c / 8) as usize] |= 1 << (c % 8);
        }
        Ok(())
    }

    fn sched_getcpu(&self) -> i32 {
        // any cpu of the affinity; rotates so that answers differ over time
        let eff = self.current().effective;
        let mut t = self.tick.lock().unwrap();
        *t += 1;
        *eff.iter().nth((*t as usize) % eff.len()).unwrap() as i32
    }
}

// ------------------------------------------------------------------------------------------------ hardware instances

#[derive(Clone, Copy, Debug, PartialEq, Eq)]
pub enum Kind {
    Real,
    Linux,
    Fake,
}

#[derive(Clone)]
pub struct Hw {
    pub h: u32,
    pub kind: Kind,
    pub hw: SystemHardware,
    pub procs: Vec<(u32, u32)>, // (id, region) of every processor the instance reports
    pub map: Vec<u32>,          // abstract processor -> processor id of this instance
    pub full: bool,             // the set of all abstract processors is replayed as the set of ALL processors of the instance
    pub kernel: Option<Arc<HKernel>>,
    pub platform: Option<VerifLinuxPlatform>,
}

fn procs_of(hw: &SystemHardware) -> Vec<(u32, u32)> {
    hw.all_processors().processors().iter().map(|p| (p.id(), p.memory_region_id())).collect()
}

pub fn real_hw(h: u32, map: Vec<u32>) -> Hw {
    let hw = SystemHardware::current().clone();
    Hw { h, kind: Kind::Real, procs: procs_of(&hw), hw, map, full: false, kernel: None, platform: None }
}

/// Fake hardware with the given (id, region) processors.
pub fn fake_hw(h: u32, procs: &[(u32, u32)], map: Vec<u32>) -> Hw {
    let mut b = HardwareBuilder::new();
    for (id, region) in procs {
        b = b.processor(ProcessorBuilder::new().id(*id).memory_region(*region));
    }
    let hw = SystemHardware::fake(b);
    Hw { h, kind: Kind::Fake, procs: procs_of(&hw), hw, map, full: false, kernel: None, platform: None }
}

/// The H4 Linux platform over a harness kernel: cpu 0 plus the given ids (typically >= 64), two nodes.
pub fn linux_hw(h: u32, ids: &[u32], nodes: &[u32], nr_cpu_ids: usize, map: Vec<u32>, top_extra: bool) -> Hw {
    let mut all: BTreeSet<u32> = ids.iter().copied().collect();
    all.insert(0);
    let mut possible = all.clone();
    if top_extra {
        possible.insert(nr_cpu_ids as u32 - 1); // the id space reaches the top of the kernel's mask
    }
    // (without it the largest processor id IS the reported maximum: the boundary of every "id <= max" filter)
    let mut members: BTreeMap<u32, BTreeSet<u32>> = BTreeMap::new();
    members.entry(nodes[0]).or_default().insert(0);
    for (i, id) in ids.iter().enumerate() {
        members.entry(nodes[if i < 2 { 0 } else { nodes.len() - 1 }]).or_default().insert(*id);
    }
    let node_ids: BTreeSet<u32> = members.keys().copied().collect();
    let d = json!({
        "possible": {"p": true, "ids": possible}, "online": {"p": true, "ids": all},
        "rows": all.iter().map(|c| json!({"id": c, "bogo": 4800, "file": -1})).collect::<Vec<_>>(),
        "style": 0, "allowed": all,
        "nodes": {"p": true, "ids": node_ids},
        "members": members.iter().map(|(n, cpus)| json!({"n": n, "f": true, "cpus": cpus})).collect::<Vec<_>>(),
        "cg": {"k": "none", "q": 0, "p": 0},
    });
    let kernel = Arc::new(HKernel::new(nr_cpu_ids, all.clone()));
    let platform = VerifLinuxPlatform::new(Arc::new(inventory_h::render(&d)), kernel.clone());
    let hw = platform.hardware();
    Hw { h, kind: Kind::Linux, procs: procs_of(&hw), hw, map, full: false, kernel: Some(kernel), platform: Some(platform) }
}

fn hw_json(x: &Hw) -> Value {
    json!({"h": x.h, "kind": match x.kind { Kind::Real => "R", Kind::Linux => "L", Kind::Fake => "F" },
           "procs": x.procs.iter().map(|(i, r)| json!({"id": i, "region": r})).collect::<Vec<_>>(),
           "maxcpu": x.hw.max_processor_id()})
}

// ------------------------------------------------------------------------------------------------ observing

/// The real kernel's affinity of the calling thread, read by the harness itself.
pub fn libc_affinity() -> Vec<u32> {
    // SAFETY: plain syscall wrappers over a zeroed cpu_set_t owned by this frame.
    unsafe {
        let mut set: libc::cpu_set_t = std::mem::zeroed();
        let rc = libc::sched_getaffinity(0, std::mem::size_of::<libc::cpu_set_t>(), &mut set);
        assert_eq!(rc, 0, "harness: sched_getaffinity failed");
        (0..libc::CPU_SETSIZE as usize).filter(|i| libc::CPU_ISSET(*i, &set)).map(|i| i as u32).collect()
    }
}

fn libc_getcpu() -> i32 {
    // SAFETY: no preconditions.
    unsafe { libc::sched_getcpu() }
}

fn set_ids(set: &ProcessorSet) -> Vec<u32> {
    set.processors().iter().map(|p| p.id()).collect()
}

/// Everything the OS and the library say about the calling thread through hardware instance `x`.
pub fn observe(x: &Hw, t: u32) -> Value {
    let (k, kaff, kcpu, kwords, klen, ctp, widths): (bool, Vec<u32>, i64, Vec<Value>, usize, (Vec<u32>, String), Vec<Value>) = match x.kind {
        Kind::Real => (true, libc_affinity(), i64::from(libc_getcpu()), vec![], 0, (vec![], String::new()), vec![]),
        Kind::Fake => (false, vec![], -1, vec![], 0, (vec![], String::new()), vec![]),
        Kind::Linux => {
            let kernel = x.kernel.as_ref().unwrap();
            let (raw, eff) = kernel.snapshot();
            // raw bytes -> words (native endian, as the kernel reads unsigned longs) -> bit offsets
            let mut words = Vec::new();
            for (w, chunk) in raw.chunks(8).enumerate() {
                let mut b = [0u8; 8];
                b[..chunk.len()].copy_from_slice(chunk);
                let v = u64::from_ne_bytes(b);
                if v != 0 {
                    let offs: Vec<u32> = (0..64).filter(|o| v & (1u64 << o) != 0).collect();
                    words.push(json!([w, offs]));
                }
            }
            let kcpu = i64::from(kernel.sched_getcpu());
            let p = x.platform.unwrap();
            let _ = kernel.take_get_widths();
            let ctp = match vrt::catch(move || p.current_thread_processors()) {
                Ok(v) => (v, String::new()),
                Err(m) => (vec![], m),
            };
            let widths = kernel.take_get_widths().iter().map(|(b, ok)| json!([b, ok])).collect();
            (true, eff.into_iter().collect(), kcpu, words, raw.len(), ctp, widths)
        }
    };
    let hw = x.hw.clone();
    let lib = vrt::catch(move || {
        let pp = hw.is_thread_processor_pinned();
        let rp = hw.is_thread_memory_region_pinned();
        let cpu = hw.current_processor_id();
        let region = hw.current_memory_region_id();
        let tp = hw.thread_processors().map(|s| set_ids(&s));
        (pp, rp, cpu, region, tp)
    });
    match lib {
        Ok((pp, rp, cpu, region, tp)) => json!({"ev":"obs","t":t,"h":x.h,"k":k,"kaff":kaff,"kcpu":kcpu,"kwords":kwords,"klen":klen,
            "ctp":ctp.0,"ctppanic":ctp.1,"widths":widths,"pp":pp,"rp":rp,"cpu":cpu,"region":region,"tpsome":tp.is_some(),"tp":tp.unwrap_or_default(),"panic":""}),
        Err(m) => json!({"ev":"obs","t":t,"h":x.h,"k":k,"kaff":kaff,"kcpu":kcpu,"kwords":kwords,"klen":klen,"ctp":ctp.0,"ctppanic":ctp.1,"widths":widths,
            "pp":false,"rp":false,"cpu":-1,"region":-1,"tpsome":false,"tp":[],"panic":m}),
    }
}

thread_local! {
    static SET_ORDER: std::cell::Cell<u32> = const { std::cell::Cell::new(0) };
}

/// The same SET of processors reaches the library in different ways (per thread, in turn): filtered out of all processors
/// (grouped by memory region, ascending), or named one by one with take_exact in the caller's order - descending, or
/// "sandwiched": first and last processor from one memory region, the processors of the other regions in between.
fn set_of(x: &Hw, ids: &[u32]) -> ProcessorSet {
    let want: BTreeSet<u32> = ids.iter().copied().collect();
    let all = x.hw.all_processors();
    let variant = SET_ORDER.with(|c| {
        c.set(c.get() + 1);
        c.get() % 3
    });
    if variant == 0 {
        return all.filter(|p| want.contains(&p.id())).expect("harness: stimulus names processors of the instance");
    }
    let mut procs: Vec<_> = all.processors().iter().filter(|p| want.contains(&p.id())).cloned().collect();
    assert_eq!(procs.len(), want.len(), "harness: stimulus names processors of the instance");
    procs.sort_by_key(|p| std::cmp::Reverse(p.id()));
    if variant == 2 {
        let mut by_region: BTreeMap<u32, Vec<_>> = BTreeMap::new();
        for p in &procs {
            by_region.entry(p.memory_region_id()).or_default().push(p.clone());
        }
        let r = by_region.iter().find(|(_, v)| v.len() >= 2).map(|(r, _)| *r).unwrap_or_else(|| *by_region.keys().next().unwrap());
        let mine = by_region.remove(&r).unwrap();
        let mut v = vec![mine[0].clone()];
        v.extend(by_region.into_values().flatten());
        v.extend(mine.into_iter().skip(1));
        procs = v;
    }
    all.to_builder().take_exact(nonempty::NonEmpty::from_vec(procs).expect("non-empty set"))
}

// ------------------------------------------------------------------------------------------------ actor threads

enum Cmd {
    Pin(usize, Vec<u32>),
    /// the OS refuses the mask (harness kernel only; elsewhere an ordinary pin)
    PinRefused(usize, Vec<u32>),
    /// a plain std thread created by this thread (it inherits the creator's OS affinity and has no library state)
    /// pins ITSELF to the set
    PlainPin(usize, Vec<u32>),
    Obs(usize),
    SpawnThreads(usize, Vec<u32>),
    SpawnThread(usize, Vec<u32>),
    Exit,
}

struct Actor {
    tx: Sender<Cmd>,
    rx: Receiver<Vec<Value>>,
    join: thread::JoinHandle<()>,
}

/// Child observations carry t = -1; the main thread numbers the children.
fn actor_main(t: u32, hws: Arc<Vec<Hw>>, rx: Receiver<Cmd>, tx: Sender<Vec<Value>>) {
    tx.send(vec![json!({"ev":"start","t":t,"aff":libc_affinity()})]).unwrap();
    while let Ok(cmd) = rx.recv() {
        let out = match cmd {
            Cmd::Exit => break,
            Cmd::Obs(i) => vec![observe(&hws[i], t)],
            Cmd::Pin(i, ids) => {
                let x = hws[i].clone();
                let ids2 = ids.clone();
                let r = vrt::catch(move || set_of(&x, &ids2).pin_current_thread_to());
                vec![json!({"ev":"pin","t":t,"h":hws[i].h,"s":ids,"panic":r.err().unwrap_or_default()})]
            }
            Cmd::PinRefused(i, ids) => {
                let x = hws[i].clone();
                let refused = x.kind == Kind::Linux;
                if let Some(k) = &x.kernel {
                    k.refuse_next();
                }
                let ids2 = ids.clone();
                let r = vrt::catch(move || set_of(&x, &ids2).pin_current_thread_to());
                vec![json!({"ev":"pin","t":t,"h":hws[i].h,"s":ids,"refused":refused,"panic":r.err().unwrap_or_default()})]
            }
            Cmd::PlainPin(i, ids) => {
                let x = hws[i].clone();
                let hws2 = hws.clone();
                let parents: Vec<Option<ThreadAff>> = hws.iter().map(|y| y.kernel.as_ref().and_then(|k| k.entry())).collect();
                let ids2 = ids.clone();
                let r: ChildResult = Ok(vec![thread::spawn(move || {
                    for (y, p) in hws2.iter().zip(parents) {
                        if let Some(k) = &y.kernel {
                            k.inherit(p);
                        }
                    }
                    let x2 = x.clone();
                    let ids3 = ids2.clone();
                    let pinned = vrt::catch(move || set_of(&x2, &ids3).pin_current_thread_to());
                    let mut obs: Vec<Value> = hws2.iter().map(|y| observe(y, 0)).collect();
                    if let Err(m) = pinned {
                        obs.push(json!({"ev":"obs","t":0,"h":x.h,"k":false,"kaff":[],"kcpu":-1,"kwords":[],"klen":0,"ctp":[],"ctppanic":"","widths":[],
                            "pp":false,"rp":false,"cpu":-1,"region":-1,"tpsome":false,"tp":[],"panic":format!("pin panicked: {m}")}));
                    }
                    (u32::MAX, obs.into_iter().chain(std::iter::once(json!({"gset": ids2}))).collect())
                })
                .join()]);
                spawn_result(t, &hws[i], "plain", r)
            }
            Cmd::SpawnThreads(i, ids) => {
                let x = hws[i].clone();
                let hws2 = hws.clone();
                let r = vrt::catch(move || {
                    let handles = set_of(&x, &ids).spawn_threads(move |p| {
                        let obs: Vec<Value> = hws2.iter().map(|y| observe(y, 0)).collect();
                        (p.id(), obs)
                    });
                    handles.into_vec().into_iter().map(|h| h.join()).collect::<Vec<_>>()
                });
                spawn_result(t, &hws[i], "threads", r)
            }
            Cmd::SpawnThread(i, ids) => {
                let x = hws[i].clone();
                let hws2 = hws.clone();
                let r = vrt::catch(move || {
                    let handle = set_of(&x, &ids).spawn_thread(move |set| {
                        let obs: Vec<Value> = hws2.iter().map(|y| observe(y, 0)).collect();
                        // a set stands in for "given": report its ids through the first element, the rest in obs
                        (u32::MAX, obs.into_iter().chain(std::iter::once(json!({"gset": set_ids(&set)}))).collect())
                    });
                    vec![handle.join()]
                });
                spawn_result(t, &hws[i], "thread", r)
            }
        };
        tx.send(out).unwrap();
    }
}

type ChildResult = Result<Vec<thread::Result<(u32, Vec<Value>)>>, String>;

fn spawn_result(t: u32, x: &Hw, kind: &str, r: ChildResult) -> Vec<Value> {
    match r {
        Err(m) => vec![json!({"ev":"spawn","t":t,"h":x.h,"kind":kind,"children":[],"panic":m})],
        Ok(results) => {
            let mut children = Vec::new();
            let mut obs_all = Vec::new();
            let mut panic = String::new();
            for (ci, res) in results.into_iter().enumerate() {
                match res {
                    Ok((given, mut obs)) => {
                        let gset = if given == u32::MAX { obs.pop().unwrap()["gset"].clone() } else { json!([given]) };
                        children.push(json!({"c": ci, "gset": gset}));
                        for mut o in obs {
                            o["t"] = json!(-(ci as i64) - 1); // renumbered by the main thread
                            obs_all.push(o);
                        }
                    }
                    Err(e) => panic = format!("child panicked: {}", vrt::panic_message(&e)),
                }
            }
            let mut v = vec![json!({"ev":"spawn","t":t,"h":x.h,"kind":kind,"children":children,"panic":panic})];
            v.extend(obs_all);
            v
        }
    }
}

fn start_actor(t: u32, hws: Arc<Vec<Hw>>) -> (Actor, Vec<Value>) {
    let (tx, rx_cmd) = channel();
    let (tx_out, rx) = channel();
    let join = thread::spawn(move || actor_main(t, hws, rx_cmd, tx_out));
    let first = rx.recv().unwrap();
    (Actor { tx, rx, join }, first)
}

fn call(a: &Actor, c: Cmd) -> Vec<Value> {
    a.tx.send(c).unwrap();
    a.rx.recv().expect("actor thread died")
}

/// Writes the events of one scenario / worker contiguously (several producers share the tracer).
static BLOCK: Mutex<()> = Mutex::new(());
fn emit_block(tr: &Tracer, events: &[Value]) {
    let _g = BLOCK.lock().unwrap();
    for e in events {
        tr.emit(e);
    }
}

// ------------------------------------------------------------------------------------------------ scenarios

/// Ways of injecting 3 abstract processors into the processors actually available to the process.
fn injections(avail: &[u32], rng: &mut Rng) -> Vec<Vec<u32>> {
    let n = avail.len();
    assert!(n >= 3, "need at least 3 available processors");
    let mut v = vec![
        vec![avail[0], avail[1], avail[2]],
        vec![avail[n - 3], avail[n - 2], avail[n - 1]],
        vec![avail[0], avail[n / 2], avail[n - 1]],
        vec![avail[n - 1], avail[n / 3], avail[1]], // not in ascending order
    ];
    let mut pool = avail.to_vec();
    for i in (1..pool.len()).rev() {
        pool.swap(i, rng.below(i as u64 + 1) as usize);
    }
    v.push(pool[..3].to_vec());
    v
}

struct Ctx {
    buf: Vec<Value>,
    next_child: u32,
}

impl Ctx {
    fn emit(&mut self, v: &Value) {
        self.buf.push(v.clone());
    }
}

/// Replays one history (ops over abstract processors / threads 1..2 / instances 1..2) on a pair of hardware instances.
fn run_history(ctx: &mut Ctx, ops: &[Value], hws: Vec<Hw>, aff0: &[u32]) {
    let hws = Arc::new(hws);
    ctx.emit(&json!({"ev":"reset","hw":hws.iter().map(hw_json).collect::<Vec<_>>(),"aff0":aff0}));
    ctx.next_child = 100;
    let mut actors = Vec::new();
    for t in 1..=2u32 {
        let (a, first) = start_actor(t, hws.clone());
        for e in first {
            ctx.emit(&e);
        }
        actors.push(a);
    }
    for op in ops {
        let t = op["t"].as_u64().unwrap() as usize;
        let hi = op["h"].as_u64().unwrap() as usize - 1;
        let mut ids: Vec<u32> = op["s"].as_array().unwrap().iter().map(|p| hws[hi].map[p.as_u64().unwrap() as usize]).collect();
        // "full" embedding: the set of ALL abstract processors stands for every processor of the instance
        if hws[hi].full && ids.len() == hws[hi].map.len() {
            ids = hws[hi].procs.iter().map(|(id, _)| *id).collect();
        }
        let cmd = match op["op"].as_str().unwrap() {
            "pin" => Cmd::Pin(hi, ids.clone()),
            "pin_refused" => Cmd::PinRefused(hi, ids.clone()),
            "plain_pin" => Cmd::PlainPin(hi, ids.clone()),
            "spawn_threads" => Cmd::SpawnThreads(hi, ids.clone()),
            "spawn_thread" => Cmd::SpawnThread(hi, ids.clone()),
            o => panic!("unknown op {o}"),
        };
        let out = call(&actors[t - 1], cmd);
        emit_with_children(ctx, out, &ids);
        // after every operation: every live thread, through every instance
        for (ai, a) in actors.iter().enumerate() {
            for i in 0..hws.len() {
                let _ = ai;
                for e in call(a, Cmd::Obs(i)) {
                    ctx.emit(&e);
                }
            }
        }
    }
    for a in actors {
        a.tx.send(Cmd::Exit).unwrap();
        a.join.join().unwrap();
    }
}

/// Numbers the children of a spawn event (fresh thread ids) and emits the event followed by their observations.
fn emit_with_children(ctx: &mut Ctx, mut out: Vec<Value>, requested: &[u32]) {
    if out.is_empty() {
        return;
    }
    if out[0]["ev"] == "spawn" {
        let base = ctx.next_child;
        let n = out[0]["children"].as_array().unwrap().len() as u32;
        ctx.next_child += n;
        let kids: Vec<Value> = out[0]["children"].as_array().unwrap().iter()
            .map(|c| json!({"t": base + c["c"].as_u64().unwrap() as u32, "gset": c["gset"]})).collect();
        out[0]["children"] = json!(kids);
        out[0]["s"] = json!(requested);
        for e in out.iter_mut().skip(1) {
            let neg = e["t"].as_i64().unwrap();
            e["t"] = json!(base + (-neg - 1) as u32);
        }
    }
    for e in out {
        ctx.emit(&e);
    }
}

const L_MODEL_IDS: [u32; 3] = [2, 3, 8]; // model ids (CpuMask.tla): word 0 top bit, word 1 low bit, word 2 top bit
const L_NR_CPU_IDS: [usize; 4] = [1024, 2048, 4096, 8192];

fn linux_instance(h: u32, e: usize) -> Hw {
    let ids: Vec<u32> = L_MODEL_IDS.iter().map(|m| emb_id(e, *m)).collect();
    let need = *ids.iter().max().unwrap() as usize + 1;
    let nr = L_NR_CPU_IDS.iter().copied().find(|n| *n >= need).unwrap().max(L_NR_CPU_IDS[e]);
    linux_hw(h, &ids, &[1, 3], nr, ids.clone(), e % 2 == 1)
}

/// TLC-generated histories.  `bindings`: comma separated pairs out of RF, LF, RL, FL (instance 1, instance 2).
/// Scenarios are independent (fresh threads, fresh fake / H4 instances), so several run at once; the events of one
/// scenario are written contiguously.
pub fn histories(cases: &str, out: &str, bindings: &str) {
    let tr = Tracer::create(out);
    let mut rng = Rng::new(vrt::seed_from_env() ^ 0xC10);
    let aff0 = libc_affinity();
    let injs = injections(&aff0, &mut rng);
    let all = vrt::read_ndjson(cases);
    let jobs: Vec<(usize, usize, String)> = all.iter().enumerate()
        .flat_map(|(ci, _)| bindings.split(',').enumerate().map(move |(bi, b)| (ci, bi, b.to_string())))
        .collect();
    let next = Mutex::new(0usize);
    thread::scope(|sc| {
        for _ in 0..8 {
            sc.spawn(|| loop {
                let j = {
                    let mut g = next.lock().unwrap();
                    let j = *g;
                    *g += 1;
                    j
                };
                let Some((ci, bi, b)) = jobs.get(j) else { break };
                let ops = all[*ci]["ops"].as_array().unwrap();
                let inj = injs[(ci + bi) % injs.len()].clone();
                let e = (ci + bi) % 4;
                let mk = |h: u32, c: char| -> Hw {
                    match c {
                        'R' => real_hw(h, inj.clone()),
                        'L' => linux_instance(h, e),
                        // lower case: the same, with the full abstract set standing for every processor of the instance
                        'r' => Hw { full: true, ..real_hw(h, inj.clone()) },
                        'l' => Hw { full: true, ..linux_instance(h, e) },
                        // fake: ids unrelated to the real ones; processors 0,1 share a region, 2 is alone, one bystander
                        _ => fake_hw(h, &[(5, 4), (6, 4), (9, 7), (11, 7)], vec![5, 6, 9]),
                    }
                };
                let mut cs = b.chars();
                let hws = vec![mk(1, cs.next().unwrap()), mk(2, cs.next().unwrap())];
                let mut ctx = Ctx { buf: Vec::new(), next_child: 100 };
                run_history(&mut ctx, ops, hws, &aff0);
                emit_block(&tr, &ctx.buf);
            });
        }
    });
}

/// Every non-empty subset (`mode` = all) or all singletons, all pairs and `sample` seeded subsets of the processors
/// available to the process: a worker thread re-pins itself from subset to subset through the real hardware while a
/// fake instance with the same ids (4 regions) is alive and is pinned to something else now and then.
pub fn subsets(out: &str, mode: &str, sample: u64, budget_secs: u64) {
    let tr = Tracer::create(out);
    let mut rng = Rng::new(vrt::seed_from_env() ^ 0x5B5);
    let aff0 = libc_affinity();
    let n = aff0.len();
    let mut masks: Vec<u32> = Vec::new();
    if mode == "all" {
        masks.extend(1..(1u32 << n));
    } else {
        for i in 0..n {
            masks.push(1 << i);
            for j in (i + 1)..n {
                masks.push((1 << i) | (1 << j));
            }
        }
        for _ in 0..sample {
            masks.push(1 + rng.below((1u64 << n) - 1) as u32);
        }
    }
    // shuffle so that consecutive pins differ in size and position (and a truncated run is a uniform sample)
    for i in (1..masks.len()).rev() {
        masks.swap(i, rng.below(i as u64 + 1) as usize);
    }
    let fake_procs: Vec<(u32, u32)> = aff0.iter().enumerate().map(|(i, id)| (*id, (i % 4) as u32)).collect();
    // independent segments (fresh threads, fresh fake instance) so that the judge can validate them in parallel
    const SEGMENT: usize = 4096;
    let t0 = std::time::Instant::now();
    let mut covered = 0usize;
    for seg in masks.chunks(SEGMENT) {
        if t0.elapsed().as_secs() >= budget_secs {
            break;
        }
        subsets_segment(&tr, seg, &aff0, &fake_procs);
        covered += seg.len();
    }
    println!("{}", json!({"covered": covered, "total": masks.len(), "secs": t0.elapsed().as_secs()}));
}

/// `pin-idrace <out> <rounds>`: hardware instances created at the same moment on 4 threads (the situation fake hardware
/// exists for: parallel tests, each with its own instance).  One fresh thread then walks over all of them in turn: observe
/// (nothing was ever pinned through this instance on this thread), pin through it, observe.  Ordinary reset / start / obs /
/// pin records, judged by Trace_Pinning: an instance that answers from another instance's pin is rejected.
pub fn idrace(out: &str, rounds: usize) {
    const THREADS: usize = 4;
    const PER: usize = 48;
    let tr = Tracer::create(out);
    let aff0 = libc_affinity();
    for _ in 0..rounds {
        let barrier = Arc::new(std::sync::Barrier::new(THREADS));
        let mut hs = Vec::new();
        for w in 0..THREADS {
            let (b, aff) = (barrier.clone(), aff0.clone());
            hs.push(thread::spawn(move || {
                b.wait();
                (0..PER).map(|_| fake_hw(0, &[(0, 0), (1, (w % 2) as u32), (2, 1)], aff.clone())).collect::<Vec<Hw>>()
            }));
        }
        let mut hws = Vec::new();
        for h in hs {
            hws.extend(h.join().unwrap());
        }
        for (i, x) in hws.iter_mut().enumerate() {
            x.h = i as u32 + 1;
        }
        let hws = Arc::new(hws);
        tr.emit(&json!({"ev":"reset","hw":hws.iter().map(hw_json).collect::<Vec<_>>(),"aff0":aff0}));
        let hws2 = hws.clone();
        let ev = thread::spawn(move || {
            let t = 1u32;
            let mut ev = vec![json!({"ev":"start","t":t,"aff":libc_affinity()})];
            for (i, x) in hws2.iter().enumerate() {
                ev.push(observe(x, t));
                let ids: Vec<u32> = if i % 4 == 3 { vec![0, 2] } else { vec![(i % 3) as u32] };
                let (y, ids1) = (x.clone(), ids.clone());
                let r = vrt::catch(move || set_of(&y, &ids1).pin_current_thread_to());
                ev.push(json!({"ev":"pin","t":t,"h":x.h,"s":ids,"panic":r.err().unwrap_or_default()}));
                ev.push(observe(x, t));
            }
            ev
        })
        .join()
        .unwrap();
        emit_block(&tr, &ev);
    }
    tr.flush();
}

/// 8 worker threads re-pin themselves concurrently, each through its own slice of the subsets.
fn subsets_segment(tr: &Tracer, masks: &[u32], aff0: &[u32], fake_procs: &[(u32, u32)]) {
    let n = aff0.len();
    let hws = Arc::new(vec![real_hw(1, aff0.to_vec()), fake_hw(2, fake_procs, aff0.to_vec())]);
    tr.emit(&json!({"ev":"reset","hw":hws.iter().map(hw_json).collect::<Vec<_>>(),"aff0":aff0}));
    let workers = 8usize;
    let chunk = masks.len().div_ceil(workers);
    thread::scope(|sc| {
        let mut handles = Vec::new();
        for (wi, slice) in masks.chunks(chunk).enumerate() {
            let hws = hws.clone();
            handles.push(sc.spawn(move || {
                let t = wi as u32 + 1;
                let mut ev = vec![json!({"ev":"start","t":t,"aff":libc_affinity()})];
                for (round, mask) in slice.iter().enumerate() {
                    let ids: Vec<u32> = (0..n).filter(|i| mask & (1 << i) != 0).map(|i| aff0[i]).collect();
                    let x = hws[0].clone();
                    let ids1 = ids.clone();
                    let r = vrt::catch(move || set_of(&x, &ids1).pin_current_thread_to());
                    ev.push(json!({"ev":"pin","t":t,"h":1,"s":ids,"panic":r.err().unwrap_or_default()}));
                    if round % 5 == 2 {
                        // pin through the fake instance to an unrelated set: must not disturb the real one, nor vice versa
                        let m2 = slice[(round * 7 + 3) % slice.len()];
                        let ids2: Vec<u32> = (0..n).filter(|i| m2 & (1 << i) != 0).map(|i| aff0[i]).collect();
                        let y = hws[1].clone();
                        let ids3 = ids2.clone();
                        let r = vrt::catch(move || set_of(&y, &ids3).pin_current_thread_to());
                        ev.push(json!({"ev":"pin","t":t,"h":2,"s":ids2,"panic":r.err().unwrap_or_default()}));
                    }
                    ev.push(observe(&hws[0], t));
                    ev.push(observe(&hws[1], t));
                }
                ev
            }));
        }
        for h in handles {
            emit_block(tr, &h.join().unwrap());
        }
    });
}
