//! Harness for C15 (future_deque): runs scripted futures, counting parent wakers and remote waker operations on the
//! real `FutureDeque` / `LocalFutureDeque` under the deterministic scheduler, following a TLC-generated schedule
//! (`Script`, drift measured) or a seeded random / PCT schedule, and records everything as ndjson for TLC to judge.
//!
//! usage: h_fdeque run <stimuli.ndjson> <trace_out.ndjson> <summary_out.ndjson>
//!
//! Stimulus (one JSON object per line):
//!   {"id":7, "variant":"send"|"local",
//!    "dops":[{"op":"push_back","f":1},{"op":"poll","p":1},{"op":"poll_front","p":2},{"op":"pop_front"},{"op":"drop"}],
//!    "fut":{"1":["hand1","wake","ready"]},          behaviour of future 1 at its k-th poll (beyond the list: "silent")
//!    "rops":[[{"op":"wake_by_ref","f":1}],[{"op":"drop","f":1}]],     programs of the remote threads (tasks 1..)
//!    "strategy":"script"|"random"|"pct", "seed":123,
//!    "sched":[[0,"start"],[1,"start"],[2,"start"],[0,"dop"],[0,"rc.fadd"],...]}      for strategy "script"
//!
//! Scheduling points (labels a script refers to): "dop" before each deque operation, "rop" before each remote
//! operation, "<field>.<kind>" before each shimmed atomic operation of the crate ("rc.fadd", "rc.fsub", "act.swap",
//! "act.load", "act.store", ...), "parent.lock" before locking the shared parent waker, "pwake" before a parent
//! waker is woken.
use std::collections::HashMap;
use std::future::Future;
use std::pin::Pin;
use std::sync::atomic::{AtomicBool, Ordering};
use std::sync::{Arc, Mutex};
use std::task::{Context, Poll, Wake, Waker};

use future_deque::verif::{self as fv, Event, OpKind, Step};
use future_deque::{FutureDeque, LocalFutureDeque};
use vrt::sched::{self, Exec, Outcome, Strategy};
use vrt::{json, Tracer, Value};

// ------------------------------------------------------------------------------------------- global hook state

#[derive(Default)]
struct Glob {
    /// address of an atomic -> (future id of the metadata it belongs to, field name)
    loc: HashMap<usize, (u32, &'static str)>,
    /// address of a metadata block -> future id
    meta: HashMap<usize, u32>,
    /// future being pushed by the deque task (metadata created now belongs to it)
    pushing: u32,
}

static GLOB: Mutex<Option<Glob>> = Mutex::new(None);

fn with_glob<R>(f: impl FnOnce(&mut Glob) -> R) -> R {
    let mut g = GLOB.lock().unwrap_or_else(|e| e.into_inner());
    f(g.get_or_insert_with(Glob::default))
}

fn kind_name(k: OpKind) -> &'static str {
    match k {
        OpKind::Load => "load",
        OpKind::Store => "store",
        OpKind::Swap => "swap",
        OpKind::FetchAdd => "fadd",
        OpKind::FetchSub => "fsub",
        OpKind::CompareExchange => "cas",
        OpKind::MutexLock => "lock",
        OpKind::MutexUnlock => "unlock",
        _ => "other",
    }
}

fn ord_name(o: Ordering) -> &'static str {
    match o {
        Ordering::Relaxed => "rlx",
        Ordering::Acquire => "acq",
        Ordering::Release => "rel",
        Ordering::AcqRel => "acqrel",
        Ordering::SeqCst => "sc",
        _ => "other",
    }
}

fn locate(location: usize, kind: OpKind) -> (u32, &'static str) {
    if matches!(kind, OpKind::MutexLock | OpKind::MutexUnlock) {
        return (0, "parent");
    }
    with_glob(|g| g.loc.get(&location).copied().unwrap_or((0, "unknown")))
}

fn hook_before(location: usize, kind: OpKind, _order: Ordering) {
    if !sched::in_task() {
        return;
    }
    let (_, fld) = locate(location, kind);
    sched::point(&format!("{}.{}", fld, kind_name(kind)));
}

fn hook_after(s: &Step) {
    if !sched::in_task() {
        return;
    }
    let (f, fld) = locate(s.location, s.kind);
    // values are tiny (reference counts, flags); clamp so that a wrapped counter stays below 2^31
    let clamp = |v: usize| -> i64 { if v > 1_000_000 { 1_000_000 } else { v as i64 } };
    sched::emit(json!({"ev":"step","f":f,"fld":fld,"k":kind_name(s.kind),"ord":ord_name(s.order),
        "ford": s.failure_order.map(ord_name).unwrap_or("none"),
        "obs":clamp(s.observed),"wr":s.written.map(clamp).unwrap_or(-1)}));
}

fn hook_contended(_location: usize) {
    // Never happens under the scheduler as long as the critical sections contain no scheduling point; handled anyway.
    let mut first = true;
    sched::block_until("parent.lock(contended)", || {
        let r = !first;
        first = false;
        r
    });
}

fn hook_event(e: &Event) {
    if !sched::in_task() {
        return;
    }
    match *e {
        Event::MetaCreate { meta, ref_count, activated, .. } => {
            let f = with_glob(|g| {
                let f = g.pushing;
                g.meta.insert(meta, f);
                g.loc.insert(ref_count, (f, "rc"));
                g.loc.insert(activated, (f, "act"));
                f
            });
            sched::emit(json!({"ev":"meta_create","f":f}));
        }
        Event::MetaFree { meta } => {
            let f = with_glob(|g| g.meta.get(&meta).copied().unwrap_or(0));
            sched::emit(json!({"ev":"meta_free","f":f}));
        }
        Event::PollFuture { meta } => {
            let f = with_glob(|g| g.meta.get(&meta).copied().unwrap_or(0));
            sched::emit(json!({"ev":"hpoll","f":f}));
        }
        Event::PollFutureDone { ready } => sched::emit(json!({"ev":"hdone","ready":ready})),
        Event::ParentCheck { will_wake, .. } => sched::emit(json!({"ev":"pcheck","ww":will_wake})),
        _ => {}
    }
}

// ------------------------------------------------------------------------------------------- scripted pieces

/// Shared between the tasks of one run.
struct RunCtx {
    /// wakers held by remote thread t (index t-1): (future id, waker)
    bags: Vec<Mutex<Vec<(u32, Waker)>>>,
    /// the deque task has finished (deque dropped): remote threads drop what they still hold
    closing: AtomicBool,
}

impl RunCtx {
    fn has(&self, t: usize, f: u32) -> bool {
        self.bags[t - 1].lock().unwrap().iter().any(|(g, _)| *g == f)
    }
    fn take(&self, t: usize, f: u32) -> Option<Waker> {
        let mut b = self.bags[t - 1].lock().unwrap();
        let i = b.iter().position(|(g, _)| *g == f)?;
        Some(b.remove(i).1)
    }
    fn take_lowest(&self, t: usize) -> Option<(u32, Waker)> {
        let mut b = self.bags[t - 1].lock().unwrap();
        let i = (0..b.len()).min_by_key(|i| b[*i].0)?;
        Some(b.remove(i))
    }
    fn put(&self, t: usize, f: u32, w: Waker) {
        self.bags[t - 1].lock().unwrap().push((f, w));
    }
}

/// Output of a scripted future; its drop is an event unless the harness took it out through a pop.
struct Out {
    v: u32,
    taken: AtomicBool,
}

impl Drop for Out {
    fn drop(&mut self) {
        if !self.taken.load(Ordering::Relaxed) {
            sched::emit(json!({"ev":"odrop","v":self.v}));
        }
    }
}

#[derive(Clone, Copy, Debug, PartialEq)]
enum Beh {
    Silent,
    Wake,
    Hand(usize),
    Ready,
}

fn parse_beh(s: &str) -> Beh {
    match s {
        "silent" => Beh::Silent,
        "wake" => Beh::Wake,
        "ready" => Beh::Ready,
        _ if s.starts_with("hand") => Beh::Hand(s[4..].parse().expect("handN")),
        _ => panic!("unknown future behaviour {s}"),
    }
}

struct SFut {
    f: u32,
    beh: Vec<Beh>,
    k: usize,
    ctx: Arc<RunCtx>,
}

impl Future for SFut {
    type Output = Out;

    fn poll(self: Pin<&mut Self>, cx: &mut Context<'_>) -> Poll<Out> {
        let this = self.get_mut();
        this.k += 1;
        let f = this.f;
        sched::emit(json!({"ev":"fpoll","f":f,"k":this.k}));
        match this.beh.get(this.k - 1).copied().unwrap_or(Beh::Silent) {
            Beh::Silent => {}
            Beh::Wake => {
                sched::emit(json!({"ev":"winv","op":"wake_by_ref","f":f}));
                cx.waker().wake_by_ref();
                sched::emit(json!({"ev":"wres","op":"wake_by_ref","f":f}));
            }
            Beh::Hand(t) => {
                sched::emit(json!({"ev":"winv","op":"clone","f":f}));
                let w = cx.waker().clone();
                sched::emit(json!({"ev":"wres","op":"clone","f":f}));
                if t >= 1 && t <= this.ctx.bags.len() {
                    this.ctx.put(t, f, w);
                } else {
                    sched::emit(json!({"ev":"winv","op":"drop","f":f}));
                    drop(w);
                    sched::emit(json!({"ev":"wres","op":"drop","f":f}));
                }
            }
            Beh::Ready => {
                sched::emit(json!({"ev":"fres","f":f,"r":"ready","v":10 + f}));
                return Poll::Ready(Out { v: 10 + f, taken: AtomicBool::new(false) });
            }
        }
        sched::emit(json!({"ev":"fres","f":f,"r":"pending","v":0}));
        Poll::Pending
    }
}

impl Drop for SFut {
    fn drop(&mut self) {
        sched::emit(json!({"ev":"fdrop","f":self.f}));
    }
}

/// Parent waker (the deque's own task): waking it is a scheduling point and an event.
struct Parent {
    id: u32,
}

/// "exec_lock": the task wakers behave like those of an executor that guards a task's state with a lock E: the executor
/// holds E while it polls the task (here: while the deque is polled), and `wake` takes E to mark the task as notified - a
/// wake from inside the poll (the thread already holds E) just sets the flag.  Perfectly ordinary executor code; it only
/// requires of the deque that it does not call `wake` while holding a lock its own `poll` needs.
static EXEC_LOCK_ON: std::sync::atomic::AtomicBool = std::sync::atomic::AtomicBool::new(false);
static EXEC_LOCK: std::sync::atomic::AtomicBool = std::sync::atomic::AtomicBool::new(false);
thread_local! {
    static HOLDS_EXEC_LOCK: std::cell::Cell<bool> = const { std::cell::Cell::new(false) };
}

fn exec_lock_acquire() {
    sched::block_until("executor task lock", || EXEC_LOCK.compare_exchange(false, true, Ordering::SeqCst, Ordering::SeqCst).is_ok());
    HOLDS_EXEC_LOCK.with(|h| h.set(true));
}

fn exec_lock_release() {
    HOLDS_EXEC_LOCK.with(|h| h.set(false));
    EXEC_LOCK.store(false, Ordering::SeqCst);
}

fn parent_wake(id: u32) {
    sched::point("pwake");
    let locked = EXEC_LOCK_ON.load(Ordering::SeqCst) && !HOLDS_EXEC_LOCK.with(std::cell::Cell::get);
    if locked {
        exec_lock_acquire();
    }
    sched::emit(json!({"ev":"pwake","p":id}));
    if locked {
        exec_lock_release();
    }
}

impl Wake for Parent {
    fn wake(self: Arc<Self>) {
        self.wake_by_ref();
    }
    fn wake_by_ref(self: &Arc<Self>) {
        parent_wake(self.id);
    }
}

fn sp_wake<const ID: u32>(_p: *const ()) {
    parent_wake(ID);
}
fn sp_clone<const ID: u32>(p: *const ()) -> std::task::RawWaker {
    std::task::RawWaker::new(p, sp_vtable(ID))
}
fn sp_drop(_p: *const ()) {}
static SP_VTABLES: [std::task::RawWakerVTable; 3] = [
    std::task::RawWakerVTable::new(sp_clone::<1>, sp_wake::<1>, sp_wake::<1>, sp_drop),
    std::task::RawWakerVTable::new(sp_clone::<2>, sp_wake::<2>, sp_wake::<2>, sp_drop),
    std::task::RawWakerVTable::new(sp_clone::<3>, sp_wake::<3>, sp_wake::<3>, sp_drop),
];
fn sp_vtable(id: u32) -> &'static std::task::RawWakerVTable {
    &SP_VTABLES[(id - 1) as usize]
}
fn shared_parent(id: u32) -> Waker {
    static SHARED: u8 = 0;
    // SAFETY: the vtable functions never dereference or free the data pointer
    unsafe { Waker::from_raw(std::task::RawWaker::new(std::ptr::from_ref(&SHARED).cast(), sp_vtable(id))) }
}

enum Dq {
    Send(FutureDeque<Out>),
    Local(LocalFutureDeque<Out>),
}

impl Dq {
    fn push(&mut self, front: bool, fut: SFut) {
        match (self, front) {
            (Dq::Send(d), true) => d.push_front(fut),
            (Dq::Send(d), false) => d.push_back(fut),
            (Dq::Local(d), true) => d.push_front(fut),
            (Dq::Local(d), false) => d.push_back(fut),
        }
    }
    fn poll(&mut self, cx: &mut Context<'_>) -> Poll<()> {
        match self {
            Dq::Send(d) => d.poll(cx),
            Dq::Local(d) => d.poll(cx),
        }
    }
    fn poll_end(&mut self, front: bool, cx: &mut Context<'_>) -> Poll<Option<Out>> {
        match (self, front) {
            (Dq::Send(d), true) => d.poll_front(cx),
            (Dq::Send(d), false) => d.poll_back(cx),
            (Dq::Local(d), true) => d.poll_front(cx),
            (Dq::Local(d), false) => d.poll_back(cx),
        }
    }
    fn pop(&mut self, front: bool) -> Option<Out> {
        match (self, front) {
            (Dq::Send(d), true) => d.pop_front(),
            (Dq::Send(d), false) => d.pop_back(),
            (Dq::Local(d), true) => d.pop_front(),
            (Dq::Local(d), false) => d.pop_back(),
        }
    }
}

fn take_out(o: Out) -> u32 {
    o.taken.store(true, Ordering::Relaxed);
    o.v
}

// ------------------------------------------------------------------------------------------- tasks

fn deque_task(stim: Value, ctx: Arc<RunCtx>) {
    let local = stim["variant"].as_str() == Some("local");
    let mut dq = Some(if local { Dq::Local(LocalFutureDeque::new()) } else { Dq::Send(FutureDeque::new()) });
    // "parents":"shared-data": the three task wakers share one data pointer and differ in their vtable only (an index-style
    // or data-less waker of a hand-written executor): `will_wake` between them is false, a comparison of data pointers is not
    let parents: Vec<Waker> = if stim["parents"].as_str() == Some("shared-data") {
        (1..=3).map(shared_parent).collect()
    } else {
        (1..=3).map(|id| Waker::from(Arc::new(Parent { id }))).collect()
    };
    let exec_lock = stim["exec_lock"].as_bool().unwrap_or(false);
    EXEC_LOCK_ON.store(exec_lock, Ordering::SeqCst);
    EXEC_LOCK.store(false, Ordering::SeqCst);
    let mut ops: Vec<Value> = stim["dops"].as_array().cloned().unwrap_or_default();
    if ops.last().map(|o| o["op"].as_str() != Some("drop")).unwrap_or(true) {
        ops.push(json!({"op":"drop"}));
    }
    for op in ops {
        let name = op["op"].as_str().expect("op").to_string();
        let f = op["f"].as_u64().unwrap_or(0) as u32;
        let p = op["p"].as_u64().unwrap_or(0) as u32;
        sched::point("dop");
        let Some(d) = dq.as_mut() else { break };
        sched::emit(json!({"ev":"inv","op":name,"f":f,"p":p}));
        let (r, v): (&str, u32) = match name.as_str() {
            "push_front" | "push_back" => {
                let beh: Vec<Beh> = stim["fut"][f.to_string()]
                    .as_array()
                    .map(|a| a.iter().map(|b| parse_beh(b.as_str().expect("beh"))).collect())
                    .unwrap_or_default();
                with_glob(|g| g.pushing = f);
                d.push(name == "push_front", SFut { f, beh, k: 0, ctx: Arc::clone(&ctx) });
                with_glob(|g| g.pushing = 0);
                ("ok", 0)
            }
            "poll" => {
                let w = &parents[(p as usize - 1).min(2)];
                if exec_lock {
                    exec_lock_acquire();
                }
                let r = match d.poll(&mut Context::from_waker(w)) {
                    Poll::Ready(()) => ("ready", 0),
                    Poll::Pending => ("pending", 0),
                };
                if exec_lock {
                    exec_lock_release();
                }
                r
            }
            "poll_front" | "poll_back" => {
                let w = &parents[(p as usize - 1).min(2)];
                if exec_lock {
                    exec_lock_acquire();
                }
                let r = match d.poll_end(name == "poll_front", &mut Context::from_waker(w)) {
                    Poll::Ready(Some(o)) => ("some", take_out(o)),
                    Poll::Ready(None) => ("none", 0),
                    Poll::Pending => ("pending", 0),
                };
                if exec_lock {
                    exec_lock_release();
                }
                r
            }
            "pop_front" | "pop_back" => match d.pop(name == "pop_front") {
                Some(o) => ("some", take_out(o)),
                None => ("none", 0),
            },
            "drop" => {
                drop(dq.take());
                ("ok", 0)
            }
            other => panic!("unknown deque op {other}"),
        };
        sched::emit(json!({"ev":"res","op":name,"r":r,"v":v}));
    }
    ctx.closing.store(true, Ordering::SeqCst);
}

/// Parks once at the scheduling point "rop"; under a script the grant implies `cond`, otherwise waits for it.
fn rop_gate(cond: impl Fn() -> bool) {
    sched::point("rop");
    if !cond() {
        sched::block_until("rop-wait", cond);
    }
}

fn remote_task(t: usize, prog: Vec<Value>, ctx: Arc<RunCtx>) {
    let closing = || ctx.closing.load(Ordering::SeqCst);
    for op in prog {
        let name = op["op"].as_str().expect("rop").to_string();
        let f = op["f"].as_u64().expect("f") as u32;
        rop_gate(|| ctx.has(t, f) || closing());
        let Some(w) = ctx.take(t, f) else {
            sched::emit(json!({"ev":"rskip","op":name,"f":f}));
            continue;
        };
        sched::emit(json!({"ev":"winv","op":name,"f":f}));
        match name.as_str() {
            "clone" => {
                let w2 = w.clone();
                ctx.put(t, f, w);
                ctx.put(t, f, w2);
            }
            "wake_by_ref" => {
                w.wake_by_ref();
                ctx.put(t, f, w);
            }
            "wake" => w.wake(),
            "drop" => drop(w),
            other => panic!("unknown remote op {other}"),
        }
        sched::emit(json!({"ev":"wres","op":name,"f":f}));
    }
    // after the deque is gone: drop whatever is still held, lowest future first
    loop {
        rop_gate(closing);
        let Some((f, w)) = ctx.take_lowest(t) else { break };
        sched::emit(json!({"ev":"winv","op":"drop","f":f}));
        drop(w);
        sched::emit(json!({"ev":"wres","op":"drop","f":f}));
    }
}

// ------------------------------------------------------------------------------------------- driver

fn run_one(stim: &Value, tr: &Tracer) -> Value {
    with_glob(|g| *g = Glob::default());
    let id = stim["id"].as_i64().unwrap_or(0);
    let seed = stim["seed"].as_u64().unwrap_or(1);
    let nrem = stim["rops"].as_array().map(Vec::len).unwrap_or(0).max(2);
    let strategy = match stim["strategy"].as_str().unwrap_or("random") {
        "script" => Strategy::Script(
            stim["sched"]
                .as_array()
                .expect("sched")
                .iter()
                .map(|e| (e[0].as_u64().expect("task") as usize, e[1].as_str().unwrap_or("").to_string()))
                .collect(),
        ),
        "pct" => Strategy::Pct { changes: 3 },
        _ => Strategy::Random,
    };
    let ctx = Arc::new(RunCtx { bags: (0..nrem).map(|_| Mutex::new(vec![])).collect(), closing: AtomicBool::new(false) });
    let mut ex = Exec::new(strategy, seed);
    ex.max_steps = 20_000;
    ex.step_timeout = std::time::Duration::from_secs(5);
    {
        let (s, c) = (stim.clone(), Arc::clone(&ctx));
        ex.spawn("deque", move || deque_task(s, c));
    }
    for t in 1..=nrem {
        let prog = stim["rops"].get(t - 1).and_then(Value::as_array).cloned().unwrap_or_default();
        let c = Arc::clone(&ctx);
        ex.spawn(&format!("remote{t}"), move || remote_task(t, prog, c));
    }
    let rep = ex.run();
    let outcome = match &rep.outcome {
        Outcome::Completed => "completed",
        Outcome::Deadlock(_) => "deadlock",
        Outcome::StepLimit => "steplimit",
        Outcome::Stuck(_) => "stuck",
    };
    tr.emit(&json!({"ev":"reset","run":id}));
    for r in &rep.log {
        tr.emit(r);
    }
    for (t, p) in rep.panics.iter().enumerate() {
        if let Some(m) = p {
            tr.emit(&json!({"ev":"panic","task":t,"msg":m}));
        }
    }
    tr.emit(&json!({"ev":"end","outcome":outcome,"drift":rep.drift}));
    let steps: Vec<Value> = rep.steps.iter().map(|s| json!([s.task, s.op])).collect();
    json!({"id":id,"outcome":outcome,"drift":rep.drift,"steps":steps,"events":rep.log.len(),
           "panics":rep.panics.iter().filter(|p| p.is_some()).count()})
}

fn main() {
    vrt::quiet_panics();
    let args: Vec<String> = std::env::args().collect();
    if args.len() < 5 || args[1] != "run" {
        eprintln!("usage: h_fdeque run <stimuli.ndjson> <trace_out.ndjson> <summary_out.ndjson>");
        std::process::exit(2);
    }
    assert!(fv::install(fv::Hooks::new(hook_before, hook_after, hook_contended, hook_event)), "hooks already installed");
    let tr = Tracer::create(&args[3]);
    let sm = Tracer::create(&args[4]);
    for stim in vrt::read_ndjson(&args[2]) {
        let s = run_one(&stim, &tr);
        sm.emit(&s);
    }
    tr.flush();
    sm.flush();
}
