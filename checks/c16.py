"""C16 - metrics reports account for every observation exactly once.

  spec/metrics/MetricsAbs.tla      judge (totals per event name; placement rule; envelope for concurrent reports)
  spec/metrics/Metrics.tla         explorer, one public call per action (bags, dirty bitmap with overflow bit OV, mirrors,
                                   last_pushed_count, registry, archive); TLC: ReportMatches on every state
  spec/metrics/MetricsConc.tla     explorer, one atomic operation per action (report vs observers / pushers / exit)
  spec/metrics/Limbs.tla           exact 64-bit arithmetic for TLC (4 x 16-bit limbs): sums judged exactly on real i64
  spec/metrics/Trace_Metrics.tla   judge applied to replayed / random behaviours of the real nm crate
  spec/metrics/Trace_MetricsConc.tla  judge applied to the stamp-ordered log of the concurrent driver
  harness/h_metrics                public nm API only, real threads, fresh event names, bucket / magnitude embeddings
"""
import json, os, random, re, concurrent.futures as cf
import vlib
from vlib import SPEC, workdir, tlc, tlc_prints, validate_trace, write_ndjson, read_ndjson

# several JVMs run side by side: keep each one's GC / JIT thread pools small (and C1-only for the short trace validations)
JVM_LIGHT = {"_JAVA_OPTIONS": "-XX:ParallelGCThreads=2 -XX:CICompilerCount=2"}
JVM_SHORT = {"_JAVA_OPTIONS": "-XX:ParallelGCThreads=2 -XX:TieredStopAtLevel=1"}

PID = "C16"
D = os.path.join(SPEC, "metrics")

INT_ALGEBRA = ("  VZero = 0  VAdd <- IntAdd  VScale <- IntScale  VLeq <- IntLeq  VIsNeg <- IntIsNeg  VAbs <- IntAbs\n"
               "  VSumOk <- IntSumOk  VSumBetween <- IntSumBetween\n")

# (name, Cfg, Mags, Batches, MaxSteps, Respawn, NT, generate-cases?, max cases sampled, GenMod: print 1 leaf in GenMod)
EXPLORER = {
    "quick": [
        ("deep-push", "CfgPush", "MagsTwo", "B1", 8, "TRUE", 2, False, 0, 1),
        ("pullpush", "CfgPullPush", "MagsTwo", "B1", 4, "TRUE", 2, True, 500, 1),
        ("allmags", "CfgPullPush", "MagsAll", "B12", 2, "FALSE", 1, True, 400, 2),
        ("pushpush", "CfgPushPush", "MagsTwo", "B1", 5, "TRUE", 2, True, 250, 11),
        ("counter", "CfgCounter", "MagsEdge", "B12", 3, "TRUE", 2, True, 150, 53),
        ("ov-push", "CfgPush", "MagsOv", "B12", 4, "TRUE", 2, False, 0, 1),
    ],
    "thorough": [
        ("deep-push", "CfgPush", "MagsTwo", "B12", 8, "TRUE", 2, False, 0, 1),
        ("deep-pullpush", "CfgPullPush", "MagsTwo", "B1", 7, "TRUE", 2, False, 0, 1),
        ("pullpush", "CfgPullPush", "MagsTwo", "B1", 5, "TRUE", 2, True, 4000, 2),
        ("allmags", "CfgPullPush", "MagsAll", "B012", 2, "FALSE", 2, True, 3000, 5),
        ("pushpush", "CfgPushPush", "MagsTwo", "B12", 5, "TRUE", 2, True, 2000, 31),
        ("counter", "CfgCounter", "MagsEdge", "B012", 4, "TRUE", 2, True, 1000, 499),
        ("ov-push", "CfgPush", "MagsOv", "B12", 6, "TRUE", 2, False, 0, 1),
        ("ov-pullpush", "CfgPullPush", "MagsOv", "B12", 5, "TRUE", 2, False, 0, 1),
        ("onbound-pull", "CfgPull", "MagsOnBound", "B012", 6, "TRUE", 2, False, 0, 1),
        ("edge-push", "CfgPush", "MagsEdge", "B12", 5, "TRUE", 2, False, 0, 1),
        ("three-threads", "CfgPullPush", "MagsTwo", "B1", 5, "TRUE", 3, False, 0, 1),
    ],
}

CONC = {
    "quick": [("pull+push", "KindPullPush", 1, 2), ("pull+pull", "KindPullPull", 1, 2)],
    "thorough": [("pull+push", "KindPullPush", 2, 2), ("pull+pull", "KindPullPull", 2, 2), ("push+push", "KindPushPush", 2, 2)],
}


def explorer_cfg(path, c, gen):
    name, cfg, mags, batches, steps, respawn, nt, _, _, genmod = c
    inv = "TypeOK ReportMatches DeadIsClean" + (" GenCase" if gen else "")
    open(path, "w").write("CONSTANTS\n%s  NT = %d  OV = 2  MaxSteps = %d  Respawn = %s  GenMod = %d\n  Cfg <- %s  Mags <- %s  Batches <- %s\n"
                          "SPECIFICATION Spec\nVIEW View\nINVARIANT %s\nCHECK_DEADLOCK FALSE\n"
                          % (INT_ALGEBRA, nt, steps, respawn, genmod, cfg, mags, batches, inv))


def run_explorer(wd, c, thorough):
    path = os.path.join(wd, "mc_%s.cfg" % c[0])
    explorer_cfg(path, c, c[7])
    r = tlc(D, "MC_Metrics", cfg=path, workers=(4 if thorough else 2), timeout=2400, xmx="6g", coverage=(thorough and c[0] == "pullpush"),
            metadir=os.path.join(wd, "md_" + c[0]), env=JVM_LIGHT)
    return c, r


def conc_cfg(path, kind, maxops, maxrep, invs):
    open(path, "w").write("CONSTANTS\n%s  W <- %s  Kind <- %s  Bound = 5  Mags <- M2  MaxOps = %d  MaxReports = %d\n"
                          "SPECIFICATION Spec\nINVARIANT %s\nCHECK_DEADLOCK FALSE\n" % (INT_ALGEBRA, "W1" if kind == "KindPull1" else "W2", kind, maxops, maxrep, invs))


def chunks(xs, n):
    return [xs[i:i + n] for i in range(0, len(xs), n)]


INF_KEY = "metrics:concurrent-report:inf-bucket-torn"


def classify_seq(rj, cfgrec):
    """key for the FIRST rejected record of a behaviour: publish model of the affected event, the operation at which
    the report first went wrong, and what differs (count / sum / which bucket relative to the dirty-bitmap overflow
    index 63 of the code / the implicit +inf bucket)"""
    rec = rj.get("rec", {})
    if rec.get("panic") or (isinstance(rec.get("r"), dict) and rec["r"].get("panic")):
        return "metrics:%s:panic" % rec.get("ev")
    exp = rj.get("expect", [])
    evs = (cfgrec or {}).get("events", [])
    parts = set()
    for i, e in enumerate(exp):
        try:
            got = rec["r"][i]
        except Exception:
            parts.add("shape")
            continue
        kind = evs[i]["kind"] if i < len(evs) else "?"
        nb = evs[i]["nb"] if i < len(evs) else 0
        what = set()
        if got.get("c") != e.get("c"):
            what.add("count")
        gb = {b[0]: b[1] for b in got.get("b", [])}
        eb = {b[0]: b[1] for b in e.get("b", [])}
        for k in set(gb) | set(eb):
            if gb.get(k, 0) != eb.get(k, 0):
                what.add("bucket+inf" if k == nb + 1 else "bucket<63" if k - 1 < 63 else "bucket=63" if k - 1 == 63 else "bucket>63")
        if what:
            parts.add("%s[%s]" % (kind, ",".join(sorted(what))))
    if not parts:
        parts.add("sum-or-bounds")
    return "metrics:%s:%s" % (rec.get("ev"), "+".join(sorted(parts)))


def judge_seq(run, pool, traces, label):
    """validate several trace files in parallel (one TLC each); one violation per behaviour (its first rejected record)"""

    def one(t):
        # a private copy of the cfg gives every parallel TLC its own metadir
        cfgp = t + ".cfg"
        open(cfgp, "w").write(open(os.path.join(D, "Trace_Metrics.cfg")).read())
        return t, validate_trace(D, "Trace_Metrics", t, cfg=cfgp, timeout=2400, xmx="3g", env=JVM_SHORT)

    for t, (ok, rejects, tr) in pool.map(one, traces):
        run.add_tlc("Trace_Metrics %s %s" % (label, os.path.basename(t)), tr, count_states=False)
        recs = read_ndjson(t)
        run.cov["traces_validated_against_impl"] += sum(1 for r in recs if r.get("ev") == "cfg")
        run.cov["evaluations"] += len(recs) - 1
        if len(recs) > 6:
            beh = []
            for r in recs[1:]:
                if r.get("ev") == "cfg" and beh:
                    break
                beh.append({k: v for k, v in r.items() if k != "tag"})
            run.sample({"source": label, "behaviour": beh[:6]}, cap=3)
        seen_beh = set()
        for rj in sorted((x for x in rejects if "line" in x), key=lambda x: x["line"]):
            i = rj["line"] - 1            # 0-based index of the rejected record
            j = i
            while j > 0 and recs[j].get("ev") != "cfg":
                j -= 1
            if j in seen_beh:
                continue
            seen_beh.add(j)
            key = classify_seq(rj, recs[j])
            run.violation(key, "report rejected by MetricsAbs (%s, behaviour %s): %s" % (label, json.dumps(recs[j].get("tag")), json.dumps(rj)[:500]),
                          {"trace": t, "line": rj.get("line"), "behaviour": recs[j:i + 1], "tables": "first record of the trace", "reject": rj})
        for rj in rejects:
            if "first_unmatched" in rj:
                raise vlib.ToolError("Trace_Metrics could not consume a record (harness/spec mismatch): %s" % json.dumps(rj)[:600])
            if "judge_violation" in rj:
                raise vlib.ToolError("Trace_Metrics failed: %s" % json.dumps(rj)[:1500])


def check(run):
    vlib.cargo_build(["h_metrics"])
    wd = workdir(PID, clean=True)
    thorough = run.tier == "thorough"
    rnd = random.Random(run.seed)
    pool = cf.ThreadPoolExecutor(max_workers=6)

    # ---- (1) all model checking, concurrently: sequential explorer configs, concurrent explorer (stored fields must obey the
    #          envelope on every schedule), and the three demands on the synthesized +inf bucket (counterexamples expected)
    def conc_job(tag, kind, maxops, maxrep, invs, workers):
        p = os.path.join(wd, "conc_%s.cfg" % tag)
        conc_cfg(p, kind, maxops, maxrep, invs)
        return tlc(D, "MC_MetricsConc", cfg=p, workers=workers, timeout=3000, xmx="6g", metadir=os.path.join(wd, "md_conc_" + tag), env=JVM_LIGHT)

    ex_f = [(c, pool.submit(run_explorer, wd, c, thorough)) for c in EXPLORER[run.tier]]
    cs_f = [((name, kind, mo, mr), pool.submit(conc_job, "st_" + kind, kind, mo, mr, "StoredFieldsOk QuiescentExact OverflowWithinCountOk", 4 if thorough else 2))
            for name, kind, mo, mr in CONC[run.tier]]
    ci_f = [(inv, pool.submit(conc_job, inv, "KindPull1", 2, 2, inv, 2)) for inv in ("InfBucketLowOk", "InfBucketMonotoneOk", "InfBucketHighOk")]
    # seeded random real-space histories and the concurrent driver do not depend on TLC output: start them now
    nrand = 2400 if thorough else 400
    nchunks = 6 if thorough else 2
    per = nrand // nchunks

    def rone(i):
        t = os.path.join(wd, "trace_random_%d.ndjson" % i)
        vlib.run_bin("h_metrics", ["random", t, per, i], env={"VERIF_SEED": run.seed}, timeout=1200)
        return t

    rand_f = [pool.submit(rone, i) for i in range(nchunks)]

    cases = []
    model_cex = []
    for c, f in ex_f:
        c, r = f.result()
        run.add_tlc("Metrics explorer %s (%s %s %s steps<=%d NT=%d)" % (c[0], c[1], c[2], c[3], c[4], c[6]), r)
        if r.error:
            raise vlib.ToolError("explorer %s: %s" % (c[0], r.error))
        if r.violation:
            model_cex.append((c[0], r.violation, r.cex[:3000]))
        if c[7]:
            got = []
            for s in tlc_prints(r.out, "MCASE"):
                try:
                    got.append(json.loads(s))
                except ValueError:
                    raise vlib.ToolError("generator output not parseable: " + s[:200])
            for g in got:
                g["nt"] = c[6]
                g["src"] = c[0]
            if len(got) > c[8]:
                got = rnd.sample(got, c[8])
            cases.extend(got)
    run.cov["distinct_nontrivial"] = len(cases)
    # ---- (2) replay on the real crate (several processes: the registry is process-global and only grows), judged by TLC
    cpath = os.path.join(wd, "cases_replay.ndjson")
    write_ndjson(cpath, cases)
    nrep = 8 if thorough else 4
    per_chunk = (len(cases) + nrep - 1) // nrep

    def pone(i):
        t = os.path.join(wd, "trace_replay_%d.ndjson" % i)
        vlib.run_bin("h_metrics", ["replay", cpath, t, i * per_chunk, per_chunk], env={"VERIF_SEED": run.seed}, timeout=1200)
        return t

    rep_f = [pool.submit(pone, i) for i in range(nrep) if i * per_chunk < len(cases)]
    judge_seq(run, pool, [f.result() for f in rep_f], "replay")
    judge_seq(run, pool, [f.result() for f in rand_f], "random")
    for (name, kind, mo, mr), f in cs_f:
        r = f.result()
        run.add_tlc("MetricsConc %s ops<=%d reports<=%d stored fields" % (name, mo, mr), r)
        if r.error:
            raise vlib.ToolError("MetricsConc: " + r.error)
        if r.violation:
            model_cex.append(("conc " + name, r.violation, r.cex[:3000]))
    if model_cex and not run.violations and not run.known_hits:
        raise vlib.ToolError("explorer reports %s but the real code does not reproduce it (model drift)" % (model_cex,))
    inf_cex = []
    for inv, f in ci_f:
        r = f.result()
        run.add_tlc("MetricsConc +inf bucket %s" % inv, r, count_states=False)
        if r.error:
            raise vlib.ToolError("MetricsConc: " + r.error)
        if r.violation:
            inf_cex.append((inv, r.cex[:6000]))
    # ---- (3) concurrent driver on the real crate, judged by TLC (envelope, monotone)
    rounds = 3 if thorough else 1
    inf_seen = {}
    stored_bad = []
    for k in range(rounds + 2):
        t = os.path.join(wd, "conc_%d.ndjson" % k)
        vlib.run_bin("h_metrics", ["conc", t, 3 if k % 2 == 0 else 6, 1500 if not thorough else 4000, k, 12],
                     env={"VERIF_SEED": run.seed}, timeout=600)
        ok, rejects, tr = validate_trace(D, "Trace_MetricsConc", t, cfg="Trace_MetricsConc.cfg", timeout=2400, xmx="4g", env=JVM_SHORT)
        run.add_tlc("Trace_MetricsConc round %d" % k, tr, count_states=False)
        recs = read_ndjson(t)
        nreports = sum(1 for r in recs if r.get("k") == "rep" and r.get("ev") == "res")
        run.cov["traces_validated_against_impl"] += 1
        run.cov["evaluations"] += nreports
        run.cov["concurrent_reports_judged"] = run.cov.get("concurrent_reports_judged", 0) + nreports
        for rj in rejects:
            if "first_unmatched" in rj:
                raise vlib.ToolError("Trace_MetricsConc could not consume a record: %s" % json.dumps(rj)[:600])
            kinds = sorted({w[1] for w in rj.get("what", [])})
            if any(not x.startswith("inf-") for x in kinds):
                stored_bad.append((t, rj))
            for x in kinds:
                if x.startswith("inf-"):
                    inf_seen.setdefault(x, (t, rj))
        if k + 1 >= rounds and (inf_seen or not inf_cex):
            break
    for t, rj in stored_bad[:5]:
        kinds = "+".join(sorted({w[1] for w in rj.get("what", []) if not w[1].startswith("inf-")}))
        run.violation("metrics:concurrent-report:%s" % kinds,
                      "concurrent report outside the envelope of completed/invoked observations: %s" % json.dumps(rj)[:500],
                      {"trace": t, "reject": rj})
    run.cov["inf_bucket_faults_observed_on_real_code"] = sorted(inf_seen)
    if inf_seen:
        x = sorted(inf_seen)[0]
        t, rj = inf_seen[x]
        run.violation(INF_KEY, "the synthesized +inf bucket of a report taken while other threads observe is not between "
                      "completed and invoked observations / goes down between reports (%s): %s" % (",".join(sorted(inf_seen)), json.dumps(rj)[:400]),
                      {"trace": t, "reject": rj, "model_counterexample": inf_cex[:1]})
    elif inf_cex:
        raise vlib.ToolError("MetricsConc has a +inf-bucket counterexample (%s) that the concurrent driver did not reproduce on the real "
                             "code in %d rounds" % (inf_cex[0][0], rounds + 2))
    # ---- (4) the timed observation routes (the magnitude is a measured duration: judged on counts only)
    t_t = os.path.join(wd, "timed.ndjson")
    vlib.run_bin("h_metrics", ["timed", t_t], timeout=300)
    ok, rejects, tr = validate_trace(D, "Trace_MetricsTimed", t_t, cfg="Trace_MetricsTimed.cfg", timeout=600)
    run.add_tlc("Trace_MetricsTimed", tr, count_states=False)
    run.cov["timed_route_records"] = len(read_ndjson(t_t))
    run.cov["traces_validated_against_impl"] += 1
    for rj in rejects:
        rec = rj.get("rec", {})
        run.violation("metrics:timed:%s:route%s" % (rec.get("kind"), rec.get("route")),
                      "a timed observation route does not count every observation once: %s" % json.dumps(rec),
                      {"reject": rj})
    pool.shutdown()

    run.cov["rule"] = ("TLC explores every history of observe/batch/push/exit/respawn within the listed bounds (ReportMatches in every "
                       "state); distinct = leaf behaviours (one shortest history per distinct explorer state at the step bound, sampled "
                       "when above the cap) replayed on the real crate under the small + one 65..75-bucket embedding each; plus %d seeded "
                       "random real-space histories and %d concurrent rounds" % (nrand, rounds))
    run.cov["exhaustive"] = True
    run.assume("JoinHandle::join returns after the exited thread's thread-local registry was dropped (pthread_join)")
    run.assume("stamps drawn from one SeqCst counter before/after each call order operations consistently with real time")
    run.assume("nm documents no behaviour once a sum leaves the i64 range: sums are judged only while every partial sum fits")


def selftest():
    """corrupt one field of an accepted trace and see it rejected"""
    run = vlib.Run(PID, "quick")
    vlib.cargo_build(["h_metrics"])
    wd = workdir(PID, "selftest", clean=True)
    t = os.path.join(wd, "t.ndjson")
    vlib.run_bin("h_metrics", ["random", t, 20, 99], env={"VERIF_SEED": 7})
    ok, rejects, _ = validate_trace(D, "Trace_Metrics", t, cfg="Trace_Metrics.cfg")
    assert ok, rejects
    recs = read_ndjson(t)
    results = {}
    # (a) change one logged field: a bucket count, a count, a sum limb
    for what in ("count", "sum", "bucket", "drop-obs"):
        rs = json.loads(json.dumps(recs))
        done = False
        for i, r in enumerate(rs):
            if r.get("ev") == "obs" and r["n"] > 0:
                e = r["e"] - 1
                if what == "count":
                    r["r"][e]["c"] += 1
                elif what == "sum":
                    r["r"][e]["s"][3] = (r["r"][e]["s"][3] + 1) % 65536
                elif what == "bucket":
                    if not r["r"][e]["b"]:
                        continue
                    r["r"][e]["b"][0][1] += 1
                elif what == "drop-obs":
                    del rs[i]
                done = True
                break
        assert done
        p = os.path.join(wd, "bad_%s.ndjson" % what)
        write_ndjson(p, rs)
        ok2, rej2, _ = validate_trace(D, "Trace_Metrics", p, cfg="Trace_Metrics.cfg")
        results[what] = (not ok2) and len(rej2) > 0
    # concurrent judge: raise a reported count above everything invoked
    t = os.path.join(wd, "c.ndjson")
    vlib.run_bin("h_metrics", ["conc", t, 2, 200, 5, 0], env={"VERIF_SEED": 7})
    recs = read_ndjson(t)
    for r in recs:
        if r.get("k") == "rep" and r.get("ev") == "res":
            r["r"][0]["c"] += 100000
            break
    p = os.path.join(wd, "bad_conc.ndjson")
    write_ndjson(p, recs)
    ok3, rej3, _ = validate_trace(D, "Trace_MetricsConc", p, cfg="Trace_MetricsConc.cfg")
    results["conc-count"] = any("stored" in json.dumps(x) for x in rej3)
    print(json.dumps(results))
    return 0 if all(results.values()) else 1


def replay(path):
    rep = json.load(open(path))
    print(json.dumps({k: rep[k] for k in ("property", "key", "what")}, indent=1))
    t = rep["replay"].get("trace")
    if t and os.path.exists(t):
        mod = "Trace_MetricsConc" if "conc_" in os.path.basename(t) else "Trace_Metrics"
        ok, rejects, _ = validate_trace(D, mod, t, cfg=mod + ".cfg")
        print("re-validated %s: accepted=%s rejects=%d" % (t, ok, len(rejects)))
        return 0 if ok else 1
    print(json.dumps(rep["replay"], indent=1)[:4000])
    return 0
