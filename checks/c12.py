"""C12 - linked objects: one family, one instance per thread, each confined to its thread.

  spec/linked/LinkedAbs.tla       judge: deterministic monitor JStep over API-level events
  spec/linked/LinkedStatics.tla   explorer: StaticInstances::get() step by step, nested initialisers, every DAG
  spec/linked/PerThread.tla       explorer: InstancePerThread(Sync) acquire / clone / move / drop, programs picked by TLC
  spec/linked/Trace_Linked.tla    judge applied to the events harness h_linked records from the real crate

TLC checks the explorers against the judge (safety, deadlock freedom, <>Done under fairness), prints one witness
behaviour per distinct terminal state (+ random walks of larger instances); every behaviour = programs + schedule script
is replayed on the real crate under vrt::sched through the H5 yield points (drift is measured), the same programs are
re-run under random and PCT schedules, and the recorded traces are judged by TLC.
"""
import concurrent.futures as cf
import json, os, random, re, subprocess
import vlib
from vlib import SPEC, workdir, tlc, tlc_prints, validate_trace, write_ndjson, read_ndjson

PID = "C12"
D = os.path.join(SPEC, "linked")
VARIANT = os.environ.get("C12_VARIANT", "fixed")   # the explorer mirrors the code as it is now ("orig" = before the S6a / S6b fixes)

# scenarios the design phase saw on the real code; replayed on every run
SCENARIOS = [
    {"kind": "statics", "id": "scn:s6a-nested-chain", "deps": {"1": [2], "2": [3], "3": []}, "progs": [[1], [1], [2]]},
    {"kind": "statics", "id": "scn:s6a-nested-fan", "deps": {"1": [2, 3], "2": [], "3": []}, "progs": [[1], [3], [2]]},
    {"kind": "pt", "id": "scn:s6b-foreign-drop", "variant": "sync",
     "progs": [[["acq"], ["snd", 0, 1]], [["acq"], ["rcv"], ["drp", 1], ["acq"]]]},
    {"kind": "pt", "id": "scn:s6b-two-droppers", "variant": "sync",
     "progs": [[["acq"], ["cln", 0], ["snd", 0, 1], ["snd", 0, 2]], [["rcv"], ["drp", 0]], [["rcv"], ["drp", 0]]]},
]


def slug(s):
    return re.sub(r"[^a-z0-9]+", "-", s.lower()).strip("-")[:60]


def key_of(rej, stim):
    why = rej.get("why", "judge")
    if stim is None:
        return "linked:unknown:" + slug(why)
    if stim["kind"] == "pt-race":
        return "linked:pt-sync:%s:foreign-drop-races-acquire" % slug(why)
    if stim["kind"] == "statics":
        shape = "nested" if any(stim["deps"].get(str(k)) for k in (1, 2, 3)) else "flat"
        return "linked:statics:%s:%s" % (slug(why), shape)
    moved = any(op[0] == "snd" for p in stim["progs"] for op in p)
    return "linked:pt-%s:%s:%s" % (stim.get("variant", "sync"), slug(why), "moved" if moved else "local")


def run_tlc(job):
    name, module, cfgtext, kw = job
    wd = workdir(PID)
    cfg = os.path.join(wd, "%s.cfg" % re.sub(r"[^A-Za-z0-9]+", "_", name))
    open(cfg, "w").write(cfgtext)
    r = tlc(D, module, cfg=cfg, metadir=os.path.join(wd, "_md_" + re.sub(r"[^A-Za-z0-9]+", "_", name)), **kw)
    return name, r


def mc_cfg(consts, live=True, gen=False):
    if "MaxOps" in consts and "Reenter" not in consts:
        consts += " Reenter = FALSE"
    if gen:     # generator + safety in one pass; terminal states have no successor, deadlock = NoStuck
        return ("CONSTANTS %s Hist = TRUE\nINIT Init\nNEXT NextNoStutter\nVIEW View\nINVARIANT CexBeh JudgeOk EndOk NoStuck GenBeh\n"
                "CHECK_DEADLOCK FALSE\n" % consts)
    return ("CONSTANTS %s Hist = FALSE\nSPECIFICATION FairSpec\nINVARIANT JudgeOk EndOk\n%sCHECK_DEADLOCK TRUE\n"
            % (consts, "PROPERTY Terminates\n" if live else ""))


def statics_stims(out, tag, marker="BEH"):
    res = []
    for s in tlc_prints(out, marker):
        b = json.loads(s)
        res.append({"kind": "statics", "id": "%s:%d" % (tag, len(res)), "deps": {str(i + 1): d for i, d in enumerate(b["deps"])},
                    "progs": b["progs"], "script": b["script"]})
    return res


def pt_stims(out, tag, variant, marker="BEH"):
    res = []
    for s in tlc_prints(out, marker):
        b = json.loads(s)
        st = {"kind": "pt", "id": "%s:%d" % (tag, len(res)), "variant": variant, "progs": b["progs"], "script": b["script"]}
        if variant == "rc":     # instance_per_thread.rs has no yield points: operations are atomic, keep the operation order
            st["script"] = [e for e in b["script"] if e[1] == "start" or e[1].startswith("op:")]
        res.append(st)
    return res


def dedupe(stims):
    seen, out = set(), []
    for s in stims:
        k = json.dumps({x: s[x] for x in s if x != "id"}, sort_keys=True)
        if k not in seen:
            seen.add(k)
            out.append(s)
    return out


def run_harness(stims, name, timeout=900):
    """Runs stimuli through `h_linked run`, restarting after a stimulus that left threads stuck. Returns trace path."""
    wd = workdir(PID)
    sp = os.path.join(wd, name + ".stim.ndjson")
    tp = os.path.join(wd, name + ".trace.ndjson")
    write_ndjson(sp, stims)
    if os.path.exists(tp):
        os.remove(tp)
    i, restarts = 0, 0
    while i < len(stims):
        p = vlib.run_bin("h_linked", ["run", sp, tp, i], timeout=timeout, check=False)
        m = re.search(r"RESUME (\d+)", p.stdout)
        if p.returncode == 3 and m:
            i = int(m.group(1))
            restarts += 1
            continue
        if p.returncode != 0:
            raise vlib.ToolError("h_linked failed rc=%s at %d\n%s" % (p.returncode, i, p.stderr[-3000:]))
        break
    return tp, restarts


def run_free(stim, name, watchdog_ms=15000):
    wd = workdir(PID)
    tp = os.path.join(wd, name + ".trace.ndjson")
    if os.path.exists(tp):
        os.remove(tp)
    try:
        vlib.run_bin("h_linked", ["free", json.dumps(stim), tp, watchdog_ms], timeout=60)
    except vlib.ToolError:
        # the child itself hung beyond its own watchdog: record that as the outcome
        write_ndjson(tp, [{"ev": "reset", "stim": 0, "kind": "statics", "id": stim.get("id", "")},
                          {"ev": "end", "outcome": "hung", "drift": 0, "scripted": False, "nsteps": 0, "steps": []}])
    return tp


def run_ptrace(stim, name):
    wd = workdir(PID)
    tp = os.path.join(wd, "trace_%s.ndjson" % name)
    if os.path.exists(tp):
        os.remove(tp)
    vlib.run_bin("h_linked", ["ptrace", tp, stim.get("ms", 2500)], timeout=120)
    return tp


def judge(run, trace, stims, label, stats):
    ok, rejects, tr = validate_trace(D, "Trace_Linked", trace, cfg="Trace_Linked.cfg", timeout=3000, xmx="6g")
    run.add_tlc("Trace_Linked " + label, tr, count_states=False)
    recs = read_ndjson(trace)
    ends = [r for r in recs if r["ev"] == "end"]
    stats["traces"] += len(ends)
    stats["events"] += len(recs)
    stats["scripted"] += sum(1 for e in ends if e["scripted"])
    stats["drift"] += sum(1 for e in ends if e["scripted"] and e["drift"] > 0)
    stats["not_completed"] += sum(1 for e in ends if e["outcome"] != "completed")
    run.cov["traces_validated_against_impl"] += len(ends)
    run.cov["evaluations"] += len(recs)
    if recs:
        run.sample({"trace": label, "events": recs[1:7]})
    for rj in rejects:
        if "line" not in rj:
            raise vlib.ToolError("unexpected judge output: %s" % json.dumps(rj)[:600])
        hdr = rj.get("stim", {})
        stim = stims[hdr["stim"]] if isinstance(hdr.get("stim"), int) and hdr.get("ev") == "reset" and hdr["stim"] < len(stims) else None
        # the recorded events of that stimulus
        lo = rj["line"] - 1
        while lo > 0 and recs[lo]["ev"] != "reset":
            lo -= 1
        hi = rj["line"]
        while hi < len(recs) and recs[hi]["ev"] != "reset":
            hi += 1
        key = key_of(rj, stim)
        run.violation(key, "%s (stimulus %s): %s" % (rj["why"], (stim or {}).get("id"), json.dumps(rj["rec"])[:200]),
                      {"stimulus": stim, "why": rj["why"], "first_rejected": rj["rec"], "trace": recs[lo:hi]})
    return rejects


def check(run):
    vlib.cargo_build(["h_linked"])
    wd = workdir(PID, clean=True)
    thorough = run.tier == "thorough"
    rng = random.Random(run.seed)
    V = 'Variant = "%s"' % VARIANT
    w = 4
    SV23, SV32 = "NT = 2 NS = 3 MaxProg = 1 " + V, "NT = 3 NS = 2 MaxProg = 1 " + V
    PT23, PT33 = "NT = 2 MaxOps = 2 MaxRefs = 3 AllowMove = TRUE " + V, "NT = 2 MaxOps = 3 MaxRefs = 3 AllowMove = TRUE " + V
    RC23, RC33 = 'NT = 2 MaxOps = 2 MaxRefs = 3 AllowMove = FALSE Variant = "orig"', 'NT = 2 MaxOps = 3 MaxRefs = 3 AllowMove = FALSE Variant = "orig"'
    jobs = [
        ("statics live NT=2 NS=3 P=1", "MC_LinkedStatics", mc_cfg(SV23), dict(workers=w, timeout=1500)),
        ("statics gen NT=2 NS=3 P=1", "MC_LinkedStatics", mc_cfg(SV23, gen=True), dict(workers=w, timeout=1500, coverage=thorough)),
        ("pt live NT=2 O=3 R=3", "MC_PerThread", mc_cfg(PT33), dict(workers=w, timeout=1500)),
        ("pt gen", "MC_PerThread", mc_cfg(PT33 if thorough else PT23, gen=True), dict(workers=w, timeout=1500, coverage=thorough)),
        ("rc gen", "MC_PerThread", mc_cfg(RC33 if thorough else RC23, gen=True), dict(workers=w, timeout=1500)),
        # instance factories that re-enter acquire() on the same wrapper and keep the reference ("acqr")
        ("pt reenter gen", "MC_PerThread", mc_cfg("NT = 2 MaxOps = %d MaxRefs = 4 AllowMove = TRUE Reenter = TRUE %s" % (3 if thorough else 2, V), gen=True),
         dict(workers=w, timeout=1500)),
        ("rc reenter gen", "MC_PerThread", mc_cfg('NT = 2 MaxOps = %d MaxRefs = 4 AllowMove = FALSE Reenter = TRUE Variant = "orig"' % (3 if thorough else 2), gen=True),
         dict(workers=w, timeout=1500)),
    ]
    if thorough:
        jobs += [
            ("statics gen NT=3 NS=2 P=1", "MC_LinkedStatics", mc_cfg(SV32, gen=True), dict(workers=w, timeout=1500)),
            ("statics live NT=3 NS=3 P=1", "MC_LinkedStatics", mc_cfg("NT = 3 NS = 3 MaxProg = 1 " + V), dict(workers=6, timeout=3000, xmx="8g")),
            ("statics live NT=2 NS=3 P=2", "MC_LinkedStatics", mc_cfg("NT = 2 NS = 3 MaxProg = 2 " + V), dict(workers=6, timeout=3000, xmx="8g")),
            ("pt live NT=3 O=2 R=3", "MC_PerThread", mc_cfg("NT = 3 MaxOps = 2 MaxRefs = 3 AllowMove = TRUE " + V), dict(workers=6, timeout=3000, xmx="8g")),
            ("pt live NT=2 O=4 R=4", "MC_PerThread", mc_cfg("NT = 2 MaxOps = 4 MaxRefs = 4 AllowMove = TRUE " + V), dict(workers=6, timeout=3000, xmx="8g")),
            ("rc live NT=3 O=2 R=3", "MC_PerThread", mc_cfg('NT = 3 MaxOps = 2 MaxRefs = 3 AllowMove = FALSE Variant = "orig"'), dict(workers=6, timeout=3000, xmx="8g")),
        ]
    # random walks of larger instances as additional scripts (the walks are checked against the judge, too)
    nsim = 1500 if thorough else 120
    simcfg = lambda c: mc_cfg(c, gen=True).replace("VIEW View\n", "").replace(" NoStuck", "").replace("CexBeh ", "CexBehSafe ")
    jobs += [
        ("statics sim NT=3 NS=3 P=2", "MC_LinkedStatics", simcfg("NT = 3 NS = 3 MaxProg = 2 " + V),
         dict(workers=2, timeout=1500, simulate=nsim, depth=200, seed=run.seed % 100000)),
        ("pt sim NT=3 O=4 R=4", "MC_PerThread", simcfg("NT = 3 MaxOps = 4 MaxRefs = 4 AllowMove = TRUE " + V),
         dict(workers=2, timeout=1500, simulate=nsim, depth=200, seed=run.seed % 100000)),
    ]
    results = {}
    with cf.ThreadPoolExecutor(max_workers=4 if not thorough else 2) as ex:
        for name, r in ex.map(run_tlc, jobs):
            results[name] = r
            sim = " sim " in name
            run.add_tlc(name, r, count_states=not sim)
            if r.error:
                raise vlib.ToolError("%s: %s\n%s" % (name, r.error, r.out[-2500:]))
    model_cex = [(n, r) for n, r in results.items() if r.violation]

    # ---- stimuli
    st_cover = statics_stims(results["statics gen NT=2 NS=3 P=1"].out, "st23")
    if thorough:
        st_cover += statics_stims(results["statics gen NT=3 NS=2 P=1"].out, "st32")
    st_sim = dedupe(statics_stims(results["statics sim NT=3 NS=3 P=2"].out, "stsim"))
    pt_cover = pt_stims(results["pt gen"].out, "pt2", "sync")
    pt_sim = dedupe(pt_stims(results["pt sim NT=3 O=4 R=4"].out, "ptsim", "sync"))
    rc_cover = pt_stims(results["rc gen"].out, "rc2", "rc")
    has_re = lambda st: any(o[0] == "acqr" for p in st["progs"] for o in p)
    pt_re = [s for s in pt_stims(results["pt reenter gen"].out, "ptre", "sync") if has_re(s)]
    rc_re = [s for s in pt_stims(results["rc reenter gen"].out, "rcre", "rc") if has_re(s)]
    run.cov["reentrant_factory_behaviours"] = len(pt_re) + len(rc_re)
    cap = 4000 if thorough else 500
    def pick(xs, n):
        xs = list(xs)
        if len(xs) > n:
            xs = rng.sample(xs, n)
        return xs
    scripted = (pick(st_cover, cap) + pick(st_sim, cap) + pick(pt_cover, cap) + pick(pt_sim, cap) + pick(rc_cover, cap // 2)
                + pick(pt_re, cap // 2) + pick(rc_re, cap // 4))
    # counterexamples of the explorers (if any) are stimuli, too: a violation needs the real code to reproduce them
    for n, r in results.items():
        if "statics" in n:
            scripted += dedupe(statics_stims(r.out, "cex:" + n, "CEX"))[:3]
        else:
            scripted += dedupe(pt_stims(r.out, "cex:" + n, "rc" if n.startswith("rc") else "sync", "CEX"))[:3]
    # the same programs under seeded random and PCT schedules (no script), plus the known scenarios several times
    free = []
    for s in pick(scripted, cap):
        if s["kind"] == "pt" and has_re(s):
            # how many references an "acqr" yields depends on the schedule (nested acquire only when the outer lookup misses):
            # these programs are meaningful under their own script only
            continue
        t = {k: v for k, v in s.items() if k != "script"}
        t["id"] = s["id"] + ":rand"
        t["seed"] = rng.randrange(1 << 30)
        if rng.random() < 0.4:
            t["pct"] = rng.choice([1, 2, 3])
        free.append(t)
    for sc in SCENARIOS:
        for k in range(6):
            t = dict(sc)
            t["seed"] = rng.randrange(1 << 30)
            if k % 2:
                t["pct"] = 1 + k // 2
            free.append(t)
    stats = {"traces": 0, "events": 0, "scripted": 0, "drift": 0, "not_completed": 0}
    stims = scripted + free
    tp, restarts = run_harness(stims, "all")
    # outside scheduler control: plain OS threads in a child process under a watchdog; appended to the same trace
    extra = []
    for i, sc in enumerate([s for s in SCENARIOS if s["kind"] == "statics"]):
        sc = dict(sc, free=True, id=sc["id"] + ":free-running")
        recs = read_ndjson(run_free(sc, "free%d" % i))
        recs[0]["stim"] = len(stims)
        stims.append(sc)
        extra += recs
    # per-thread wrapper, free-running: a foreign drop of the owner's only reference races the owner's acquire() calls
    race = {"kind": "pt-race", "id": "pt:foreign-drop-races-acquire:free-running", "free": True, "ms": 8000 if thorough else 2500}
    recs = read_ndjson(run_ptrace(race, "ptrace"))
    recs[0]["stim"] = len(stims)
    stims.append(race)
    extra += recs
    run.cov["foreign_drop_race"] = {k: recs[1][k] for k in ("rounds", "pairs", "created")}
    if recs[1]["rounds"] < 100 and recs[1]["two_live"] == 0:      # (the driver stops at the first pair of distinct instances)
        raise vlib.ToolError("pt-race exercised nothing: %s" % json.dumps(recs[1]))
    with open(tp, "a") as f:
        for r in extra:
            f.write(json.dumps(r, separators=(",", ":")) + "\n")
    judge(run, tp, stims, "scripted + random + free-running", stats)
    if model_cex and not run.violations and not run.known_hits:
        n, r = model_cex[0]
        raise vlib.ToolError("explorer %s reports %s but the real code does not reproduce it (model drift)\n%s" % (n, r.violation, r.cex[:3000]))
    for n, r in model_cex:
        vlib.log("explorer counterexample in", n, ":", r.violation)
    run.cov["distinct_nontrivial"] = len(scripted)
    run.cov["drift"] = stats["drift"]
    run.cov["scripted_replays"] = stats["scripted"]
    run.cov["runs_not_completed"] = stats["not_completed"]
    run.cov["process_restarts_after_stuck_threads"] = restarts
    run.cov["exhaustive"] = stats["drift"] == 0 and not model_cex
    run.cov["rule"] = ("TLC checks LinkedStatics (every DAG of <=3 statics, <=3 threads) and PerThread (every program of <=3-4 operations, "
                       "<=3 threads, references moved across threads) against the judge LinkedAbs: safety, deadlock freedom, <>Done under "
                       "fairness; one witness behaviour per distinct terminal state + %d random walks of larger instances are replayed as "
                       "schedule scripts on the real crate (distinct = scripted stimuli, drift = scripted replays that left the script); the "
                       "same programs run again under seeded random / PCT schedules; free-running child processes under a watchdog; every "
                       "recorded event is judged by LinkedAbs in TLC" % nsim)
    run.assume("the deterministic scheduler serialises tasks at the H5 yield points and harness operation points; code between two points is atomic")
    run.assume("thread-local steps are merged into the preceding shared step in the explorers (partial-order reduction)")
    run.assume("InstancePerThread (Rc) has no yield points: its operations are replayed atomically")


def replay(path):
    rep = json.load(open(path))
    stim = rep["replay"]["stimulus"]
    if stim is None:
        print("no stimulus recorded")
        return 2
    vlib.cargo_build(["h_linked"])
    run = vlib.Run(PID, "replay")
    workdir(PID, "replay_run", clean=True)
    stats = {"traces": 0, "events": 0, "scripted": 0, "drift": 0, "not_completed": 0}
    if stim.get("kind") == "pt-race":
        tp = run_ptrace(dict(stim, ms=8000), "replay")
    elif stim.get("free"):
        tp = run_free(stim, "replay")
    else:
        tp, _ = run_harness([stim] * (1 if "script" in stim else 8), "replay")
    rej = judge(run, tp, [stim] * 8, "replay", stats)
    print(json.dumps({"stimulus": stim, "rejected": [r["why"] for r in rej]}, indent=1))
    return 1 if rej else 0


def selftest():
    """Binding demonstration: an accepted trace of the real crate is rejected after each single corruption."""
    vlib.cargo_build(["h_linked"])
    run = vlib.Run(PID, "selftest")
    workdir(PID, clean=False)
    stims = [{"kind": "statics", "id": "self:st", "deps": {"1": [2], "2": [], "3": []}, "progs": [[1], [2, 1]], "seed": 5},
             {"kind": "pt", "id": "self:pt", "variant": "sync", "progs": [[["acq"], ["cln", 0], ["snd", 0, 1]], [["rcv"], ["acq"], ["drp", 0]]], "seed": 6}]
    tp, _ = run_harness(stims, "selftest")
    recs = read_ndjson(tp)
    wd = workdir(PID)
    def verdict(rs, name):
        p = os.path.join(wd, "selftest_%s.ndjson" % name)
        write_ndjson(p, rs)
        ok, rejects, _ = validate_trace(D, "Trace_Linked", p, cfg="Trace_Linked.cfg")
        return ok, rejects
    ok, rej = verdict(recs, "plain")
    fails = []
    if not ok:
        fails.append("uncorrupted trace rejected: %s" % rej[:1])
    def idx(pred):
        return next(i for i, r in enumerate(recs) if pred(r))
    # (a) one field changed: a get_end reports another family
    a = [dict(r) for r in recs]
    i = idx(lambda r: r["ev"] == "get_end")
    a[i]["fam"] = a[i]["fam"] + 1000
    # (b) one event deleted: the destroy of an exposed instance
    acq = recs[idx(lambda r: r["ev"] == "acquire")]
    b = [r for r in recs if not (r["ev"] == "destroy" and r["inst"] == acq["inst"])]
    # (c) two events of different threads swapped: an acquire claims an instance born on the other thread
    c = [dict(r) for r in recs]
    i = idx(lambda r: r["ev"] == "acquire")
    c[i]["t"] = 1 - c[i]["t"]
    # (d) the end of a run says it did not complete
    d = [dict(r) for r in recs]
    i = idx(lambda r: r["ev"] == "end")
    d[i]["outcome"] = "deadlock"
    for name, rs, expect in (("field", a, "family"), ("deleted", b, "outlives"), ("thread", c, "another thread"), ("end", d, "terminate")):
        ok, rej = verdict(rs, name)
        if ok or not any(expect in r.get("why", "") for r in rej):
            fails.append("corruption %s not rejected as expected: %s" % (name, rej[:1]))
        else:
            vlib.log("selftest: corruption", name, "rejected:", rej[0]["why"])
    # the free-running summary record: accepted as recorded, rejected with one pair of distinct instances
    tp2 = run_ptrace({"ms": 500}, "selftest_ptrace")
    ok, rej, _ = validate_trace(D, "Trace_Linked", tp2, cfg="Trace_Linked.cfg")
    if not ok:
        fails.append("recorded ptrace run rejected: %s" % rej[:1])
    rr = read_ndjson(tp2)
    rr[1]["two_live"] = 1
    p3 = os.path.join(workdir(PID), "selftest_ptrace_bad.ndjson")
    write_ndjson(p3, rr)
    ok, rej, _ = validate_trace(D, "Trace_Linked", p3, cfg="Trace_Linked.cfg")
    if ok or not any("second live instance" in r.get("why", "") for r in rej):
        fails.append("ptrace record with two live instances not rejected: %s" % rej[:1])
    else:
        vlib.log("selftest: corruption ptrace-two-live rejected:", rej[0]["why"])
    for f in fails:
        vlib.log("SELFTEST FAILURE:", f)
    print("selftest C12:", "FAILED" if fails else "ok")
    return 1 if fails else 0
