"""C09 — processor selection returns exactly what was asked for, or nothing.

  ProcSelectAbs.tla  judge (Candidates, TakeOk, TakeAllOk; closed forms proven equal to brute force by TLC)
  ProcSelect.tla     explorer: the five selection loops, every random choice nondeterministic
  Trace_ProcSelect   judge applied to (topology, query, result) records from the real builder
"""
import json, os
import vlib
from vlib import SPEC, workdir, tlc, tlc_prints, validate_trace, write_ndjson, read_ndjson

PID = "C09"
D = os.path.join(SPEC, "cpus")


def classify(rec):
    pol = rec["q"]["policy"]
    if rec.get("panic"):
        return "panic:%s:%s" % (rec["op"], pol)
    if rec["op"] == "take" and rec["some"] and len(rec["ids"]) != rec["n"]:
        return "take:%s:wrong-count" % pol
    if not rec["some"]:
        return "%s:%s:none-but-feasible" % (rec["op"], pol)
    return "%s:%s:invalid-set" % (rec["op"], pol)


def judge(run, trace, name):
    ok, rejects, tr = validate_trace(D, "Trace_ProcSelect", trace, cfg="Trace_ProcSelect.cfg", timeout=3000)
    run.add_tlc("Trace_ProcSelect " + name, tr, count_states=False)
    recs = read_ndjson(trace)
    run.cov["traces_validated_against_impl"] += len(recs)
    run.cov["evaluations"] += len(recs)
    run.sample(recs[len(recs) // 2])
    for rj in rejects:
        rec = rj.get("rec", rj)
        run.violation("procselect:" + classify(rec) if "q" in rec else "procselect:judge", "record rejected by ProcSelectAbs: " + json.dumps(rec)[:400],
                      {"record": rec})
    return len(recs)


def check(run):
    vlib.cargo_build(["h_cpus"])
    wd = workdir(PID, clean=True)
    thorough = run.tier == "thorough"
    consts = ("NR = 3  MaxPer = 3  MaxN = 6  Quotas <- QuotasThorough" if thorough
              else "NR = 3  MaxPer = 2  MaxN = 4  Quotas <- QuotasQuick")
    cfg = os.path.join(wd, "mc.cfg")
    open(cfg, "w").write("CONSTANTS %s\nSPECIFICATION FairSpec\nINVARIANT TypeOK ResultOk NeverTooMany ClosedFormsAgree\n"
                         "PROPERTY Terminates\nCHECK_DEADLOCK FALSE\n" % consts)
    r = tlc(D, "MC_ProcSelect", cfg=cfg, workers=12, coverage=False, timeout=3000, xmx="12g")
    run.add_tlc("ProcSelect explorer (%s)" % consts, r)
    if r.error:
        raise vlib.ToolError(r.error)
    model_cex = r.violation
    # generator: every initial state = one stimulus
    gcfg = os.path.join(wd, "gen.cfg")
    gconsts = "NR = 3  MaxPer = 2  MaxN = 4  Quotas <- QuotasQuick" if not thorough else "NR = 3  MaxPer = 3  MaxN = 5  Quotas <- QuotasQuick"
    open(gcfg, "w").write("CONSTANTS %s\nINIT Init\nNEXT Stop\nINVARIANT GenCase\nCHECK_DEADLOCK FALSE\n" % gconsts)
    g = tlc(D, "MC_ProcSelect", cfg=gcfg, workers=1, timeout=3000)
    if g.error or g.violation:
        raise vlib.ToolError("generator failed: %s %s\n%s" % (g.error, g.violation, g.out[-2000:]))
    cases = [json.loads(s) for s in tlc_prints(g.out, "SCASE")]
    write_ndjson(os.path.join(wd, "cases.ndjson"), cases)
    trace = os.path.join(wd, "trace.ndjson")
    reps = 10 if thorough else 5
    vlib.run_bin("h_cpus", ["procselect", os.path.join(wd, "cases.ndjson"), trace, reps], timeout=3000)
    judge(run, trace, "enumerated")
    if model_cex and not run.violations and not run.known_hits:
        raise vlib.ToolError("explorer reports %s but the real code does not reproduce it (model drift)\n%s" % (model_cex, r.cex[:3000]))
    n = 60000 if thorough else 6000
    trace = os.path.join(wd, "rand.ndjson")
    vlib.run_bin("h_cpus", ["procselect-random", trace, n], env={"VERIF_SEED": run.seed}, timeout=3000)
    judge(run, trace, "random")
    run.cov["distinct_nontrivial"] = len(cases)
    run.cov["rule"] = ("TLC enumerates every candidate map (regions x candidates) x policy x n x quota x {take,take_all}; each is run %d "
                       "times on the real builder with decoy processors to be filtered; distinct = enumerated stimuli; plus %d seeded "
                       "random topologies (<=64 processors, <=8 regions)" % (reps, n))
    run.cov["exhaustive"] = True
    run.assume("fake hardware (test-util) exercises the same ProcessorSetBuilder code paths as real hardware")


def replay(path):
    rep = json.load(open(path))
    rec = rep["replay"]["record"]
    wd = workdir(PID, "replay_run", clean=True)
    print(json.dumps(rec, indent=1))
    return 0
