"""C05 — one-shot event: the payload is delivered exactly once or dropped exactly once; wake obligation.

  OnceEventAbs.tla       judge (API-level monitor)
  OnceEventSync.tla      explorer: every atomic op / fence / cell access of core/sync.rs, memory through RC11
  Trace_OnceEventAbs     judge on API-level logs of the real event
  Trace_OnceEventSync    conformance of the real event's step log with the explorer + measured ordering table
"""
import json, os, random
import vlib
import once_common as oc
from vlib import workdir, tlc, tlc_prints, validate_trace, read_ndjson

PID = "C05"


def api_key(why):
    w = why.lower()
    for pat, k in (("terminate: crashed", "crash"), ("did not terminate", "hang"), ("value without send", "value-without-send"), ("twice", "payload-twice"),
                   ("disconnect although", "spurious-disconnect"), ("pending although", "stale-pending"),
                   ("not ready although", "stale-not-ready"), ("ready before", "ready-too-early"),
                   ("payload destroyed but", "phantom-payload-drop"), ("waker", "waker-balance"),
                   ("released twice", "double-release"), ("accounting", "quiescent-accounting"),
                   ("state predicate", "wake-or-quiescence")):
        if pat in w:
            return k
    return "other"


def judge_api(run, wd, tag, paths, prop_filter=None):
    ok, rejects, tr = validate_trace(oc.D, "Trace_OnceEventAbs", paths["api"], cfg="Trace_OnceEventAbs.cfg", timeout=1800, deque=False)
    run.add_tlc("Trace_OnceEventAbs " + tag, tr, count_states=False)
    for rj in rejects:
        if "line" not in rj:
            raise vlib.ToolError("API trace not consumed: %s" % json.dumps(rj)[:500])
        runrecs = oc.run_containing(paths["api"], rj["line"])
        key = "api:" + api_key(rj.get("why", ""))
        if prop_filter and not prop_filter(key):
            continue
        run.violation(key, "OnceEventAbs rejects a run of the real event: %s" % rj.get("why"),
                      {"why": rj.get("why"), "at": rj.get("rec"), "stimulus": runrecs[0], "api_trace": runrecs})
    return len(rejects)


def check(run):
    vlib.cargo_build(["h_once"])
    wd = workdir(PID, clean=True)
    thorough = run.tier == "thorough"
    rng = random.Random(run.seed)
    # (1) calibration: a few random runs to measure the ordering table (fence sites decide scheduling points)
    cal = oc.random_stimuli(60, run.seed, ["boxed"])
    recs = oc.run_harness(wd, "cal", cal)
    p = oc.split_logs(recs, wd, "cal")
    acc, table, tr = oc.conformance(wd, "cal", p["conf"])
    run.add_tlc("Trace_OnceEventSync calibration", tr, count_states=False)
    drift = 0 if acc else 1
    if table is None:
        table = {}
    # (2) spec -> code: edge cover of the explorer under SC, replayed as schedules
    gcfg = os.path.join(wd, "gen.cfg")
    open(gcfg, "w").write("CONSTANTS MaxPolls = %d  MaxChecks = 1  SC = TRUE  Ord <- OrdFixed\nSPECIFICATION GSpec\nVIEW GView\n"
                          "ACTION_CONSTRAINT EmitEdge\nCHECK_DEADLOCK FALSE\n" % (2,))
    g = tlc(oc.D, "MC_OnceEventSyncGen", cfg=gcfg, workers=1, timeout=1800, xmx="6g")
    if g.error or g.violation:
        raise vlib.ToolError("generator failed: %s %s" % (g.error, g.violation))
    hists = [json.loads(s) for s in tlc_prints(g.out, "BEH")]
    lv = oc.leaves(hists)
    run.cov["explorer_edges"] = len(hists)
    run.cov["edge_cover_behaviours"] = len(lv)
    if not thorough:
        rng.shuffle(lv)
        lv = lv[:700]
    stim = [oc.hist_to_stimulus(h, i + 1, "boxed", run.seed, table) for i, h in enumerate(lv)]
    stim = oc.with_same_waker_variants(stim, 50000)
    run.cov["same_waker_repoll_variants"] = sum(1 for s in stim if "repoll" in s["receiver"])
    recs = oc.run_harness(wd, "edge", stim)
    ends = [r for r in recs if r["ev"] == "end"]
    sdrift = sum(1 for e in ends if e["drift"] > 0)
    run.cov["scripted_runs"] = len(ends)
    run.cov["scripted_runs_with_drift"] = sdrift
    p = oc.split_logs(recs, wd, "edge")
    judge_api(run, wd, "edge-cover", p)
    acc2, table2, tr = oc.conformance(wd, "edge", p["conf"])
    run.add_tlc("Trace_OnceEventSync edge-cover", tr, count_states=False)
    if not acc2:
        drift += 1
    if table2:
        for k, v in table2.items():
            if v != "?":
                table[k] = v
    run.cov["traces_validated_against_impl"] += len(ends) + len(cal)
    run.sample({"stimulus": stim[0], "log_head": [r for r in recs[:12]]})
    # (3) code -> spec: seeded random / PCT schedules with longer receiver programs
    n = 4000 if thorough else 600
    rnd = oc.random_stimuli(n, run.seed + 1, ["boxed"], first_id=100000)
    recs = oc.run_harness(wd, "rand", rnd)
    p = oc.split_logs(recs, wd, "rand")
    judge_api(run, wd, "random", p)
    acc3, table3, tr = oc.conformance(wd, "rand", p["conf"])
    run.add_tlc("Trace_OnceEventSync random", tr, count_states=False)
    if not acc3:
        drift += 1
    run.cov["traces_validated_against_impl"] += n
    # (4) explorer: SC (with liveness of the spin loops) and RC11 with the measured table
    consts = "MaxPolls = %d  MaxChecks = %d" % ((3, 1) if thorough else (2, 1))
    r_sc, ordmap = oc.rc11_explore(run, "sc", table, consts, workers=8, sc=True)
    run.add_tlc("OnceEventSync SC + SpinExits (%s)" % consts, r_sc)
    r_wm, ordmap = oc.rc11_explore(run, "rc11", table, consts, workers=8, sc=False)
    run.add_tlc("OnceEventSync RC11, measured orderings (%s)" % consts, r_wm)
    run.cov["ordering_table"] = ordmap
    run.cov["ordering_sites_measured"] = sum(1 for k in oc.ORD_AS_BUILT if table.get(k, "?") != "?")
    run.cov["conformance_drift"] = drift
    for name, r in (("sc", r_sc), ("rc11", r_wm)):
        if r.error:
            raise vlib.ToolError("explorer %s: %s" % (name, r.error))
        if r.violation:
            diffs = sorted("%s=%s" % (k, v) for k, v in ordmap.items() if oc.ORD_AS_BUILT.get(k) != v)
            inv = r.violation.replace("invariant ", "")
            # C05 owns the API-level and protocol invariants; races on storage are C06's (reported there too)
            key = "explorer:%s:%s:%s" % (name, inv, ",".join(diffs) or "orderings-as-built")
            if drift:
                raise vlib.ToolError("explorer violation %s while the explorer has drifted from the code; fix the model" % key)
            run.violation(key, "TLC counterexample on OnceEventSync (%s) with the orderings measured from the code" % name,
                          {"mode": name, "violation": r.violation, "measured_orderings": ordmap, "differences_from_model_baseline": diffs,
                           "counterexample": r.cex[:20000]})
    run.cov["evaluations"] = run.cov["traces_validated_against_impl"]
    run.cov["distinct_nontrivial"] = len(lv)
    run.cov["rule"] = ("distinct = explorer behaviours (leaves of the edge-cover tree under SC) replayed as schedules on the real boxed "
                       "event; plus seeded random/PCT schedules; explorer model-checked under SC and RC11 with measured orderings")
    run.cov["exhaustive"] = (drift == 0 and thorough)
    run.assume("RC11 fragment without load buffering (DESIGN 3.1); executions observed on x86 are sequentially consistent")
    run.assume("the shim atomics (cfg folo_verif) perform exactly the operation of std::sync::atomic they wrap")


def replay(path):
    rep = json.load(open(path))
    st = rep["replay"].get("stimulus")
    print(json.dumps(rep["replay"], indent=1)[:6000])
    if st and "receiver" in st:
        wd = workdir(PID, "replay_run", clean=True)
        vlib.cargo_build(["h_once"])
        s = {"id": 1, "storage": st.get("storage", "boxed"), "sender": st["sender"], "receiver": st["receiver"], "seed": rep.get("seed", 1)}
        recs = oc.run_harness(wd, "replay", [s])
        for r in recs:
            print(json.dumps(r))
    return 0


def selftest():
    """binding demonstration: corrupt accepted traces and see them rejected"""
    vlib.cargo_build(["h_once"])
    wd = workdir(PID, "selftest", clean=True)
    stim = oc.random_stimuli(40, 99, ["boxed"])
    recs = oc.run_harness(wd, "st", stim)
    p = oc.split_logs(recs, wd, "st")
    ok, rej, _ = validate_trace(oc.D, "Trace_OnceEventAbs", p["api"], cfg="Trace_OnceEventAbs.cfg", deque=False)
    assert ok and not rej, "baseline trace must be accepted"
    api = read_ndjson(p["api"])
    bad = 0
    # (a) change one logged field: a value response becomes a disconnect
    m = [dict(r) for r in api]
    for r in m:
        if r["ev"] == "resp" and r["res"] == "value":
            r["res"] = "disc"
            break
    vlib.write_ndjson(os.path.join(wd, "mut_a.ndjson"), m)
    ok, rej, _ = validate_trace(oc.D, "Trace_OnceEventAbs", os.path.join(wd, "mut_a.ndjson"), cfg="Trace_OnceEventAbs.cfg", deque=False)
    bad += 0 if rej else 1
    # (b) delete one event: a waker drop
    m = [dict(r) for r in api]
    for i, r in enumerate(m):
        if r["ev"] in ("wdrop", "wwake"):
            del m[i]
            break
    vlib.write_ndjson(os.path.join(wd, "mut_b.ndjson"), m)
    ok, rej, _ = validate_trace(oc.D, "Trace_OnceEventAbs", os.path.join(wd, "mut_b.ndjson"), cfg="Trace_OnceEventAbs.cfg", deque=False)
    bad += 0 if rej else 1
    # (c) duplicate a release
    m = []
    done = False
    for r in api:
        m.append(dict(r))
        if r["ev"] == "release" and not done:
            m.append(dict(r))
            done = True
    vlib.write_ndjson(os.path.join(wd, "mut_c.ndjson"), m)
    ok, rej, _ = validate_trace(oc.D, "Trace_OnceEventAbs", os.path.join(wd, "mut_c.ndjson"), cfg="Trace_OnceEventAbs.cfg", deque=False)
    bad += 0 if rej else 1
    # (d) step log: weaken one ordering -> conformance table changes; swap a value -> conformance rejects
    conf = read_ndjson(p["conf"])
    m = [dict(r) for r in conf]
    for r in m:
        if r["ev"] == "atomic" and r["op"] == "fetch_add":
            r["obs"] = 4 if r["obs"] != 4 else 0
            break
    vlib.write_ndjson(os.path.join(wd, "mut_d.ndjson"), m)
    acc, table, _ = oc.conformance(wd, "mut_d", os.path.join(wd, "mut_d.ndjson"))
    bad += 1 if acc else 0
    print("selftest C05: corrupted traces not rejected: %d" % bad)
    return 1 if bad else 0
