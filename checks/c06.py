"""C06 — event storage is released exactly once, after every access by the other endpoint.

  spec/lib/RC11.tla + TraceRC11.tla   trace-level happens-before race / use-after-release detector with exact-once accounting
  OnceEventSync.tla                   explorer: NoRace under RC11 with the orderings measured from the code
  OnceEventAbs.tla                    API judge: exactly one release, not early, pool/lake empty at quiescence
  storages: boxed, embedded, pooled, raw_pooled, lake, raw_lake; rental traffic from 2..8 tasks
"""
import json, os, random
import vlib
import once_common as oc
import c05
from vlib import workdir, tlc, tlc_prints, validate_trace, read_ndjson, write_ndjson

PID = "C06"
STORAGES = ["boxed", "embedded", "pooled", "raw_pooled", "lake", "raw_lake"]


def rc_key(rj):
    rec = rj.get("rec", {})
    why = rj.get("why", "")
    if "race" in why:
        what = rec.get("ev")
        if what == "cell":
            what = "cell-" + rec.get("part", "?")
        elif what == "atomic":
            what = "atomic-" + rec.get("op", "?")
        return "hb:race-at-%s" % what
    for pat, k in (("released twice", "double-release"), ("handed out while", "double-rent"), ("leak", "leak"),
                   ("not empty", "pool-not-empty"), ("did not terminate", "hang"), ("not sequentially consistent", "harness-inconsistent")):
        if pat in why:
            return "storage:" + k
    return "storage:other"


def judge_rc11(run, wd, tag, path, cfg):
    ok, rejects, tr = validate_trace(oc.D, "Trace_OnceRC11", path, cfg=cfg, timeout=2400, deque=False)
    run.add_tlc("Trace_OnceRC11 " + tag, tr, count_states=False)
    for rj in rejects:
        if "line" not in rj:
            raise vlib.ToolError("RC11 trace not consumed: %s" % json.dumps(rj)[:500])
        key = rc_key(rj)
        if key == "storage:harness-inconsistent":
            raise vlib.ToolError("recorded trace is not SC: %s" % json.dumps(rj)[:400])
        runrecs = oc.run_containing(path, rj["line"])
        run.violation(key, "TraceRC11 rejects a recorded run: %s at %s" % (rj.get("why"), json.dumps(rj.get("rec"))[:200]),
                      {"why": rj.get("why"), "at": rj.get("rec"), "stimulus": runrecs[0], "trace": runrecs[:400]})


def check(run):
    vlib.cargo_build(["h_once"])
    wd = workdir(PID, clean=True)
    thorough = run.tier == "thorough"
    rng = random.Random(run.seed)
    # (1) calibration (ordering table) on every storage strategy
    cal = oc.random_stimuli(90, run.seed, STORAGES)
    recs = oc.run_harness(wd, "cal", cal)
    p = oc.split_logs(recs, wd, "cal")
    acc, table, tr = oc.conformance(wd, "cal", p["conf"])
    run.add_tlc("Trace_OnceEventSync calibration", tr, count_states=False)
    drift = 0 if acc else 1
    table = table or {}
    c05.judge_api(run, wd, "calibration", p)
    judge_rc11(run, wd, "calibration", p["rc11"], "Trace_OnceRC11.cfg")
    # (2) explorer edge cover replayed on the six storage strategies
    gcfg = os.path.join(wd, "gen.cfg")
    open(gcfg, "w").write("CONSTANTS MaxPolls = 2  MaxChecks = 1  SC = TRUE  Ord <- OrdFixed\nSPECIFICATION GSpec\nVIEW GView\n"
                          "ACTION_CONSTRAINT EmitEdge\nCHECK_DEADLOCK FALSE\n")
    g = tlc(oc.D, "MC_OnceEventSyncGen", cfg=gcfg, workers=1, timeout=1800, xmx="6g")
    if g.error or g.violation:
        raise vlib.ToolError("generator failed: %s %s" % (g.error, g.violation))
    lv = oc.leaves([json.loads(s) for s in tlc_prints(g.out, "BEH")])
    run.cov["edge_cover_behaviours"] = len(lv)
    if not thorough:
        rng.shuffle(lv)
        lv = lv[:600]
    stim = [oc.hist_to_stimulus(h, i + 1, STORAGES[i % len(STORAGES)], run.seed, table) for i, h in enumerate(lv)]
    stim = oc.with_same_waker_variants(stim, 50000)
    recs = oc.run_harness(wd, "edge", stim)
    ends = [r for r in recs if r["ev"] == "end"]
    run.cov["scripted_runs"] = len(ends)
    run.cov["scripted_runs_with_drift"] = sum(1 for e in ends if e["drift"] > 0)
    p = oc.split_logs(recs, wd, "edge")
    c05.judge_api(run, wd, "edge-cover", p)
    judge_rc11(run, wd, "edge-cover", p["rc11"], "Trace_OnceRC11.cfg")
    acc2, table2, tr = oc.conformance(wd, "edge", p["conf"])
    run.add_tlc("Trace_OnceEventSync edge-cover", tr, count_states=False)
    if not acc2:
        drift += 1
    for k, v in (table2 or {}).items():
        if v != "?":
            table[k] = v
    run.cov["traces_validated_against_impl"] += len(ends) + len(cal)
    run.sample({"stimulus": stim[0]})
    # (3) seeded random schedules on every storage
    n = 3000 if thorough else 400
    rnd = oc.random_stimuli(n, run.seed + 2, STORAGES, first_id=100000)
    recs = oc.run_harness(wd, "rand", rnd)
    p = oc.split_logs(recs, wd, "rand")
    c05.judge_api(run, wd, "random", p)
    judge_rc11(run, wd, "random", p["rc11"], "Trace_OnceRC11.cfg")
    run.cov["traces_validated_against_impl"] += n
    # (4) rental / return traffic from 2..8 tasks with immediate re-rental of slots
    tn = 120 if thorough else 24
    traffic = []
    for i in range(tn):
        traffic.append({"id": 200000 + i, "storage": STORAGES[i % len(STORAGES)] if STORAGES[i % len(STORAGES)] != "embedded" else "pooled",
                        "tasks": 2 + (i % 7), "cycles": 2 + (i % 3), "seed": rng.randrange(1 << 30), "pct": i % 3 == 0})
    sp = os.path.join(wd, "traffic.stim.ndjson")
    out = os.path.join(wd, "traffic.log.ndjson")
    write_ndjson(sp, traffic)
    recs, crashes = vlib.run_stimuli("h_once", "traffic", sp, out, timeout=1800)
    if crashes:
        # a crash of the code under test inside a traffic run: the API judge sees a run that did not terminate
        cp = os.path.join(wd, "traffic.crashed.ndjson")
        crashed_ids = {r.get("id") for r in recs if r["ev"] == "abort"}
        write_ndjson(cp, [dict(oc.API_DEF, **{k: r[k] for k in r if k in ("ev", "id", "outcome", "pool_len", "panics")})
                          for r in recs if r["ev"] in ("reset", "end") and r.get("id") in crashed_ids])
        c05.judge_api(run, wd, "traffic-crashes", {"api": cp})
    p = oc.split_logs(recs, wd, "traffic")
    judge_rc11(run, wd, "traffic", p["rc11"], "Trace_OnceRC11_traffic.cfg")
    run.cov["traffic_runs"] = tn
    run.cov["traffic_events"] = len(recs)
    run.cov["traces_validated_against_impl"] += tn
    run.sample({"traffic_stimulus": traffic[0], "log_head": recs[1:8]})
    # (5) explorer under RC11 with the measured orderings: NoRace = every access happens-before the release
    consts = "MaxPolls = %d  MaxChecks = %d" % ((3, 1) if thorough else (2, 1))
    r_wm, ordmap = oc.rc11_explore(run, "rc11", table, consts, workers=8, sc=False)
    run.add_tlc("OnceEventSync RC11, measured orderings (%s)" % consts, r_wm)
    run.cov["ordering_table"] = ordmap
    run.cov["conformance_drift"] = drift
    if r_wm.error:
        raise vlib.ToolError("explorer: %s" % r_wm.error)
    if r_wm.violation:
        diffs = sorted("%s=%s" % (k, v) for k, v in ordmap.items() if oc.ORD_AS_BUILT.get(k) != v)
        key = "explorer:rc11:%s:%s" % (r_wm.violation.replace("invariant ", ""), ",".join(diffs) or "orderings-as-built")
        if drift:
            raise vlib.ToolError("explorer violation %s while the explorer has drifted from the code; fix the model" % key)
        run.violation(key, "TLC counterexample on OnceEventSync under RC11 with the orderings measured from the code",
                      {"violation": r_wm.violation, "measured_orderings": ordmap, "differences_from_model_baseline": diffs,
                       "counterexample": r_wm.cex[:20000]})
    run.cov["evaluations"] = run.cov["traces_validated_against_impl"]
    run.cov["distinct_nontrivial"] = len(lv)
    run.cov["rule"] = ("distinct = explorer behaviours replayed as schedules, rotated over the six storage strategies; plus random/PCT "
                       "schedules and multi-task rental traffic; every recorded run goes through the trace-level RC11 detector")
    run.cov["exhaustive"] = (drift == 0 and thorough)
    run.assume("release -> next allocation of the same storage is ordered by the allocator / pool lock (trusted base: plurality, std alloc)")
    run.assume("RC11 fragment without load buffering; debug-profile build (backtrace mutex inside the event is modelled as a lock)")


def replay(path):
    return c05.replay(path)


def selftest():
    vlib.cargo_build(["h_once"])
    wd = workdir(PID, "selftest", clean=True)
    stim = oc.random_stimuli(60, 5, STORAGES)
    recs = oc.run_harness(wd, "st", stim)
    p = oc.split_logs(recs, wd, "st")
    ok, rej, _ = validate_trace(oc.D, "Trace_OnceRC11", p["rc11"], cfg="Trace_OnceRC11.cfg", deque=False)
    assert ok, rej[:2]
    rc = read_ndjson(p["rc11"])
    bad = 0
    # (a) weaken every release CAS/store of the receiver and the sender to relaxed: some run must now race
    m = [dict(r) for r in rc]
    for r in m:
        if r["ev"] == "atomic" and r["ord"] == "rel":
            r["ord"] = "rlx"
    write_ndjson(os.path.join(wd, "mut_a.ndjson"), m)
    ok, rej, _ = validate_trace(oc.D, "Trace_OnceRC11", os.path.join(wd, "mut_a.ndjson"), cfg="Trace_OnceRC11.cfg", deque=False)
    bad += 0 if rej else 1
    # (b) drop all acquire fences
    m = [dict(r) for r in rc if not (r["ev"] == "atomic" and r["op"] == "fence")]
    write_ndjson(os.path.join(wd, "mut_b.ndjson"), m)
    ok, rej, _ = validate_trace(oc.D, "Trace_OnceRC11", os.path.join(wd, "mut_b.ndjson"), cfg="Trace_OnceRC11.cfg", deque=False)
    bad += 0 if rej else 1
    # (c) duplicate a release
    m = []
    done = False
    for r in rc:
        m.append(dict(r))
        if r["ev"] == "release" and not done:
            m.append(dict(r))
            done = True
    write_ndjson(os.path.join(wd, "mut_c.ndjson"), m)
    ok, rej, _ = validate_trace(oc.D, "Trace_OnceRC11", os.path.join(wd, "mut_c.ndjson"), cfg="Trace_OnceRC11.cfg", deque=False)
    bad += 0 if rej else 1
    print("selftest C06: corrupted traces not rejected: %d" % bad)
    return 1 if bad else 0
