"""bin/check setup: parse every spec module with SANY, build the harness workspace offline."""
import os, sys, glob
import vlib


def main():
    bad = 0
    for d in sorted(glob.glob(os.path.join(vlib.SPEC, "*"))):
        for f in sorted(glob.glob(os.path.join(d, "*.tla"))):
            if "_TTrace_" in f:
                continue
            mod = os.path.basename(f)[:-4]
            ok, out = vlib.sany_lib(d, mod)
            if not ok:
                bad += 1
                print("SANY FAILED", f)
                print(out[-2000:])
    try:
        t = vlib.cargo_build()
        print("harness built in %.0fs" % t)
    except vlib.ToolError as e:
        print(e)
        return 2
    return 2 if bad else 0
