"""What MANIFEST.json claims. Edited by hand; bin/mkmanifest renders it."""

HOOK_COMMITS = []

NOTES = ("Every check is decided by TLA+ specifications under spec/ checked with TLC and bound to the code by replaying "
         "TLC-generated stimuli into the real crates and validating the recorded traces against the judge specification. "
         "known_findings.json lists genuine defects (known / fixed). See DESIGN.md.")

NOT_APPLICABLE = {}

CHECKS = {
    "C03": {
        "text": "TLC checks PoolMT (pool values, unique handles and shared-handle removers as Arc holders of one Mutex<raw pool>; every pool method one "
                "action at its lock acquisition; Arc decrement, removal and Arc release of a drop as separate steps) for all interleavings of 3 threads "
                "x 2 operations from every initial distribution of handles and pool values: destroyed at most once, never while a handle exists, not "
                "later than the last drop, storage alive while any handle exists, len under the lock = abstract pool. Free-running runs of 2..16 "
                "threads on OpaquePool/PinnedPool/BlindPool with 2-3-slot slabs are linearized by hook H1's event callback (sequence number drawn "
                "under the pool mutex) and validated record by record by the judge PoolMTAbs in TLC. Send/Sync: TLC explores every distribution of "
                "handles, borrows, clones, moves and drops over two threads under Rust's Send/Sync rules for every handle type x payload shape x "
                "payload class of a trait table measured by rustc, checking that a payload is shared only if Sync and crosses threads only if Send.",
        "note": "Bounded: 3 threads x 2 ops x <=2 objects exhaustively; ~6e4 sampled operations in thorough. Trusted: TLC, rustc's trait solver (probe), "
                "H1 callback placement, the `T: Send` bounds of the pools' insert signatures (read, not measured). Known S1 findings in known_findings.json.",
        "technique": "TLA+ explorer + judge checked by TLC; rustc-measured constants; linearized trace validation by TLC",
    },
    "C04": {
        "text": "TLC enumerates every callback program (guard discipline mutex/RefCell/&mut x object graph of <=2 (thorough 3) scripted objects x "
                "destructor bodies return/panic/len/insert x trigger drop / insert_with / with_iter x closure script x bystander x handle kind, nesting "
                "depth <=2) and interprets it with the code's step order and Rust's unwinding/abort rules; every program is replayed in its own child "
                "process under a structural watchdog on every pool type of its discipline (all nine), with scripted destructors and closures; every "
                "recorded event trace (outcomes returned/panicked/hung/aborted, len, iteration, capacity, drop-pool) is judged by PoolCallbacksAbs in "
                "TLC and compared event by event with the explorer's prediction.",
        "note": "Bounded: <=3 objects, depth 2, one slab (plus a full-slab placement in thorough). Explorer fidelity measured (drift 0). Trusted: TLC, the "
                "panic hook / write(2) event log, hang = child asleep in futex(2) with unchanged CPU time after >=10 s. Design-level re-entrance findings "
                "are known findings; 4 fixed.",
        "technique": "TLA+ explorer + judge checked by TLC; all TLC-generated programs replayed in child processes; trace validation by TLC",
    },
    "C15": {
        "text": "TLC checks an implementation-shaped explorer of future_deque_core.rs + waker_meta.rs (one action per scheduling point: deque operations, "
                "every shimmed atomic of the waker metadata, the parent mutex critical section, the parent wake) composed with the deterministic judge "
                "FutureDequeAbs (deque order; polled only if inserted or woken; a wake after Pending => the next deque poll polls that future and the "
                "latest parent waker was woken, also across a parent change; exactly-once drops; metadata freed exactly when the last reference goes and "
                "never touched afterwards) for every interleaving of the deque task and 2 remote threads, <=3 futures, plus termination under fairness; "
                "waker_meta.rs is additionally model-checked through RC11 with the memory orderings extracted from the instrumented crate's step logs; "
                "TLC-generated behaviours are replayed step by step on the real FutureDeque / LocalFutureDeque (drift measured) and seeded random/PCT "
                "schedules are recorded; every run is judged by the same judge in TLC and its step log is replayed through the trace-level RC11 detector.",
        "note": "Exhaustive bounds: <=3 futures x <=4-5 deque ops, <=2-3 polls per future, 2 remote threads x <=2 ops; larger instances by simulation and "
                "random stimuli. Weak memory is decided on the RC11 fragment, not observed. Handing a Waker to another thread is assumed to synchronise. "
                "Trusted: TLC, the tracer, the ordering-site classification in checks/c15.py, plurality's pool.",
        "technique": "TLA+ judge + explorer checked by TLC; TLC-simulated behaviours replayed as scripts under a deterministic scheduler; trace validation by "
                     "TLC; RC11 model with orderings measured from the code; trace-level RC11 replay",
    },
    "C07": {
        "text": "OnceEventLocal.tla models the single-threaded event as a call stack: one action per access to the event (state get/set/replace, cell "
                "reads/writes, release) in the order of core/local.rs, and at every waker clone / wake / drop the specification may push any "
                "legal operation of the other endpoint (re-entrancy) or return; TLC explores the whole tree of nestings (deadlock check on) and "
                "checks the API judge OnceEventAbs, exactly one release, no access after release, no uninitialised cell access, no unreachable "
                "arm. TLC-generated programs (top-level ops + ops inside the k-th callback invocation) are replayed on the real LocalEvent with a "
                "scripted waker vtable over boxed, embedded, pooled and lake storage; every access, callback and release is logged through the "
                "folo_verif hooks and judged by TLC (Trace_OnceEventAbs incl. access-after-release).",
        "note": "Bounds: MaxPolls 2 (thorough 3), 2 operations per callback invocation, nesting bounded by construction (each endpoint on the "
                "stack at most once). Trusted: TLC, hooks reporting every access, scripted vtable.",
        "technique": "TLA+ call-stack explorer checked by TLC; TLC-generated callback programs replayed on the real code; trace validation by TLC",
    },
    "C05": {
        "text": "OnceEventSync.tla transcribes core/sync.rs (set, sender drop, poll arms, is_set, into_value, final_poll) one action per atomic "
                "operation / fence / cell access, memory through an explicit RC11 release/acquire model (spec/lib/RC11.tla) whose "
                "per-site orderings are MEASURED from the instrumented code on every run; TLC checks the API judge OnceEventAbs as a "
                "monitor, no unreachable arm, no uninitialised cell access, spin-loop exit (liveness, SC) and race freedom for all "
                "interleavings and all RC11 outcomes of send|drop x (poll^k, is_ready, into_value, drop). Every explorer behaviour "
                "(edge cover) is replayed as a schedule on the real event through shim atomics and a deterministic scheduler; every "
                "recorded run is validated by TLC against the explorer (conformance, drift measured) and against the API judge.",
        "note": "Bounds: MaxPolls 2 (thorough 3), one is_ready; RC11 without load-buffering/OOTA; x86 executions are SC, weak outcomes only in "
                "the model. Trusted: TLC, the shim atomics (cfg folo_verif) forwarding to std atomics, the scheduler's total order.",
        "technique": "TLA+ explorer over an explicit RC11 memory model with orderings measured from the code, checked by TLC; schedule replay "
                     "of TLC behaviours on the real code; trace validation (conformance + API judge) by TLC",
    },
    "C06": {
        "text": "Same explorer: release of the storage is a non-atomic write to every cell incl. a liveness cell `blk` that every access reads, so "
                "NoRace under RC11 (measured orderings) is exactly 'every access by the other endpoint happens-before the release'; plus "
                "TraceRC11: every run recorded from the real code on all six storage strategies (boxed, embedded, pooled, raw-pooled, lake, "
                "raw-lake) and multi-task rental traffic with immediate re-rental is replayed by TLC through RC11 alone (happens-before "
                "race / use-after-release detection with the orderings actually passed), with exactly-once release, no double rent, no "
                "leak and pool/lake length 0 at quiescence; API judge checks release exactly once and not early.",
        "note": "release -> next allocation of the same storage is ordered by the allocator / pool lock (trusted base). Debug-profile build "
                "(backtrace mutex inside the event modelled as a lock). Bounds as C05; traffic 2..8 tasks.",
        "technique": "TLA+ RC11 model checked by TLC (explorer NoRace) + TLC trace validation of recorded runs through RC11 (vector-clock race detection)",
    },
    "C09": {
        "text": "TLC explores the five selection loops of take()/take_all() (every random pick nondeterministic) over every candidate "
                "map of 3 regions x 0..2 (thorough 0..3) candidates, every policy, n and quota, and checks each terminal state against "
                "the declarative judge ProcSelectAbs (whose closed forms TLC proves equal to brute-force subset enumeration); every "
                "enumerated stimulus is replayed several times on the real ProcessorSetBuilder over fake hardware with decoy "
                "processors that filters must exclude, plus seeded random topologies up to 64 processors / 8 regions; every recorded "
                "(topology, query, result) is judged by the same TLA+ judge in TLC.",
        "note": "Bounded exhaustive universe (3 regions, <=3 per region, n<=6); larger topologies sampled. Trusted: TLC, fake hardware "
                "of the crate (test-util), harness recording of ids.",
        "technique": "TLA+ explorer + declarative judge checked by TLC; TLC-enumerated stimuli replayed on the real builder; trace validation by TLC",
    },
    "C11": {
        "text": "TLC explores emit.rs step by step with checked W-bit arithmetic for every id set (W=3 quick, 4 thorough) and proves "
                "no-panic, round trip and canonical form; TLC enumerates every cpulist text of <=2 parts as parser stimuli; all "
                "stimuli are replayed on the real cpulist crate under low/mid/top-of-u32 embeddings and every recorded result is "
                "judged by CpuListAbs in TLC. Inventory: TLC enumerates machine descriptions with the expected inventory; replayed "
                "through the Linux platform over a fake filesystem (hook) and judged.",
        "note": "Bounded: W-bit universes, <=4 cpus / 2 nodes for exhaustive machine descriptions, random beyond. Trusted: TLC, "
                "the lexical tokenizer of the harness, the embedding of model ids into u32.",
        "technique": "TLA+ explorer + judge specs checked by TLC; TLC-generated stimuli replayed on the real code; trace validation by TLC",
    },
    "C01": {
        "text": "TLC checks SlabPool.tla (RawOpaquePool as built: per-slab free lists, counts, vacancy bitmap in blocks incl. leftover bits, cached "
                "next vacancy, reserve / shrink_to_fit, blind-pool layout routing) for every operation history within the bounds against the invariants "
                "of SlabInv, the action property StableExclusive (address of a live object never changes, addresses injective, slots occupied) and "
                "refinement to the judge PoolAbs; SlabLayout.tla proves slot geometry (object inside its slot, aligned, disjoint from every tag and "
                "every other object) for size 1..40 x align 1..64 x tag layouts; VacancyMap.tla the bitmap on its own. Every transition of the explorer "
                "graphs is replayed on all nine real pool types with hook H1 making slabs Cap objects wide, plus seeded random histories, a history "
                "crossing the real 64-slab bitmap block and a sweep over payload layouts (size 1..>1 MiB, align 1..4096); every recorded operation "
                "(addresses, canary values, byte intervals of live objects / tags / freed slabs, probed bookkeeping) is judged by Trace_PoolAbs in TLC.",
        "note": "Exhaustive within Cap in {2,3}, Block in {2,4}, <=4-8 slabs; the real block size 64 and big layouts by replay only. Trusted: TLC, hook H1's "
                "read-only probe, the harness's address -> small id / rank compression (order and equality preserved), the global allocator's alignment.",
        "technique": "TLA+ explorer + judge checked by TLC; edge-cover replay of TLC behaviours on the nine real pool types; trace validation by TLC",
    },
    "C02": {
        "text": "TLC checks Handles.tla (unique / shared / raw handles x typed / erased / dyn views, one remover per shared family with its count, "
                "extraction by value, both drop policies, drop-pool) for all handle and drop histories of <=2 objects x 3 handles (thorough 3x3 and 4x2): "
                "destructor at most once, never while a handle exists, never for an extracted object, must-not-drop pool panics iff non-empty; the "
                "accounting invariants (length = sum of slab counts = live objects, capacity >= len, no vacancy forgotten) and the reserve contract "
                "(reserve(n) then n inserts do not grow capacity) are checked on SlabPool.tla. The C01 recordings (edge-cover replay + random histories on "
                "the nine pool types) are judged by Trace_Handles in TLC against the drop-counting payload's destructor log, panics, len / is_empty / "
                "capacity and forward / backward / double-ended iteration after every operation.",
        "note": "Bounds as listed in evidence tlc_runs; larger histories sampled. Destructor runs are attributed by the address the payload logs from "
                "`drop(&mut self)`. Panicking destructors are C04's subject. Trusted: TLC, hook H1 probe, harness recording.",
        "technique": "TLA+ handle-layer judge + explorer checked by TLC; edge-cover replay on the nine real pool types; trace validation by TLC",
    },
    "C08": {
        "text": "TLC checks implementation-shaped explorers of auto.rs and manual.rs (one action per atomic step / mutex acquisition, awaiter list, "
                "lifecycle byte, re-poll with a new waker, drop of pending / notified waits) with linearizability as a state variable (LinMonitor: the "
                "set of configurations of the sequential judge ResetEventAbs consistent with the history so far must stay non-empty) plus wake "
                "obligations (latest waker invoked, no signal lost at quiescence) for all interleavings of 3 threads x 2 calls; the single-threaded "
                "variants through a call-stack explorer with re-entrant wakers; AwaiterSet at pointer level against a sequence abstraction; both events "
                "again through RC11 with the memory orderings measured from the instrumented code. One schedule per reachable explorer state, simulated "
                "behaviours and seeded random/PCT schedules are executed on the real boxed and embedded events under the deterministic scheduler (hook "
                "H3); every recorded invocation/response/wake history is judged by the same monitor in TLC, every step log is checked for conformance "
                "to the explorer (fidelity, ordering table), AwaiterSet API histories are judged by Trace_AwaiterSet.",
        "note": "Exhaustive for 3 threads x 2 calls (role menus in quick; every call for every thread in thorough). Executions under the scheduler are "
                "sequentially consistent; weak-memory outcomes are decided on the RC11 fragment only. Assumes the Future contract (one poller at a time, "
                "no poll after Ready). Trusted: TLC, shim atomics / cooperative mutex of hook H3, the scheduler's total order.",
        "technique": "TLA+ explorers with a linearizability monitor over a sequential TLA+ judge, checked by TLC (SC and RC11 with measured orderings); "
                     "schedule replay of TLC behaviours on the real events; history and step-level trace validation by TLC",
    },
    "C10": {
        "text": "TLC checks Pinning.tla (the library's per-thread, per-hardware-instance pin cache as the code maintains it) against the judge PinningAbs "
                "(OS affinity = last pin; every answer owed to the last pin of that thread on that instance) for every history of pin / spawn_threads / "
                "spawn_thread by 2 threads through 2 hardware instances over 3 abstract processors, and CpuMask.tla (words x bits with a width; set "
                "semantics independent of width). Every enumerated history is replayed on the real kernel (the harness reads sched_getaffinity / "
                "sched_getcpu itself after every operation) and on the H4 platform over a harness kernel storing raw mask bytes (ids >= 64, word "
                "embeddings, 1024..8192 cpus), plus subsets of the real processors; the recorded event log is judged by Trace_Pinning and "
                "Trace_CpuMask in TLC.",
        "note": "Real kernel limited to the sandbox's 16 processors; larger ids only through the substituted binding, which follows "
                "kernel/sched/syscalls.c for mask lengths. Trusted: TLC, libc affinity calls in the harness, hook H4.",
        "technique": "TLA+ explorer + judge checked by TLC; TLC-enumerated histories replayed on the real kernel and a harness kernel; stateful trace validation by TLC",
    },
    "C12": {
        "text": "TLC checks LinkedStatics.tla (StaticInstances::get step by step: local lookup, read lock, create outside the lock, insert-if-vacant, "
                "clone, cache; nested initialisers over every DAG of <=3 statics, <=3 threads) and PerThread.tla (InstancePerThread(Sync) acquire / clone / "
                "move to another thread / drop, every program of <=3-4 operations) against the judge LinkedAbs: one initial instance exposed, one family, "
                "at most one live instance per thread created there and dropped exactly with its last aligned reference wherever dropped; deadlock "
                "freedom and termination under fairness. One witness per distinct terminal state plus random walks are replayed as schedule scripts on the "
                "real crate through the H5 yield points (drift measured), re-run under random / PCT schedules and free-running in child processes under a "
                "watchdog; every recorded event is judged by LinkedAbs in TLC.",
        "note": "Bounds: <=3 statics, <=3 threads; code between two yield points is atomic (SC). InstancePerThread (Rc) has no yield points and is replayed "
                "atomically. Trusted: TLC, scheduler, the instrumented linked object of the harness.",
        "technique": "TLA+ explorers + judge checked by TLC (safety, deadlock, liveness); schedule replay on the real crate; trace validation by TLC",
    },
    "C13": {
        "text": "TLC checks RegionCached.tla (with_cached / set_global step by step: slot states, latest value + generation, initialise by CAS, "
                "invalidation, the re-check of the latest generation) and RegionLocal.tla against the judge RegionAbs (R0 reads return written values, "
                "R1 own write visible unless overwritten, R2 no writer's values out of order per reader and region, R3 at quiescence every read returns the "
                "last value) over every interleaving of each scenario of RegionScenarios on 2 regions, with deadlock freedom and termination under "
                "fairness. Witness behaviours per terminal state and random walks are replayed as schedule scripts on the real crates over fake hardware "
                "through the H6 yield points (drift measured); the same and seeded random programs on 1..8 regions run under random / PCT schedules; "
                "every trace ends with a probe read of every region and is judged by RegionAbs in TLC.",
        "note": "Bounds: 2 regions; 2-3 threads exhaustively, 2 writers x 2 writes + 2 readers exhaustively for region_local (thorough) and by random walks "
                "for region_cached. SC only. Trusted: TLC, scheduler, the crate's fake hardware (test-util).",
        "technique": "TLA+ explorers + judge checked by TLC (safety, deadlock, liveness); schedule replay on the real crates; trace validation by TLC",
    },
    "C14": {
        "text": "TLC checks Vicinal.tla (one action per scheduling point: lazily created per-processor state, two queues under locks, event-listener "
                "registration before re-check, workers_spawned CAS, worker loop, shutdown store / signal / join, schedulers outliving the pool; its "
                "switches are read from the source) against VicinalAbs: a task runs at most once on a worker of the spawner's processor, outcome = value / "
                "panic / abandoned only if never run and drop started; liveness under weak fairness: every join handle resolves, spawn returns, drop "
                "terminates, no worker left. Breadth-first witnesses of named situations and simulated walks are replayed step by step on the real pool "
                "(hook H7, fake hardware and the real CPUs) under the deterministic scheduler with structural deadlock detection, plus seeded random/PCT "
                "schedules and free-running scenarios in a child process under a watchdog; every trace is judged by Trace_Vicinal in TLC.",
        "note": "Bounds: 2 processors, 1 worker each, 2 spawners x 2 tasks, drop at any point, one late scheduler. SC interleavings of the hook points; "
                "nested spawns from task bodies not explored; event-listener semantics as modelled. Trusted: TLC, scheduler, hook H7 placement.",
        "technique": "TLA+ explorer + judge checked by TLC incl. liveness under fairness; schedule replay on the real pool; trace validation by TLC",
    },
    "C16": {
        "text": "TLC checks Metrics.tla (per thread x event bag of count / sum / bucket counts, dirty bitmap with the overflow bit at index OV, push mirrors "
                "and last_pushed_count, registry, archive of exited threads) against the judge MetricsAbs in every state of every history of observe / "
                "batch / push / exit / respawn / report: report = pull totals + what push events had at their last push, exited threads included, "
                "placement in the first bucket with bound >= m else overflow, batches weigh their size; MetricsConc.tla does the same per atomic "
                "operation for reports concurrent with observers / pushers / exits (envelope between completed-before and invoked-before totals). Leaf "
                "behaviours are replayed through the public nm API on real threads with fresh event names under bucket embeddings that map the model's "
                "OV onto the code's 63 and magnitudes onto i64 extremes and bounds +-1 (sums judged exactly with 16-bit limbs); plus seeded random "
                "histories and concurrent rounds; Report::collect() after every step is judged by Trace_Metrics / Trace_MetricsConc in TLC.",
        "note": "Bounds in evidence tlc_runs (2 threads, <=4 model buckets, short histories). Sums are judged only while every partial sum fits i64. "
                "Trusted: TLC, JoinHandle::join ordering after thread-local teardown, the SeqCst stamp counter of the concurrent driver.",
        "technique": "TLA+ explorers + judge checked by TLC; leaf behaviours replayed through the public API under boundary embeddings; trace validation by TLC",
    },
    "C17": {
        "text": "TLC checks ParBench.tla (main + N workers, command and one-shot result channels, barrier, callback sequence, switches mirroring the tree) "
                "for every placement of a panic in any callback of any worker against ParBenchAbs step by step: prepare once, body exactly k times, even "
                "groups, released together, one output per thread, and nothing touches borrowed state after execute_on returned or unwound. Every "
                "enumerated placement is replayed on the real ThreadPool with harness callbacks (healthy workers held back so that execute_on gets the "
                "chance to leave early; borrowed state is a leaked flag object so a late access is an event, not UB), healthy runs for 1..16 threads x "
                "dividing group counts x k; every recorded trace is judged by Trace_ParBench in TLC.",
        "note": "Bounds: n <= 3 workers, k <= 2, every placement. A late access is observed only within the gate + quiet period (timeouts can hide a late "
                "access, never invent one). Trusted: TLC, the harness callbacks as the only accesses to borrowed state.",
        "technique": "TLA+ explorer + judge checked by TLC over every panic placement; each placement replayed on the real pool; trace validation by TLC",
    },
    "C18": {
        "text": "TLC checks AllocTracker.tla (never-cleared registry of per-thread counters with lazy registration, thread and process spans nested and "
                "overlapping, ended on any thread where the type allows, OperationMetrics, merged reports) against AllocTrackerAbs for every history of "
                "alloc / alloc_zeroed / realloc / dealloc and span start / end: span = difference of the relevant counters, realloc = one call + full new "
                "size, frees count nothing, reports = sums of spans, transparency of each call. Leaf behaviours are replayed across real threads on "
                "alloc_tracker::Allocator wrapping a recording inner allocator (called directly, not installed), plus seeded random behaviours on 1..16 "
                "threads and free-running thread spans; the inner allocator's call log, returned pointers and every report are judged by "
                "Trace_AllocTracker in TLC.",
        "note": "Bounds: 2 threads, short histories (evidence tlc_runs). The tracker is exercised by direct calls, not as #[global_allocator]. Totals kept "
                "below 2^31. Trusted: TLC, channel handshakes sequencing the behaviours.",
        "technique": "TLA+ explorer + judge checked by TLC; leaf behaviours replayed on the real allocator wrapper; trace validation by TLC",
    },
    "C19": {
        "text": "TLC checks LocalStore.tla (local.rs step by step at the named verif points: validate key, create dirs, exists?, temp file, chunks, "
                "flush, rename / cleanup; get, list, delete, put_overwrite; Crash enabled at every writer pc) against StoreAbs, a linearizable write-once "
                "register with dying clients (configuration-set monitor): a key path never holds a partial object, listings never show reserved names, "
                "after a crash at any point a fresh reader sees the old or the new complete object; StoreKeys.tla decides the key rule for every string "
                "over a 6-symbol alphabet. One schedule per distinct terminal state, every crash case (kind x prior content x crash point x payload) in "
                "child processes (hook H9), every enumerated key and seeded random programs are executed on the real LocalStorage and judged by "
                "Trace_Store in TLC (strict judge: the documented write-once register; relaxed judge separates the known check/rename split).",
        "note": "Process death, not power loss (page cache survives); rename / unlink / create / readdir atomic w.r.t. each other (POSIX, one local file "
                "system); gzip as an abstract bijection, read-back observed on sampled payloads; Unix path semantics. Known finding S10 (overlapping "
                "non-overwrite puts) is listed in known_findings.json.",
        "technique": "TLA+ explorer with crash actions + linearizability judge checked by TLC; crash-point and schedule replay on the real store; trace validation by TLC",
    },
    "C20": {
        "text": "RankStats.tla states the statistics as definitions over integers and exact rationals (doubled average ranks, Mann-Whitney U, probability "
                "of superiority, exact two-sided p as doubled permutation tail over all splits with ties, Mann-Kendall S and tie-corrected variance, "
                "Pettitt statistic and first arg-max, Theil-Sen slope, medians, Benjamini-Hochberg step-up with caller family size); TLC enumerates "
                "every weak order of <=6 (thorough 7) points x every split, checks swap symmetry and invariance under increasing maps on the "
                "definitions and prints stimuli; each is run through cbh_stats under several strictly increasing embeddings (1e300 scale, subnormal, "
                "negative, offset) and swapped; the judge re-evaluates the definitions in TLC on every recorded input and compares integers exactly and "
                "p-values against the exact rational within 1e-12 relative, range [1e-15, 1].",
        "note": "Discrete part only: the accuracy of the normal tail, Student t and Pettitt's exponential approximation is NOT decided (only range, "
                "'no evidence' = 1 and monotonicity in the exact statistic). Exhaustive bound n <= 6-7, the property names 10; larger inputs sampled.",
        "technique": "TLA+ definitional judge evaluated by TLC on every weak order within the bound; stimuli replayed into the real functions; trace validation by TLC",
    },
}


# Capabilities added after the round of independently written breaking changes (DESIGN.md 10.7); appended to the level text.
ADDENDA = {
    "C02": " A record of an unexpectedly panicked operation is rejected as such (the history ends there).",
    "C04": " The quick tier also runs the full-slab placement and every drop program with all scripted objects held through type-erased (.erase()) handles. insert_with is also placed at the last vacant slot of its slab, and a multi-threaded run (destructor panics on one thread while three threads call len() and one inserts/drops on the same pool) is judged by the same abstract spec (JRace).",
    "C05": " Receiver programs also re-poll with the SAME waker object (Waker::will_wake true; scripted wakers share one data pointer between a waker "
           "and its clones and are never freed, so a double release is an event for the judge); a crash of the code under test is recorded as a run that did not terminate.",
    "C06": " Same-waker re-polls and crash-as-data as in C05.",
    "C07": " Programs also re-poll with the same waker object; a waker released twice is counted by the judge (leaked, Arc-like scripted wakers); a crash of "
           "the process is a run that did not terminate.",
    "C10": " Histories also contain pins the (harness) kernel refuses - nothing may change and the call may not return normally - and plain threads that inherit "
           "their creator's OS affinity and pin themselves; a 'full' embedding replays the set of all abstract processors as every processor of the instance. Pin sets reach the library through filter() or take_exact (descending / first-and-last-from-one-region order), and hardware instances created at the same moment on 4 threads are used in turn by a fresh thread (instance identity).",
    "C12": " PerThread.tla also explores instance factories that re-enter acquire() on the same wrapper on the same thread and keep the reference (acqr). A free-running driver races a foreign drop of the owner thread's only RefSync against the owner's acquire() pairs; its summary record is judged by LinkedAbs (second live instance on one thread).",
    "C14": " Spawn wake-ups are modelled with event-listener's additive / non-additive notify semantics (switch NotifyAdditional read from the source); bound G "
           "(1 processor x 2 workers, a task body that returns only after another task ran) checks NoIdleLost: no worker sleeps un-notified next to queued work "
           "while the others are busy (finding S16, fixed). Every task closure owns a guard whose destructor spawns on the same scheduler when the closure is destroyed without having run (abandoned at shutdown / refused). Every fourth free-running scenario is a fan-out: a task body waits for a helper thread that spawns onto a never-used processor while the pool is dropped.",
    "C15": " The trace-level RC11 layer gives every remote wake a publication of its own and obliges the poll after the consuming check_activated to see the "
           "publication of every wake that touched the activation flag in any way (load, swap, CAS). Many-future stimuli (33..48 futures woken remotely between two polls, MaxF = 48) and task wakers of an executor that holds a per-task lock while polling and takes it in wake().",
    "C18": " Two threads creating the same new operation: the harness's own global allocator parks the first inside each allocation of Session::operation() while "
           "the second creates the operation and records a span; both spans must reach the report. The wrapped allocator refuses one request in ten (null; still forwarded and counted), and a second harness binary installs the tracker as the global allocator: threads whose registration falls inside an open process span, thread ordinals across registry growth.",
    "C19": " Free-running readers (get/list) race a writer storing a 24 MiB incompressible object with no hook involved, and the crash matrix, round trips and "
           "races are repeated for a key directly under the store root. Compressible payloads around the 32 KiB deflate window, and a file-size-limit fault (EFBIG) both on an early chunk of a large store and on a store that is a single buffered chunk.",
    "C20": " Benjamini-Hochberg families that sit exactly on the threshold (n equal p-values q/2^j in a family of n*2^j, non-dyadic q: exact in f64), completely "
           "separated samples whose exact tail lies below the reportable floor, and medians of exactly scaled samples next to f64::MAX / among the subnormals. Beyond the exhaustive bound: Theil-Sen / median / Mann-Kendall S exactly on 8..13 noisy points; Mann-Kendall on block-structured series of 300..4000 points (closed-form S and variance, multi-limb arithmetic, p a decreasing function of the exact statistic); the permutation component of the selection-adjusted p judged exactly for <= 5 points and a sample of 6.",
}
