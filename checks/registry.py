"""What MANIFEST.json claims. Edited by hand; bin/mkmanifest renders it."""

HOOK_COMMITS = []

NOTES = ("Every check is decided by TLA+ specifications under spec/ checked with TLC and bound to the code by replaying "
         "TLC-generated stimuli into the real crates and validating the recorded traces against the judge specification. "
         "known_findings.json lists genuine defects (known / fixed). See DESIGN.md.")

NOT_APPLICABLE = {}

CHECKS = {
    "C03": {
        "text": "TLC checks PoolMT (pool values, unique handles and shared-handle removers as Arc holders of one Mutex<raw pool>; every pool method one "
                "action at its lock acquisition; Arc decrement, removal and Arc release of a drop as separate steps) for all interleavings of 3 threads "
                "x 2 operations from every initial distribution of handles and pool values: destroyed at most once, never while a handle exists, not "
                "later than the last drop, storage alive while any handle exists, len under the lock = abstract pool. Free-running runs of 2..16 "
                "threads on OpaquePool/PinnedPool/BlindPool with 2-3-slot slabs are linearized by hook H1's event callback (sequence number drawn "
                "under the pool mutex) and validated record by record by the judge PoolMTAbs in TLC. Send/Sync: TLC explores every distribution of "
                "handles, borrows, clones, moves and drops over two threads under Rust's Send/Sync rules for every handle type x payload shape x "
                "payload class of a trait table measured by rustc, checking that a payload is shared only if Sync and crosses threads only if Send.",
        "note": "Bounded: 3 threads x 2 ops x <=2 objects exhaustively; ~6e4 sampled operations in thorough. Trusted: TLC, rustc's trait solver (probe), "
                "H1 callback placement, the `T: Send` bounds of the pools' insert signatures (read, not measured). Known S1 findings in known_findings.json.",
        "technique": "TLA+ explorer + judge checked by TLC; rustc-measured constants; linearized trace validation by TLC",
    },
    "C04": {
        "text": "TLC enumerates every callback program (guard discipline mutex/RefCell/&mut x object graph of <=2 (thorough 3) scripted objects x "
                "destructor bodies return/panic/len/insert x trigger drop / insert_with / with_iter x closure script x bystander x handle kind, nesting "
                "depth <=2) and interprets it with the code's step order and Rust's unwinding/abort rules; every program is replayed in its own child "
                "process under a structural watchdog on every pool type of its discipline (all nine), with scripted destructors and closures; every "
                "recorded event trace (outcomes returned/panicked/hung/aborted, len, iteration, capacity, drop-pool) is judged by PoolCallbacksAbs in "
                "TLC and compared event by event with the explorer's prediction.",
        "note": "Bounded: <=3 objects, depth 2, one slab (plus a full-slab placement in thorough). Explorer fidelity measured (drift 0). Trusted: TLC, the "
                "panic hook / write(2) event log, hang = child asleep in futex(2) with unchanged CPU time after >=10 s. Design-level re-entrance findings "
                "are known findings; 4 fixed.",
        "technique": "TLA+ explorer + judge checked by TLC; all TLC-generated programs replayed in child processes; trace validation by TLC",
    },
    "C15": {
        "text": "TLC checks an implementation-shaped explorer of future_deque_core.rs + waker_meta.rs (one action per scheduling point: deque operations, "
                "every shimmed atomic of the waker metadata, the parent mutex critical section, the parent wake) composed with the deterministic judge "
                "FutureDequeAbs (deque order; polled only if inserted or woken; a wake after Pending => the next deque poll polls that future and the "
                "latest parent waker was woken, also across a parent change; exactly-once drops; metadata freed exactly when the last reference goes and "
                "never touched afterwards) for every interleaving of the deque task and 2 remote threads, <=3 futures, plus termination under fairness; "
                "waker_meta.rs is additionally model-checked through RC11 with the memory orderings extracted from the instrumented crate's step logs; "
                "TLC-generated behaviours are replayed step by step on the real FutureDeque / LocalFutureDeque (drift measured) and seeded random/PCT "
                "schedules are recorded; every run is judged by the same judge in TLC and its step log is replayed through the trace-level RC11 detector.",
        "note": "Exhaustive bounds: <=3 futures x <=4-5 deque ops, <=2-3 polls per future, 2 remote threads x <=2 ops; larger instances by simulation and "
                "random stimuli. Weak memory is decided on the RC11 fragment, not observed. Handing a Waker to another thread is assumed to synchronise. "
                "Trusted: TLC, the tracer, the ordering-site classification in checks/c15.py, plurality's pool.",
        "technique": "TLA+ judge + explorer checked by TLC; TLC-simulated behaviours replayed as scripts under a deterministic scheduler; trace validation by "
                     "TLC; RC11 model with orderings measured from the code; trace-level RC11 replay",
    },
    "C07": {
        "text": "OnceEventLocal.tla models the single-threaded event as a call stack: one action per access to the event (state get/set/replace, cell "
                "reads/writes, release) in the order of core/local.rs, and at every waker clone / wake / drop the specification may push any "
                "legal operation of the other endpoint (re-entrancy) or return; TLC explores the whole tree of nestings (deadlock check on) and "
                "checks the API judge OnceEventAbs, exactly one release, no access after release, no uninitialised cell access, no unreachable "
                "arm. TLC-generated programs (top-level ops + ops inside the k-th callback invocation) are replayed on the real LocalEvent with a "
                "scripted waker vtable over boxed, embedded, pooled and lake storage; every access, callback and release is logged through the "
                "folo_verif hooks and judged by TLC (Trace_OnceEventAbs incl. access-after-release).",
        "note": "Bounds: MaxPolls 2 (thorough 3), 2 operations per callback invocation, nesting bounded by construction (each endpoint on the "
                "stack at most once). Trusted: TLC, hooks reporting every access, scripted vtable.",
        "technique": "TLA+ call-stack explorer checked by TLC; TLC-generated callback programs replayed on the real code; trace validation by TLC",
    },
    "C05": {
        "text": "OnceEventSync.tla transcribes core/sync.rs (set, sender drop, poll arms, is_set, into_value, final_poll) one action per atomic "
                "operation / fence / cell access, memory through an explicit RC11 release/acquire model (spec/lib/RC11.tla) whose "
                "per-site orderings are MEASURED from the instrumented code on every run; TLC checks the API judge OnceEventAbs as a "
                "monitor, no unreachable arm, no uninitialised cell access, spin-loop exit (liveness, SC) and race freedom for all "
                "interleavings and all RC11 outcomes of send|drop x (poll^k, is_ready, into_value, drop). Every explorer behaviour "
                "(edge cover) is replayed as a schedule on the real event through shim atomics and a deterministic scheduler; every "
                "recorded run is validated by TLC against the explorer (conformance, drift measured) and against the API judge.",
        "note": "Bounds: MaxPolls 2 (thorough 3), one is_ready; RC11 without load-buffering/OOTA; x86 executions are SC, weak outcomes only in "
                "the model. Trusted: TLC, the shim atomics (cfg folo_verif) forwarding to std atomics, the scheduler's total order.",
        "technique": "TLA+ explorer over an explicit RC11 memory model with orderings measured from the code, checked by TLC; schedule replay "
                     "of TLC behaviours on the real code; trace validation (conformance + API judge) by TLC",
    },
    "C06": {
        "text": "Same explorer: release of the storage is a non-atomic write to every cell incl. a liveness cell `blk` that every access reads, so "
                "NoRace under RC11 (measured orderings) is exactly 'every access by the other endpoint happens-before the release'; plus "
                "TraceRC11: every run recorded from the real code on all six storage strategies (boxed, embedded, pooled, raw-pooled, lake, "
                "raw-lake) and multi-task rental traffic with immediate re-rental is replayed by TLC through RC11 alone (happens-before "
                "race / use-after-release detection with the orderings actually passed), with exactly-once release, no double rent, no "
                "leak and pool/lake length 0 at quiescence; API judge checks release exactly once and not early.",
        "note": "release -> next allocation of the same storage is ordered by the allocator / pool lock (trusted base). Debug-profile build "
                "(backtrace mutex inside the event modelled as a lock). Bounds as C05; traffic 2..8 tasks.",
        "technique": "TLA+ RC11 model checked by TLC (explorer NoRace) + TLC trace validation of recorded runs through RC11 (vector-clock race detection)",
    },
    "C09": {
        "text": "TLC explores the five selection loops of take()/take_all() (every random pick nondeterministic) over every candidate "
                "map of 3 regions x 0..2 (thorough 0..3) candidates, every policy, n and quota, and checks each terminal state against "
                "the declarative judge ProcSelectAbs (whose closed forms TLC proves equal to brute-force subset enumeration); every "
                "enumerated stimulus is replayed several times on the real ProcessorSetBuilder over fake hardware with decoy "
                "processors that filters must exclude, plus seeded random topologies up to 64 processors / 8 regions; every recorded "
                "(topology, query, result) is judged by the same TLA+ judge in TLC.",
        "note": "Bounded exhaustive universe (3 regions, <=3 per region, n<=6); larger topologies sampled. Trusted: TLC, fake hardware "
                "of the crate (test-util), harness recording of ids.",
        "technique": "TLA+ explorer + declarative judge checked by TLC; TLC-enumerated stimuli replayed on the real builder; trace validation by TLC",
    },
    "C11": {
        "text": "TLC explores emit.rs step by step with checked W-bit arithmetic for every id set (W=3 quick, 4 thorough) and proves "
                "no-panic, round trip and canonical form; TLC enumerates every cpulist text of <=2 parts as parser stimuli; all "
                "stimuli are replayed on the real cpulist crate under low/mid/top-of-u32 embeddings and every recorded result is "
                "judged by CpuListAbs in TLC. Inventory: TLC enumerates machine descriptions with the expected inventory; replayed "
                "through the Linux platform over a fake filesystem (hook) and judged.",
        "note": "Bounded: W-bit universes, <=4 cpus / 2 nodes for exhaustive machine descriptions, random beyond. Trusted: TLC, "
                "the lexical tokenizer of the harness, the embedding of model ids into u32.",
        "technique": "TLA+ explorer + judge specs checked by TLC; TLC-generated stimuli replayed on the real code; trace validation by TLC",
    },
}
