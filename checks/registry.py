"""What MANIFEST.json claims. Edited by hand; bin/mkmanifest renders it."""

HOOK_COMMITS = []

NOTES = ("Every check is decided by TLA+ specifications under spec/ checked with TLC and bound to the code by replaying "
         "TLC-generated stimuli into the real crates and validating the recorded traces against the judge specification. "
         "known_findings.json lists genuine defects (known / fixed). See DESIGN.md.")

NOT_APPLICABLE = {}

CHECKS = {
    "C09": {
        "text": "TLC explores the five selection loops of take()/take_all() (every random pick nondeterministic) over every candidate "
                "map of 3 regions x 0..2 (thorough 0..3) candidates, every policy, n and quota, and checks each terminal state against "
                "the declarative judge ProcSelectAbs (whose closed forms TLC proves equal to brute-force subset enumeration); every "
                "enumerated stimulus is replayed several times on the real ProcessorSetBuilder over fake hardware with decoy "
                "processors that filters must exclude, plus seeded random topologies up to 64 processors / 8 regions; every recorded "
                "(topology, query, result) is judged by the same TLA+ judge in TLC.",
        "note": "Bounded exhaustive universe (3 regions, <=3 per region, n<=6); larger topologies sampled. Trusted: TLC, fake hardware "
                "of the crate (test-util), harness recording of ids.",
        "technique": "TLA+ explorer + declarative judge checked by TLC; TLC-enumerated stimuli replayed on the real builder; trace validation by TLC",
    },
    "C11": {
        "text": "TLC explores emit.rs step by step with checked W-bit arithmetic for every id set (W=3 quick, 4 thorough) and proves "
                "no-panic, round trip and canonical form; TLC enumerates every cpulist text of <=2 parts as parser stimuli; all "
                "stimuli are replayed on the real cpulist crate under low/mid/top-of-u32 embeddings and every recorded result is "
                "judged by CpuListAbs in TLC. Inventory: TLC enumerates machine descriptions with the expected inventory; replayed "
                "through the Linux platform over a fake filesystem (hook) and judged.",
        "note": "Bounded: W-bit universes, <=4 cpus / 2 nodes for exhaustive machine descriptions, random beyond. Trusted: TLC, "
                "the lexical tokenizer of the harness, the embedding of model ids into u32.",
        "technique": "TLA+ explorer + judge specs checked by TLC; TLC-generated stimuli replayed on the real code; trace validation by TLC",
    },
}
