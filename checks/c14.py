"""C14 — every spawned task runs once on its processor, and every join handle resolves.

  spec/vicinal/VicinalAbs.tla   judge (API level): run at most once, on the spawner's processor, outcome = value /
                                panic / abandoned-only-if-never-ran-and-drop-started, quiescence = every handle resolved,
                                drop returned, no worker thread left
  spec/vicinal/Vicinal.tla      explorer: one action per scheduling point of hook H7; event-listener semantics; switches
                                read from the source (FixEnqueue, FixDrain, FixSignal, ListenFirst)
  spec/vicinal/MC_Vicinal.tla   bounds;  Gen_Vicinal.tla  generators (named situations breadth-first, -simulate walks)
  spec/vicinal/Trace_Vicinal    the judge applied to what h_vicinal recorded from the real pool
  harness/h_vicinal             vrt::sched-driven runs (scripts from TLC, seeded random/PCT; fake hardware and the real
                                CPUs) with structural deadlock detection; free-running seeded drivers in a child process
                                with a watchdog
"""
import concurrent.futures as cf
import copy, json, os, re, subprocess
import vlib
from vlib import SPEC, REPO, workdir, tlc, tlc_prints, validate_trace, write_ndjson, read_ndjson

PID = "C14"
D = os.path.join(SPEC, "vicinal")

# name -> (constants, spawners-for-the-harness)
BOUNDS = {
    # liveness bound: one processor, spawner 1 x 2 tasks, one late scheduler
    "S": dict(c="Tasks <- TasksS  Procs <- ProcsOne  WorkerIds <- WOneOne  PanicTasks <- PanicS  WPP = 1  Spawners <- SpTwo  "
                "SProc <- SProcS  STasks <- STasksS  Late <- LateS  UrgentTasks <- UrgentS  Gate <- GateNone",
              np=1, wpp=1, spawners=[(1, [1, 2], False), (1, [3], True)], urgent=[2], panics=[1]),
    # quick bound: 2 processors x 1 worker, spawners with 2 and 1 tasks on different processors, one late scheduler
    "Q": dict(c="Tasks <- TasksQ  Procs <- ProcsTwo  WorkerIds <- WTwo  PanicTasks <- PanicQ  WPP = 1  Spawners <- SpThree  "
                "SProc <- SProcFull  STasks <- STasksQ  Late <- LateThree  UrgentTasks <- UrgentQ  Gate <- GateNone",
              np=2, wpp=1, spawners=[(1, [1, 2], False), (2, [3], False), (1, [4], True)], urgent=[2], panics=[3]),
    # same, both early spawners on one processor (contention on one processor state)
    "Qs": dict(c="Tasks <- TasksQ  Procs <- ProcsTwo  WorkerIds <- WTwo  PanicTasks <- PanicQ  WPP = 1  Spawners <- SpThree  "
                 "SProc <- SProcSame  STasks <- STasksQ  Late <- LateThree  UrgentTasks <- UrgentQ  Gate <- GateNone",
               np=2, wpp=1, spawners=[(1, [1, 2], False), (1, [3], False), (2, [4], True)], urgent=[2], panics=[3]),
    # one processor with two workers (notification handed over between listeners)
    "W2": dict(c="Tasks <- TasksQ  Procs <- ProcsOne  WorkerIds <- WOneTwo  PanicTasks <- PanicQ  WPP = 2  Spawners <- SpThree  "
                 "SProc <- SProcOne  STasks <- STasksQ  Late <- LateThree  UrgentTasks <- UrgentQ  Gate <- GateNone",
               np=1, wpp=2, spawners=[(1, [1, 2], False), (1, [3], False), (1, [4], True)], urgent=[2], panics=[3]),
    # the design's bound: 2 processors x 1 worker, 2 spawners x 2 tasks, one late scheduler
    "F": dict(c="Tasks <- TasksFull  Procs <- ProcsTwo  WorkerIds <- WTwo  PanicTasks <- PanicFull  WPP = 1  Spawners <- SpThree  "
                "SProc <- SProcFull  STasks <- STasksFull  Late <- LateThree  UrgentTasks <- UrgentFull  Gate <- GateNone",
              np=2, wpp=1, spawners=[(1, [1, 2], False), (2, [3, 4], False), (1, [5], True)], urgent=[2, 3], panics=[4]),
    # one processor x TWO workers, one spawner x 2 tasks, the body of task 1 returns only after task 2 has run: both tasks
    # need a worker at the same time (the second spawn must wake the second sleeping worker)
    "G": dict(c="Tasks <- TasksG  Procs <- ProcsOne  WorkerIds <- WOneTwo  PanicTasks <- None  WPP = 2  Spawners <- SpOne  "
                "SProc <- SProcG  STasks <- STasksG  Late <- None  UrgentTasks <- None  Gate <- GateG",
              np=1, wpp=2, spawners=[(1, [1, 2], False)], urgent=[], panics=[], gates={"1": 2}),
}
SAFETY_INV = "TypeOK ChannelOk NoRunAfterResolve NoLostWakeup NoIdleLost NoLostShutdown RunsAtMostOnce RunsOnSpawnersProcessor"
LIVENESS = "Resolves SpawnReturns DropTerminates WorkersGone"


def tla_bool(b):
    return "TRUE" if b else "FALSE"


def _repo():
    """/repo, or the private copy next to a scratch copy of /verif (bin/scratch)."""
    cand = os.path.join(os.path.dirname(vlib.ROOT), "repo")
    return cand if os.path.isdir(os.path.join(cand, "packages")) else REPO


def code_switches(repo=None):
    """The explorer mirrors the tree it is checked against: read the code-dependent switches from the source.
    A switch whose code pattern cannot be located any more (the function was restructured) is taken as TRUE (the
    behaviour of the repaired tree) and listed under "unreadable": the explorer then describes the repaired design, and
    what the restructured code really does is still judged on the recorded traces."""
    repo = repo or _repo()
    sch = open(os.path.join(repo, "packages/vicinal/src/scheduler.rs")).read()
    pool = open(os.path.join(repo, "packages/vicinal/src/pool.rs")).read()
    out, unreadable = {}, []

    def read(name, f):
        try:
            out[name] = bool(f())
        except Exception:      # noqa: BLE001 - pattern not found
            out[name] = True
            unreadable.append(name)

    def fix_enqueue():
        # the pool-wide shutdown flag is read between taking a queue lock and push_back
        found = False
        for m in re.finditer(r"push_back\(", sch):
            before = sch[max(0, m.start() - 1200):m.start()]
            i = before.rfind(".lock()")
            if i >= 0 and "shutdown.load" in before[i:]:
                found = True
        if not re.search(r"push_back\(", sch):
            raise ValueError("no push_back")
        return found

    def fix_drain():
        ja = pool[pool.index("fn join_all_workers"):pool.index("fn worker_loop")]
        jbody = ja[ja.index("for handle in handles"):]
        return re.search(r"abandon_queued_tasks|drain|mem::take", jbody)

    def fix_signal():
        ens = pool[pool.index("fn ensure_workers_spawned"):pool.index("fn join_all_workers")]
        arm = ens[ens.index("if self.shutdown.load(Ordering::Acquire)"):]
        arm = arm[:arm.index("return;")]
        return "signal_shutdown" in arm and arm.index("signal_shutdown") < arm.index(".join()")

    def listen_first():
        wl = pool[pool.index("fn worker_loop"):]
        wl = wl[wl.index("IterationResult::WaitingForWork"):]
        li, ri = wl.find("listener!("), wl.find(".is_empty()")
        if li < 0 or ri < 0:
            raise ValueError("listener / re-check not found")
        return 0 <= li < ri

    def notify_additional():
        # every wake-up sent by spawn_internal is additive (an un-consumed earlier notification does not absorb it)
        sp = sch[sch.index("fn spawn_internal"):]
        wakes = re.findall(r"wake_event\s*\.\s*(notify\w*)\s*\(", sp)
        if not wakes:
            raise ValueError("no wake-up in spawn_internal")
        return all(w.startswith("notify_additional") for w in wakes)

    read("FixEnqueue", fix_enqueue)
    read("FixDrain", fix_drain)
    read("FixSignal", fix_signal)
    read("ListenFirst", listen_first)
    read("NotifyAdditional", notify_additional)
    if unreadable:
        out["unreadable"] = unreadable
    return out


def sw_consts(sw, labels=False, with_drop=True):
    return "WithDrop = %s  FixEnqueue = %s  FixDrain = %s  FixSignal = %s  ListenFirst = %s  NotifyAdditional = %s  Labels = %s" % (
        tla_bool(with_drop), tla_bool(sw["FixEnqueue"]), tla_bool(sw["FixDrain"]), tla_bool(sw["FixSignal"]),
        tla_bool(sw["ListenFirst"]), tla_bool(sw["NotifyAdditional"]), tla_bool(labels))


def explorer_cfg(path, bound, sw, live, with_drop=True):
    open(path, "w").write("CONSTANTS %s\n  %s\nSPECIFICATION %s\nINVARIANT %s\nPROPERTY JudgeAccepts %s\nCHECK_DEADLOCK FALSE\n" % (
        BOUNDS[bound]["c"], sw_consts(sw, False, with_drop), "FairSpec" if live else "Spec", SAFETY_INV, LIVENESS if live else ""))


def gen_cfg(path, bound, sw, kind):
    # bounds with gated task bodies never drop the pool before quiescence (a body waiting for an abandoned task would hang by itself)
    body = "CONSTANTS %s\n  %s\nINIT GenInit\nNEXT GenNext\nVIEW GenView\nCHECK_DEADLOCK FALSE\n" % (
        BOUNDS[bound]["c"], sw_consts(sw, True, with_drop=not BOUNDS[bound].get("gates")))
    body += "INVARIANT WitnessAll\nCONSTRAINT DepthBound\n" if kind == "witness" else "INVARIANT PrintTerminal\n"
    open(path, "w").write(body)


def stimulus(sid, bound, script, hw="fake", strategy="script", seed=1, early=None, procmap=None):
    b = BOUNDS[bound]
    st = {"id": sid, "hw": hw, "np": b["np"], "wpp": b["wpp"], "urgent": b["urgent"], "panics": b["panics"],
          "spawners": [{"proc": p, "tasks": ts, "late": late} for (p, ts, late) in b["spawners"]],
          "script": script, "strategy": strategy, "seed": seed}
    if early is not None:
        st["early_drop"] = early
    if b.get("gates"):
        st["gates"] = b["gates"]
        st["early_drop"] = False
    if procmap:
        st["procmap"] = procmap
    return st


def hang_shape(rec):
    kinds = set()
    for b in rec.get("blocked", []):
        m = re.search(r'Blocked\("([^"]+)"\)', b)
        if b.startswith("s") and m:
            kinds.add("spawner@" + m.group(1))
        elif b.startswith("d:") and m:
            kinds.add("drop@" + m.group(1))
        elif b.startswith("w") and m:
            kinds.add("worker@" + m.group(1))
        else:
            kinds.add(b.split(":")[0] if ":" in b else b)
    kinds.discard("spawner@hold-scheduler")
    kinds.discard("spawner@late")
    kinds.discard("drop@quiet")
    return "+".join(sorted(kinds)) or "unknown"


def classify(rj):
    rec = rj.get("rec", {})
    sc = rj.get("scenario", {})
    ev = rec.get("ev")
    mode = sc.get("mode", "?")
    if ev == "hung":
        return "hung:%s:%s" % (mode, hang_shape(rec))
    if ev == "run":
        return "run:%s:%s" % (mode, "observed-cpu-differs-from-pinned" if rec.get("pinned") != rec.get("c") else "twice-or-on-wrong-processor-or-dead-worker")
    if ev == "resolved":
        return "resolved:%s:%s-not-allowed" % (mode, rec.get("o"))
    if ev == "quiesce":
        return "quiesce:%s:unresolved-handle-or-worker-left" % mode
    return "%s:%s" % (ev, mode)


def trace_bounds(recs):
    mt = max([r.get("t", 0) for r in recs] + [0])
    mp = max([r.get("p", 0) for r in recs if r.get("ev") in ("call", "wstart")] + [r.get("c", 0) for r in recs if r.get("ev") == "run"] + [0])
    mw = max([r.get("w", 0) for r in recs] + [0])
    return {"MAXT": str(mt), "MAXP": str(mp), "MAXW": str(mw)}


def judge_file(path):
    recs = read_ndjson(path)
    # (a cfg name per trace file: vlib derives TLC's metadir from the cfg name, and validations may run concurrently)
    cfg = os.path.join(os.path.dirname(path), "Trace_Vicinal_%s.cfg" % os.path.basename(path).replace(".", "_"))
    open(cfg, "w").write(open(os.path.join(D, "Trace_Vicinal.cfg")).read())
    ok, rejects, tr = validate_trace(D, "Trace_Vicinal", path, cfg=cfg, timeout=1500, env=trace_bounds(recs))
    return recs, ok, rejects, tr


def judge(run, path, name, stim_by_id=None, pre=None):
    recs, ok, rejects, tr = pre if pre else judge_file(path)
    run.add_tlc("Trace_Vicinal " + name, tr, count_states=False)
    nsc = sum(1 for r in recs if r.get("ev") == "scenario")
    run.cov["traces_validated_against_impl"] += nsc
    run.cov["evaluations"] += len(recs)
    for rj in rejects:
        if "rec" not in rj:
            run.violation("vicinal:judge", "trace rejected: " + json.dumps(rj)[:400], {"reject": rj})
            continue
        sc = rj.get("scenario", {})
        stim = (stim_by_id or {}).get(sc.get("id"))
        run.violation("vicinal:" + classify(rj), "VicinalAbs rejects %s in scenario %s" % (json.dumps(rj["rec"])[:300], json.dumps(sc)[:300]),
                      {"stimulus": stim, "scenario": sc, "first_rejected": rj["rec"], "line": rj.get("line"), "trace": name})
    return recs, rejects


def run_free(wd, seed, total, max_spawners):
    """Free-running scenarios in a child process; a hung scenario ends the child (status 3) and the next child continues after it."""
    out_all = os.path.join(wd, "free.ndjson")
    first, part, hung = 0, 0, []
    with open(out_all, "w") as fa:
        while first < total:
            part += 1
            out = os.path.join(wd, "free_%d.ndjson" % part)
            p = vlib.run_bin("h_vicinal", ["free", out, seed, first, total - first, max_spawners], timeout=600, check=False)
            if os.path.exists(out):
                fa.write(open(out).read())
            last = p.stdout.strip().splitlines()[-1] if p.stdout.strip() else "{}"
            if p.returncode == 0:
                break
            if p.returncode == 3:
                at = json.loads(last).get("hung_at", first)
                hung.append(at)
                first = at + 1
                if len(hung) >= 3:
                    break
                continue
            raise vlib.ToolError("h_vicinal free failed rc=%s\n%s\n%s" % (p.returncode, p.stdout[-1000:], p.stderr[-3000:]))
    return out_all, hung


def real_procmap(np_):
    cpus = sorted(os.sched_getaffinity(0))
    if len(cpus) < 2:
        return None
    # spread over the machine, keep away from cpu 0
    pick = [cpus[(len(cpus) * (i + 1)) // (np_ + 1)] for i in range(np_)]
    return pick if len(set(pick)) == np_ else None


def generate(run, wd, sw, thorough):
    """Stimuli from the explorer: named situations (breadth-first witnesses) and complete random walks (-simulate)."""
    stimuli = []
    witness_bounds = ["Qs", "W2", "G"] + (["Q"] if thorough else [])
    sim_bounds = [("Q", 60), ("W2", 40), ("G", 30)] if not thorough else [("Q", 400), ("Qs", 300), ("W2", 300), ("F", 400), ("G", 200)]

    def wit(b):
        p = os.path.join(wd, "gen_w_%s.cfg" % b)
        gen_cfg(p, b, sw, "witness")
        return b, tlc(D, "Gen_Vicinal", cfg=p, workers=3, timeout=600, xmx="3g", env={"GENDEPTH": "26"})

    def sim(bn):
        b, n = bn
        p = os.path.join(wd, "gen_s_%s.cfg" % b)
        gen_cfg(p, b, sw, "sim")
        return b, tlc(D, "Gen_Vicinal", cfg=p, workers=2, timeout=600, xmx="2g", simulate=n, depth=400, seed=run.seed % 100000,
                      env={"GENDEPTH": "400"})

    situations = {}
    with cf.ThreadPoolExecutor(max_workers=4) as ex:
        futs = [ex.submit(wit, b) for b in witness_bounds] + [ex.submit(sim, bn) for bn in sim_bounds]
        for f in futs:
            b, r = f.result()
            if r.error:
                raise vlib.ToolError("generator %s: %s\n%s" % (b, r.error, r.out[-1500:]))
            for line in r.out.splitlines():
                if line.startswith('<<"WITNESS", "'):
                    m = re.match(r'<<"WITNESS", "(\w+)", "(.*)">>$', line)
                    if m:
                        script = json.loads(m.group(2).replace('\\"', '"'))
                        situations.setdefault((b, m.group(1)), [])
                        if script not in situations[(b, m.group(1))]:
                            situations[(b, m.group(1))].append(script)
            n0 = len(stimuli)
            for i, s in enumerate(tlc_prints(r.out, "BEHAVIOUR")):
                stimuli.append(stimulus("sim-%s-%d" % (b, i), b, json.loads(s)))
            run.add_tlc("Gen_Vicinal %s (%d behaviours)" % (b, len(stimuli) - n0), r, count_states=False)
    names = sorted({k[1] for k in situations})
    for (b, name), scripts in sorted(situations.items()):
        for i, sc in enumerate(scripts[:3 if thorough else 2]):
            stimuli.append(stimulus("wit-%s-%s-%d" % (b, name, i), b, sc))
    return stimuli, names


def check(run):
    vlib.cargo_build(["h_vicinal"])
    wd = workdir(PID, clean=True)
    thorough = run.tier == "thorough"
    sw = code_switches()
    run.cov["code_switches"] = sw
    fixed = sw["FixEnqueue"] and sw["FixDrain"] and sw["FixSignal"] and sw["ListenFirst"] and sw["NotifyAdditional"]

    # ---- explorer against the judge: safety on the larger bounds, safety + liveness under weak fairness on the smaller
    jobs = [("S", True, True), ("S", True, False), ("Q", False, True), ("G", True, False)]
    if thorough:
        jobs += [("Qs", False, True), ("W2", False, True), ("Q", True, True), ("W2", True, False), ("F", False, True)]

    def one(job):
        b, live, wdrop = job
        p = os.path.join(wd, "mc_%s_%s_%s.cfg" % (b, "live" if live else "safe", "drop" if wdrop else "nodrop"))
        explorer_cfg(p, b, sw, live, wdrop)
        big = b in ("F",) or (live and b != "S")
        r = tlc(D, "MC_Vicinal", cfg=p, workers=8 if big else 6, timeout=3000 if thorough else 600,
                xmx="10g" if big else "4g", coverage=thorough and b == "S" and live and wdrop)
        m = re.search(r"Temporal properties (.*) were violated", r.out)
        if r.error and m:      # several liveness properties violated at once: a verdict, not a tool failure
            r.error, r.violation = None, "temporal " + m.group(1)
            i = r.out.find("Error:")
            r.cex = r.out[i:i + 20000]
        return job, r

    model_cex = []
    with cf.ThreadPoolExecutor(max_workers=2 if thorough else 3) as ex:
        futs = [ex.submit(one, j) for j in jobs]
        gen_future = ex.submit(generate, run, wd, sw, thorough)
        for f in futs:
            (b, live, wdrop), r = f.result()
            run.add_tlc("Vicinal explorer bound=%s %s%s %s" % (b, "safety+liveness" if live else "safety", "" if wdrop else " (pool never dropped)",
                                                               json.dumps(sw)), r)
            if r.error:
                raise vlib.ToolError("explorer %s: %s" % (b, r.error))
            if r.violation:
                model_cex.append(((b, live, wdrop), r.violation, r.cex[:8000]))
        stimuli, situations = gen_future.result()
    run.cov["situations_witnessed"] = situations

    # ---- stimuli: TLC behaviours on fake hardware, the witnesses also on the real CPUs; seeded random / PCT schedules
    rm2 = real_procmap(2)
    rm1 = real_procmap(1)
    extra = []
    for st in stimuli:
        if st["id"].startswith("wit-") and st["np"] == 2 and rm2:
            e = copy.deepcopy(st)
            e.update(id=st["id"] + "-real", hw="real", procmap=rm2)
            extra.append(e)
        if st["id"].startswith("wit-") and st["np"] == 1 and rm1:
            e = copy.deepcopy(st)
            e.update(id=st["id"] + "-real", hw="real", procmap=rm1)
            extra.append(e)
    stimuli += extra
    nrand = 600 if thorough else 80
    for i in range(nrand):
        b = ["Q", "Qs", "W2", "F", "G"][i % 5]
        real = (i % 5 == 0) and (rm2 if BOUNDS[b]["np"] == 2 else rm1)
        stimuli.append(stimulus("rnd-%s-%d" % (b, i), b, [], hw="real" if real else "fake", strategy="pct" if i % 3 == 0 else "random",
                                seed=run.seed * 1000 + i, early=(i % 2 == 0), procmap=(rm2 if BOUNDS[b]["np"] == 2 else rm1) if real else None))
    write_ndjson(os.path.join(wd, "stimuli.ndjson"), stimuli)
    stim_by_id = {s["id"]: s for s in stimuli}
    trace = os.path.join(wd, "sched.ndjson")
    stats_p = os.path.join(wd, "sched_stats.json")
    vlib.run_bin("h_vicinal", ["sched", os.path.join(wd, "stimuli.ndjson"), trace, stats_p], timeout=2400 if thorough else 900)
    stats = json.load(open(stats_p))
    run.cov["sched"] = {k: stats[k] for k in ("scenarios", "scripted", "steps", "drift", "hook_events")}
    run.cov["sched"]["drifted"] = stats["drifted"][:10]
    run.cov["sched"]["hung"] = stats["hung"][:10]
    run.cov["hook_points_hit"] = stats["points"]

    # ---- free-running drivers on the real CPUs (child process + watchdog)
    free_trace, free_hung = run_free(wd, run.seed, 300 if thorough else 40, 24 if thorough else 12)
    run.cov["free"] = {"scenarios": 300 if thorough else 40, "hung_at": free_hung}

    with cf.ThreadPoolExecutor(max_workers=2) as ex:
        f1 = ex.submit(judge_file, trace)
        f2 = ex.submit(judge_file, free_trace)
        pre1, pre2 = f1.result(), f2.result()
    recs, rejects = judge(run, trace, "sched", stim_by_id, pre1)
    frecs, frejects = judge(run, free_trace, "free", None, pre2)
    for r in recs:
        if r.get("ev") == "scenario" and r.get("strategy") == "script":
            run.sample(r)
            break
    for r in frecs:
        if r.get("ev") == "scenario":
            run.sample(r)
            break
    if model_cex and not run.violations and not run.known_hits:
        if fixed and not sw.get("unreadable"):
            raise vlib.ToolError("explorer reports %s on %s but the real code does not reproduce it (model drift)\n%s"
                                 % (model_cex[0][1], model_cex[0][0], model_cex[0][2][:3000]))
        # switches read as "not repaired" (or unreadable) from a source the reader does not fully understand, and the real
        # code does not show the model's counterexample: the exhaustive claim is withdrawn, no alarm is raised
        run.cov["explorer_counterexample_not_reproduced_by_the_code"] = {"switches": sw, "violation": model_cex[0][1]}
        run.cov["exhaustive_withdrawn"] = True
    for c, v, cex in model_cex[:2]:
        run.cov.setdefault("model_counterexamples", []).append({"bound": c, "violation": v})
    run.cov["distinct_nontrivial"] = len(stimuli) + run.cov["free"]["scenarios"]
    run.cov["rule"] = ("TLC checks Vicinal (switches %s) against VicinalAbs: invariants + step refinement on bounds %s, liveness under weak "
                       "fairness of every thread (Resolves, SpawnReturns, DropTerminates, WorkersGone) on the bounds marked so; generators: "
                       "breadth-first witnesses of %d named situations and -simulate walks, replayed step by step on the real pool "
                       "(vrt::sched, fake hardware + real CPUs), plus %d seeded random/PCT schedules and %d free-running scenarios; distinct = "
                       "stimuli + free scenarios" % (json.dumps(sw), [j[0] for j in jobs], len(situations), nrand, run.cov["free"]["scenarios"]))
    run.cov["exhaustive"] = stats["drift"] == 0 and not run.cov.get("exhaustive_withdrawn", False)
    run.assume("sequentially consistent interleavings of the hook points (no weak-memory outcomes); SeqCst fences in the fix are not modelled")
    run.assume("event-listener 5.4 notify/listen/drop semantics as modelled in Vicinal.tla (which registered listener is notified is left open)")
    run.assume("schedulers are held until the end of every scenario (worst case for 'awaiting any join handle terminates')")
    run.assume("nested spawns from inside task bodies are not explored")
    if not fixed:
        run.assume("the tree does not contain all three repairs (%s): the explorer mirrors it" % json.dumps(sw))


def selftest():
    """Corrupted-trace tests: one field changed, one event deleted, two events swapped, a hang injected."""
    vlib.cargo_build(["h_vicinal"])
    wd = workdir(PID, "selftest", clean=True)
    st = stimulus("self", "Q", [], strategy="random", seed=5, early=False)
    write_ndjson(os.path.join(wd, "st.ndjson"), [st])
    good = os.path.join(wd, "good.ndjson")
    vlib.run_bin("h_vicinal", ["sched", os.path.join(wd, "st.ndjson"), good, os.path.join(wd, "stats.json")], timeout=120)
    recs = read_ndjson(good)
    _, ok, rej, _ = judge_file(good)
    results = {"good_accepted": ok and not rej}

    def variant(name, f):
        r2 = f(copy.deepcopy(recs))
        p = os.path.join(wd, name + ".ndjson")
        write_ndjson(p, r2)
        _, ok2, rej2, _ = judge_file(p)
        results[name + "_rejected"] = (not ok2) and len(rej2) > 0
        results[name + "_at"] = rej2[0].get("rec", rej2[0]) if rej2 else None

    def field(rs):      # the body observed another processor than the spawner's
        r = next(r for r in rs if r.get("ev") == "run")
        r["c"] = r["c"] + 1
        r["pinned"] = r["c"]
        return rs

    def delete(rs):     # a run record is missing: the value outcome is then unexplained
        i = next(i for i, r in enumerate(rs) if r.get("ev") == "run" and not any(x.get("ev") == "call" and x["t"] == r["t"] and x["x"] for x in rs))
        del rs[i]
        return rs

    def swap(rs):       # a task body runs after its worker thread exited
        ir = max(i for i, r in enumerate(rs) if r.get("ev") == "run")
        w = rs[ir]["w"]
        ie = next(i for i, r in enumerate(rs) if r.get("ev") == "wexit" and r["w"] == w)
        x = rs.pop(ir)
        rs.insert(ie, x)      # ie > ir: the run record now sits right after the exit record
        return rs

    def twice(rs):      # the same body runs twice
        i = next(i for i, r in enumerate(rs) if r.get("ev") == "run")
        rs.insert(i + 1, copy.deepcopy(rs[i]))
        return rs

    def hang(rs):       # quiescence never reached
        i = next(i for i, r in enumerate(rs) if r.get("ev") == "quiesce")
        rs[i] = {"ev": "hung", "blocked": ['s1:Blocked("await")']}
        return rs

    def unresolved(rs):  # a handle was never awaited to completion
        i = next(i for i, r in enumerate(rs) if r.get("ev") == "resolved")
        del rs[i]
        return rs

    for name, f in (("field_changed", field), ("event_deleted", delete), ("events_swapped", swap), ("ran_twice", twice),
                    ("hang_injected", hang), ("handle_unresolved", unresolved)):
        variant(name, f)
    print(json.dumps(results, indent=1))
    good_ok = results["good_accepted"] and all(v for k, v in results.items() if k.endswith("_rejected"))
    print("SELFTEST C14:", "ok" if good_ok else "FAILED")
    return 0 if good_ok else 1


def replay(path):
    rep = json.load(open(path))
    st = rep["replay"].get("stimulus")
    print("expected key", rep.get("key"))
    vlib.cargo_build(["h_vicinal"])
    wd = workdir(PID, "replay_run", clean=True)
    out = os.path.join(wd, "trace.ndjson")
    if st:
        write_ndjson(os.path.join(wd, "st.ndjson"), [st])
        vlib.run_bin("h_vicinal", ["sched", os.path.join(wd, "st.ndjson"), out, os.path.join(wd, "stats.json")], timeout=300)
    else:
        sc = rep["replay"].get("scenario", {})
        idx = int(str(sc.get("id", "free-0")).split("-")[-1])
        vlib.run_bin("h_vicinal", ["free", out, sc.get("seed", 1), idx, 1, 12], timeout=300, check=False)
    _, ok, rejects, _ = judge_file(out)
    for rj in rejects[:5]:
        print("REJECTED:", json.dumps(rj)[:600])
    print("reproduced" if rejects else "not reproduced (trace accepted)")
    return 1 if rejects else 0
