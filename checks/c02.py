"""C02 - every pooled object is destroyed exactly once and pool accounting matches.

  Handles.tla (judge + handle layer: unique / shared / raw x typed / erased / dyn, remover count, extraction, drop policy)
  is model-checked for all handle / drop histories within its bounds; the capacity contract and the accounting invariants
  (length = sum of counts = live objects, no vacancy forgotten) are checked on the explorer SlabPool.tla.
  The same recordings as C01 (edge-cover replay of SlabPool and Handles on the nine pool types, seeded random histories,
  64-bit block boundary, layout sweep) are judged by Trace_Handles: destructor log of the drop-counting payload, panics,
  len / is_empty / capacity, forward / backward / double-ended iteration, accounting part of the probed bookkeeping.
  See checks/pool_common.py.
"""
import json, os
import vlib
from vlib import tlc, workdir, log
import pool_common as pc
import c01

PID = "C02"


def explorer_jobs(run, wd):
    thorough = run.tier == "thorough"
    jobs = pc.Jobs()
    if thorough:
        for fam in ("Fams_TRUE_FALSE", "Fams_FALSE_FALSE", "Fams_FALSE_TRUE"):
            jobs.add("Handles MaxObjs=3 MaxHandles=3 %s" % fam,
                     lambda f=fam: tlc(pc.D, "MC_Handles", cfg=pc.handles_cfg(os.path.join(wd, "h_%s.cfg" % f), 3, 3, fams=f),
                                       workers=6, timeout=2400, xmx="10g", env=pc.JOPT))
        jobs.add("Handles MaxObjs=4 MaxHandles=2 all families",
                 lambda: tlc(pc.D, "MC_Handles", cfg=pc.handles_cfg(os.path.join(wd, "h4.cfg"), 4, 2), workers=6, timeout=2400,
                             xmx="10g", env=pc.JOPT))
        slab = [("y1", 2, 2, 5, 4, "OneKey"), ("y2", 3, 2, 3, 4, "OneKey"), ("y3", 2, 2, 2, 3, "TwoKeys")]
    else:
        jobs.add("Handles MaxObjs=2 MaxHandles=3 all families",
                 lambda: tlc(pc.D, "MC_Handles", cfg=pc.handles_cfg(os.path.join(wd, "h2.cfg"), 2, 3), workers=4, timeout=900,
                             xmx="6g", env=pc.JOPT, coverage=False))
        slab = [("y1", 2, 2, 4, 4, "OneKey"), ("y2", 3, 2, 2, 4, "OneKey"), ("y3", 2, 2, 2, 2, "TwoKeys")]
    inv = "TypeOK CountsOK LengthOK BitmapShapeOK VacancyComplete CapacityOK LengthIsLive"
    for (name, cap, block, slabs, reserve, keys) in slab:
        jobs.add("SlabPool accounting Cap=%d Block=%d MaxSlabs=%d MaxReserve=%d %s [CapacityContract]" % (cap, block, slabs, reserve, keys),
                 lambda n=name, c=cap, b=block, s=slabs, rv=reserve, k=keys: tlc(
                     pc.D, "MC_SlabPool", cfg=pc.slab_cfg(os.path.join(wd, n + ".cfg"), c, b, s, rv, keys=k, props="CapacityContract",
                                                          invariants=inv),
                     workers=4, timeout=2400 if thorough else 900, xmx="8g", env=pc.JOPT))
    return jobs


def check(run):
    wd = workdir(PID, clean=True)
    vlib.cargo_build(["h_pool"])
    jobs = explorer_jobs(run, wd)
    bundle = pc.produce(run)
    model_cex = []
    for name, r in jobs.join():
        pc.must_hold(run, name, r)
        if r.violation:
            model_cex.append((name, r))
    nrec = 0
    for name, path in bundle.traces:
        nrec += pc.judge(run, "Trace_Handles", name, path, "pool")
    if model_cex and not run.violations and not run.known_hits:
        name, r = model_cex[0]
        raise vlib.ToolError("specification run %s reports %s but the real pools do not reproduce it (modelling error)\n%s"
                             % (name, r.violation, r.cex[:3000]))
    recs = vlib.read_ndjson(bundle.traces[0][1]) + vlib.read_ndjson(bundle.traces[1][1])
    ops = {}
    drops = panics = 0
    for r in recs:
        if r.get("ev") == "op":
            ops[r["op"]] = ops.get(r["op"], 0) + 1
            drops += len(r.get("dr", []))
            panics += r.get("res") == "panic"
    run.cov["distinct_nontrivial"] = bundle.edges_total
    run.cov["generators"] = bundle.gen_stats
    run.cov["stimuli"] = len(bundle.stims)
    run.cov["operations_by_kind"] = ops
    run.cov["destructor_runs_observed"] = drops
    run.cov["panics_observed"] = int(panics)
    run.cov["exhaustive"] = not model_cex
    for need in ("take", "drop_pool", "clone", "cast", "erase", "share", "reserve", "shrink", "remove", "drop"):
        if not ops.get(need):
            run.cov["uncovered_actions"].append("replay: operation %s never recorded" % need)
    run.cov["rule"] = ("distinct = transitions (or states, see generators.cover) of the SlabPool and Handles graphs covered by replayed walks; every "
                       "recorded operation (replay + seeded random histories on all nine pool types, both drop policies on raw pools) is judged "
                       "by Trace_Handles against the destructor log, outcome, len/is_empty/capacity, iteration and the probed accounting")
    for r in recs:
        if r.get("ev") == "op" and r.get("op") == "drop" and r.get("dr"):
            run.sample({k: r[k] for k in ("op", "o", "h", "last", "dr", "len", "caps", "fwd", "bwd") if k in r})
            break
    for r in recs:
        if r.get("ev") == "op" and r.get("op") == "drop_pool" and r.get("res") == "panic":
            run.sample({k: r[k] for k in ("op", "res", "msg", "dr") if k in r})
            break
    run.assume("destructor runs are attributed to objects by address (the payload logs the address of `self`); extracted values are forgotten by the harness")
    run.assume("no panicking destructors in C01/C02 stimuli (C04's subject); panicking insert_with closures are included")
    run.assume("TLC bounds for Handles: see tlc_runs (<= 4 objects x 2 handles, <= 3 objects x 3 handles per object); larger histories by replay/random only")
    log("C02: %d records judged, %d stimuli, %d destructor runs, %d panics observed" % (nrec, len(bundle.stims), drops, panics))


def replay(path):
    return c01.replay(path)


def selftest():
    wd = workdir(PID, "selftest", clean=True)
    vlib.cargo_build(["h_pool"])
    sp = os.path.join(wd, "stim.ndjson")
    stims = [
        {"id": "self-own", "pt": "OpaquePool", "lay": "s8a8", "cap": 2, "policy": "may", "deco": 0,
         "ops": [["insert", 0], ["insert", 0], ["insert", 0], ["share", 1], ["clone", 1], ["drop", 1], ["reserve", 0, 3],
                 ["drop", 4], ["take", 2], ["shrink"], ["insert", 0], ["drop_pool"], ["drop", 3]]},
        {"id": "self-must", "pt": "RawPinnedPool", "lay": "s8a8", "cap": 2, "policy": "must", "deco": 0,
         "ops": [["insert", 0], ["insert", 0], ["insert", 0], ["remove", 1], ["insert", 0], ["drop_pool"]]},
    ]
    vlib.write_ndjson(sp, stims)
    tp = os.path.join(wd, "trace.ndjson")
    vlib.run_bin("h_pool", ["replay", sp, tp])
    ok = True

    def idx(recs, hist, n):
        seen = -1
        for i, r in enumerate(recs):
            if r["ev"] == "reset":
                seen += 1
            elif seen == hist and r.get("n") == n:
                return i
        raise KeyError((hist, n))

    def mut_len(recs):
        recs[idx(recs, 0, 3)]["len"] += 1

    def mut_double_drop(recs):
        r = recs[idx(recs, 0, 8)]
        r["dr"] = r["dr"] + r["dr"]

    def mut_no_drop(recs):
        recs[idx(recs, 0, 8)]["dr"] = []

    def mut_drop_on_take(recs):
        r = recs[idx(recs, 0, 9)]
        r["dr"] = [[r["o"], r["tk"]]]

    def mut_early_drop(recs):
        r = recs[idx(recs, 0, 6)]          # first of two shared handles dropped: nothing may be destroyed
        r["dr"] = [[r["o"], 1]]

    def mut_capacity(recs):
        recs[idx(recs, 0, 7)]["caps"][0] -= 2      # reserve(3) did not make room

    def mut_iter(recs):
        r = recs[idx(recs, 0, 3)]
        r["fwd"] = r["fwd"][:-1]

    def mut_bwd(recs):
        r = recs[idx(recs, 0, 3)]
        r["bwd"] = list(r["fwd"])

    def mut_no_panic(recs):
        r = recs[idx(recs, 1, 6)]
        r["res"] = "ok"

    def mut_count(recs):
        recs[idx(recs, 0, 3)]["pr"][0]["slabs"][0][0] -= 1

    def mut_forgotten(recs):
        r = recs[idx(recs, 0, 3)]          # slab 2 has a free slot but its bit is cleared and nothing is cached
        r["pr"][0]["blocks"][0][1] = 0
        r["pr"][0]["nextVac"] = 0

    def mut_swap(recs):
        i, j = idx(recs, 0, 5), idx(recs, 0, 6)      # clone and drop swapped: the drop now destroys nothing it should
        recs[i], recs[j] = recs[j], recs[i]

    for tag, m, why in (("len", mut_len, "len-differs-from-live-objects"), ("double", mut_double_drop, "object-destroyed-twice"),
                        ("nodrop", mut_no_drop, "object-not-destroyed"), ("take", mut_drop_on_take, "destructor-ran-for-extracted-object"),
                        ("early", mut_early_drop, "object-destroyed-that-must-stay-alive"),
                        ("capacity", mut_capacity, "reserve-did-not-make-room"),
                        ("iter", mut_iter, "iteration-is-not-exactly-the-live-objects"),
                        ("bwd", mut_bwd, "backward-iteration-is-not-the-reverse-of-forward"),
                        ("nopanic", mut_no_panic, "non-empty-must-not-drop-pool-dropped-without-panic"),
                        ("count", mut_count, "pool-length-differs-from-slab-counts"),
                        ("forgotten", mut_forgotten, "vacancy-forgotten-by-the-index"),
                        ("swap", mut_swap, "object-not-destroyed")):
        ok = pc.corrupt_and_expect("Trace_Handles", tp, m, why, wd, tag) and ok
    print("selftest C02:", "ok" if ok else "FAILED")
    return 0 if ok else 1
