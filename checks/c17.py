"""C17 — multithreaded benchmark runs: exact iteration counts, no use after return.

  spec/parbench/ParBenchAbs.tla   judge: callback sequence per worker, released together, healthy runs complete with
                                  even groups and one output per thread, NOTHING touches borrowed state after
                                  execute_on returned or unwound
  spec/parbench/ParBench.tla      explorer: main + N workers, command / one-shot result channels, barrier, every panic
                                  placement (Init), switches mirroring the tree (CollectAll, BarrierOnPanic, BarrierSize)
  spec/parbench/Trace_ParBench    the judge applied to what h_parbench recorded from the real par_bench
  harness/h_parbench              real ThreadPool on real pinned threads; callbacks are harness code; borrowed state is a
                                  leaked flag object, so a late access is an event, not undefined behaviour
"""
import concurrent.futures as cf
import json, os, re, copy
import vlib
from vlib import SPEC, REPO, workdir, tlc, tlc_prints, validate_trace, write_ndjson, read_ndjson

PID = "C17"
D = os.path.join(SPEC, "parbench")

# sets of <<n, k, g>> defined in MC_ParBench.tla
QUICK_SETS = ["CfgsQuick"]
THOROUGH_SETS = ["CfgsMid", "CfgsBig"]
LIVE_SET = "CfgsSmall"


def _repo():
    """/repo, or the private copy next to a scratch copy of /verif (bin/scratch)."""
    cand = os.path.join(os.path.dirname(vlib.ROOT), "repo")
    return cand if os.path.isdir(os.path.join(cand, "packages")) else REPO


def code_switches(repo=None):
    repo = repo or _repo()
    """The explorer mirrors the tree it is checked against: read the three code-dependent switches from the source."""
    tp = open(os.path.join(repo, "packages/par_bench/src/threadpool.rs")).read()
    rc = open(os.path.join(repo, "packages/par_bench/src/run_configured.rs")).read()
    body = tp[tp.index("fn execute_task"):tp.index("impl Drop for ThreadPool")]
    # CollectAll: the worker closure catches the panic, and nothing re-raises inside the loop that receives the results
    loop_at = body.find("for rx in result_rxs")
    collect_all = loop_at < 0        # unknown shape of the receive loop: assume the repaired design (judged on traces anyway)
    unknown_loop = loop_at < 0
    if loop_at >= 0 and "catch_unwind" in body[:loop_at]:
        i = body.index("{", loop_at)
        depth, j = 0, i
        while j < len(body):
            depth += body[j] == "{"
            depth -= body[j] == "}"
            if depth == 0:
                break
            j += 1
        inside, after = body[i:j], body[j:]
        collect_all = ("resume_unwind" not in inside) and ("panic!" not in inside) and ("did it panic" not in inside) \
            and ("resume_unwind" in after)
    pre = rc[rc.index("pool.execute_task"):rc.index("start.wait()")]
    barrier_on_panic = "catch_unwind" in pre
    m = re.search(r"Barrier::new\(\s*thread_count\.get\(\)\s*(-\s*1\s*)?\)", rc)
    known = m is not None
    minus = bool(m and m.group(1))
    return {"CollectAll": collect_all, "BarrierOnPanic": barrier_on_panic, "BarrierMinus": 1 if minus else 0,
            "recognised": known and not unknown_loop}


def tla_bool(b):
    return "TRUE" if b else "FALSE"


def explorer_cfg(path, cfgs, sw, liveness):
    fixed = sw["CollectAll"] and sw["BarrierOnPanic"] and sw["BarrierMinus"] == 0
    open(path, "w").write(
        "CONSTANTS Cfgs <- %s  CollectAll = %s  BarrierOnPanic = %s  BarrierMinus = %d\n"
        "SPECIFICATION %s\nINVARIANT TypeOK NoUseAfterReturn NoLateWorker HealthyOk\nPROPERTY JudgeAccepts%s\n"
        "CHECK_DEADLOCK %s\n" % (cfgs, tla_bool(sw["CollectAll"]), tla_bool(sw["BarrierOnPanic"]), sw["BarrierMinus"],
                                 "FairSpec" if liveness else "Spec", " Terminates" if liveness else "",
                                 "TRUE" if fixed else "FALSE"))
    return fixed


def classify(rj):
    rec = rj.get("rec", {})
    run = rj.get("run", {})
    faulty = "faulty" if run.get("faulty") else "healthy"
    ev = rec.get("ev")
    if ev in ("enter", "exit", "touch") and rec.get("late"):
        return "late-access:%s-run" % faulty
    if ev == "ret" and rec.get("kind") == "hung":
        return "hung:%s-run" % faulty
    if ev == "ret":
        return "return:%s:%s-run" % (rec.get("kind"), faulty)
    if ev == "enter" and rec.get("cb") in ("begin", "iter", "end"):
        return "released-early-or-sequence:%s:%s-run" % (rec.get("cb"), faulty)
    if ev in ("enter", "exit", "touch"):
        return "callback-sequence:%s:%s-run" % (rec.get("cb", ev), faulty)
    return "judge:%s" % ev


def judge(run, trace, name, wd, pre=None):
    ok, rejects, tr = pre if pre else validate_trace(D, "Trace_ParBench", trace, cfg="Trace_ParBench.cfg", timeout=1500)
    run.add_tlc("Trace_ParBench " + name, tr, count_states=False)
    recs = read_ndjson(trace)
    nruns = sum(1 for r in recs if r.get("ev") == "run")
    run.cov["traces_validated_against_impl"] += nruns
    run.cov["evaluations"] += len(recs)
    for r in recs:
        if r.get("ev") == "run":
            run.sample(r)
            break
    for rj in rejects:
        if "rec" not in rj:
            run.violation("parbench:judge", "trace rejected: " + json.dumps(rj)[:400], {"reject": rj})
            continue
        key = "parbench:execute_on:" + classify(rj)
        hdr = rj.get("run", {})
        run.violation(key, "ParBenchAbs rejects %s in run %s" % (json.dumps(rj["rec"]), json.dumps(hdr)),
                      {"case": {"n": hdr.get("n"), "g": hdr.get("g"), "k": hdr.get("k"), "panic_at": hdr.get("panic_at", []),
                                "stagger": hdr.get("stagger", 0)}, "first_rejected": rj["rec"], "line": rj.get("line"),
                       "trace": name})
    aborted = [r for r in recs if r.get("ev") == "aborted"]
    return recs, rejects, aborted


def check(run):
    vlib.cargo_build(["h_parbench"])
    wd = workdir(PID, clean=True)
    thorough = run.tier == "thorough"
    sw = code_switches()
    run.cov["code_switches"] = sw
    if not sw["recognised"]:
        run.assume("barrier construction in run_configured.rs not recognised; explorer assumes Barrier::new(thread_count)")
    sets = THOROUGH_SETS if thorough else QUICK_SETS
    fixed = sw["CollectAll"] and sw["BarrierOnPanic"] and sw["BarrierMinus"] == 0

    # ---- explorer against the judge, every panic placement (one TLC run per set of <<n,k,g>>; Init picks the run)
    jobs = [(name, False) for name in sets] + ([(LIVE_SET, True)] if fixed else [])

    def one(job):
        name, live = job
        p = os.path.join(wd, "mc_%s_%s.cfg" % (name, "live" if live else "safe"))
        explorer_cfg(p, name, sw, live)
        return job, tlc(D, "MC_ParBench", cfg=p, workers=8 if name == "CfgsBig" else 5, timeout=1800 if thorough else 500,
                        xmx="8g" if name == "CfgsBig" else "4g", coverage=thorough and name == "CfgsMid")

    model_cex = []
    with cf.ThreadPoolExecutor(max_workers=3) as ex:
        for (name, live), r in ex.map(one, jobs):
            run.add_tlc("ParBench explorer %s%s %s" % (name, " +liveness" if live else "", json.dumps(sw)), r)
            if r.error:
                raise vlib.ToolError("explorer %s: %s" % (name, r.error))
            if r.violation:
                model_cex.append((name, r.violation, r.cex[:6000]))

    # ---- generator: every panic placement TLC enumerated becomes a stimulus
    p = os.path.join(wd, "gen.cfg")
    gset = "CfgsThorough" if thorough else "CfgsGenQuick"
    open(p, "w").write("CONSTANTS Cfgs <- %s  CollectAll = TRUE  BarrierOnPanic = TRUE  BarrierMinus = 0\n"
                       "INIT Init\nNEXT Stop\nINVARIANT GenCase\nCHECK_DEADLOCK FALSE\n" % gset)
    gr = tlc(D, "MC_ParBench", cfg=p, workers=1, timeout=300, xmx="2g")
    if gr.error or gr.violation:
        raise vlib.ToolError("generator failed: %s %s\n%s" % (gr.error, gr.violation, gr.out[-1500:]))
    cases = [json.loads(x) for x in tlc_prints(gr.out, "PCASE")]
    cfgs = sorted({(c["n"], c["k"], c["g"]) for c in cases})
    expect = sum((2 * k + 4) ** n for (n, k, g) in cfgs)
    if len(cases) != expect or not cases:
        raise vlib.ToolError("generator produced %d placements, expected %d" % (len(cases), expect))
    write_ndjson(os.path.join(wd, "cases.ndjson"), cases)

    # ---- the real code
    trace_h = os.path.join(wd, "healthy.ndjson")
    hp = vlib.run_bin("h_parbench", ["healthy", trace_h, 3 if thorough else 2, 12], timeout=600)
    hstat = json.loads(hp.stdout.strip().splitlines()[-1])
    trace_f = os.path.join(wd, "faults.ndjson")
    gate_ms = 60 if thorough else 20
    fp = vlib.run_bin("h_parbench", ["faults", os.path.join(wd, "cases.ndjson"), trace_f, gate_ms, 3 if thorough else 2],
                      timeout=1500 if thorough else 400)
    fstat = json.loads(fp.stdout.strip().splitlines()[-1])
    run.cov["harness"] = {"healthy": hstat, "faults": fstat, "gate_ms": gate_ms}
    with cf.ThreadPoolExecutor(max_workers=2) as ex:
        # (distinct cfg names: vlib derives TLC's metadir from the cfg name, and the two runs are concurrent)
        cfgs = {}
        for nm in ("healthy", "faults"):
            cfgs[nm] = os.path.join(wd, "Trace_ParBench_%s.cfg" % nm)
            open(cfgs[nm], "w").write(open(os.path.join(D, "Trace_ParBench.cfg")).read())
        fh = ex.submit(validate_trace, D, "Trace_ParBench", trace_h, cfgs["healthy"], 1500)
        ff = ex.submit(validate_trace, D, "Trace_ParBench", trace_f, cfgs["faults"], 1500)
        pre = {"healthy": fh.result(), "faults": ff.result()}
    recs_h, rej_h, ab_h = judge(run, trace_h, "healthy", wd, pre["healthy"])
    recs_f, rej_f, ab_f = judge(run, trace_f, "faults", wd, pre["faults"])
    gates = [r for r in recs_f if r.get("ev") == "quiet"]
    run.cov["gates_opened_by_return"] = sum(r.get("gate_return", 0) for r in gates)
    run.cov["gates_opened_by_timeout"] = sum(r.get("gate_timeout", 0) for r in gates)
    if (ab_h or ab_f) and not run.violations and not run.known_hits:
        raise vlib.ToolError("harness aborted (hung runs) but the judge accepted everything: %s" % (ab_h + ab_f))
    if model_cex and not run.violations and not run.known_hits:
        fixed_sw = sw["CollectAll"] and sw["BarrierOnPanic"] and sw["BarrierMinus"] == 0 and sw.get("recognised", True)
        if fixed_sw:
            raise vlib.ToolError("explorer reports %s but the real code does not reproduce it (model drift)\n%s"
                                 % (model_cex[0][:2], model_cex[0][2][:3000]))
        # the switches were read from a source whose shape the reader does not know (a restructured function): the explorer
        # then describes a design the code does not have. What the code really does was judged on the recorded traces and
        # accepted; the exhaustive claim is withdrawn, no alarm is raised.
        run.cov["explorer_counterexample_not_reproduced_by_the_code"] = {"switches": sw, "violation": model_cex[0][1]}
        run.cov["exhaustive_withdrawn"] = True
    for c, v, cex in model_cex[:1]:
        run.cov.setdefault("model_counterexamples", []).append({"cfg": c, "violation": v})
    if hstat["max_threads"] < 16:
        run.assume("only %d processors available: healthy runs cover 1..%d threads" % (hstat["max_threads"], hstat["max_threads"]))
    run.cov["distinct_nontrivial"] = len(cases) + hstat["runs"]
    run.cov["rule"] = ("TLC explores ParBench for <<n,k,g>> in %s with every panic placement per worker ((2k+4)^n initial states) against "
                       "ParBenchAbs step by step; every enumerated placement is replayed on the real ThreadPool (healthy workers held "
                       "back up to %d ms so that execute_on gets the chance to leave early); healthy runs for 1..%d threads x dividing "
                       "group counts x k in 0..%d; distinct = placements + healthy runs"
                       % (sets, gate_ms, hstat["max_threads"], 3 if thorough else 2))
    run.cov["exhaustive"] = not run.cov.get("exhaustive_withdrawn", False)
    run.assume("a worker that the code lets run too late is observed only if it is late by less than the gate period plus the "
               "quiet period after execute_on returned (timeouts can hide a late access, never invent one)")
    run.assume("callbacks and destructors of callback-returned states are the only accesses to borrowed state")


def _judge_file(path):
    ok, rejects, tr = validate_trace(D, "Trace_ParBench", path, cfg="Trace_ParBench.cfg", timeout=600)
    return ok, rejects


def selftest():
    """Corrupted-trace tests: one field changed, one event deleted, two events of different workers swapped."""
    vlib.cargo_build(["h_parbench"])
    wd = workdir(PID, "selftest", clean=True)
    cases = os.path.join(wd, "cases.ndjson")
    write_ndjson(cases, [{"n": 2, "g": 2, "k": 1, "panic_at": [0, 0]}])
    good = os.path.join(wd, "good.ndjson")
    vlib.run_bin("h_parbench", ["faults", cases, good, 0, 1], timeout=120)
    recs = read_ndjson(good)
    ok, rej = _judge_file(good)
    results = {"good_accepted": ok and not rej}

    def variant(name, f):
        r2 = f(copy.deepcopy(recs))
        p = os.path.join(wd, name + ".ndjson")
        write_ndjson(p, r2)
        ok2, rej2 = _judge_file(p)
        results[name + "_rejected"] = (not ok2) and len(rej2) > 0
        results[name + "_at"] = rej2[0].get("rec", rej2[0]) if rej2 else None

    def field(rs):
        for r in rs:
            if r.get("ev") == "ret":
                r["outs"] = 1
        return rs

    def delete(rs):
        i = next(i for i, r in enumerate(rs) if r.get("ev") == "exit" and r.get("cb") == "prepare_iter")
        del rs[i]
        return rs

    def swap(rs):
        # first 'enter begin' moved before the other worker's last preparation exit
        ib = next(i for i, r in enumerate(rs) if r.get("ev") == "enter" and r.get("cb") == "begin")
        w = rs[ib]["w"]
        ie = max(i for i, r in enumerate(rs[:ib]) if r.get("ev") == "exit" and r.get("cb") == "prepare_iter" and r["w"] != w)
        x = rs.pop(ib)
        rs.insert(ie, x)
        return rs

    def late(rs):
        i = next(i for i, r in enumerate(rs) if r.get("ev") == "enter" and r.get("cb") == "end")
        rs[i]["late"] = True
        return rs

    variant("field_changed", field)
    variant("event_deleted", delete)
    variant("events_swapped", swap)
    variant("late_flag", late)
    print(json.dumps(results, indent=1))
    good_ok = results["good_accepted"] and all(v for k, v in results.items() if k.endswith("_rejected"))
    print("SELFTEST C17:", "ok" if good_ok else "FAILED")
    return 0 if good_ok else 1


def replay(path):
    rep = json.load(open(path))
    case = rep["replay"].get("case")
    print("replaying", json.dumps(case), "expected key", rep.get("key"))
    vlib.cargo_build(["h_parbench"])
    wd = workdir(PID, "replay_run", clean=True)
    out = os.path.join(wd, "trace.ndjson")
    if case and case.get("panic_at"):
        write_ndjson(os.path.join(wd, "cases.ndjson"), [case])
        vlib.run_bin("h_parbench", ["faults", os.path.join(wd, "cases.ndjson"), out, 60, 5], timeout=300)
    else:
        vlib.run_bin("h_parbench", ["healthy", out, 2, 12], timeout=300)
    ok, rejects = _judge_file(out)
    for rj in rejects[:5]:
        print("REJECTED:", json.dumps(rj)[:500])
    print("reproduced" if rejects else "not reproduced (trace accepted)")
    return 1 if rejects else 0
