"""C18 - allocation tracking is exact and transparent.

  spec/alloc/AllocTrackerAbs.tla    judge (per-thread totals of allocation calls; spans = differences; reports = sums;
                                    merged reports; transparency of one call)
  spec/alloc/AllocTracker.tla       explorer (registry of per-thread counters, lazy thread-local registration, spans,
                                    OperationMetrics), TLC: ReportsMatch / MergedMatch / Transparent / CountersMatch
  spec/alloc/Trace_AllocTracker.tla judge applied to what the real crate did
  harness/h_alloc                   recording inner allocator under alloc_tracker::Allocator::new, called directly
"""
import json, os, random, concurrent.futures as cf
import vlib
from vlib import SPEC, workdir, tlc, tlc_prints, validate_trace, write_ndjson, read_ndjson

# several JVMs run side by side: keep each one's GC / JIT thread pools small (and C1-only for the short trace validations)
JVM_LIGHT = {"_JAVA_OPTIONS": "-XX:ParallelGCThreads=2 -XX:CICompilerCount=2"}
JVM_SHORT = {"_JAVA_OPTIONS": "-XX:ParallelGCThreads=2 -XX:TieredStopAtLevel=1"}

PID = "C18"
D = os.path.join(SPEC, "alloc")

# name, Threads, Methods, Sizes, Sessions, OpNames, MaxCalls, MaxSpans, MaxSteps, Iters, generate?, cap, GenMod (print 1 leaf in GenMod)
EXPLORER = {
    "quick": [
        ("nest", "T2", "MBoth", "SzAB", "S1", "OpsA", 2, 2, 6, "It1", True, 700, 7),
        ("calls4", "T2", "MAlloc", "SzAB", "S1", "OpsA", 4, 1, 5, "It1", True, 500, 97),
        ("sessions", "T2", "MZeroed", "SzA", "S12", "OpsAB", 2, 2, 5, "It1", True, 400, 29),
    ],
    "thorough": [
        ("nest", "T2", "MBoth", "SzAB", "S1", "OpsA", 3, 2, 7, "It1", True, 3000, 211),
        ("nest3", "T2", "MAlloc", "SzA", "S1", "OpsA", 2, 3, 8, "It1", True, 2000, 97),
        ("calls5", "T2", "MAlloc", "SzAB", "S1", "OpsA", 5, 1, 7, "It1", True, 2000, 997),
        ("calls6", "T2", "MAlloc", "SzAB", "S1", "OpsA", 6, 0, 6, "It1", False, 0, 1),
        ("calls6-span", "T2", "MZeroed", "SzA", "S1", "OpsA", 6, 1, 8, "It1", False, 0, 1),
        ("sessions", "T2", "MZeroed", "SzAB", "S12", "OpsAB", 2, 2, 6, "It02", True, 2000, 97),
    ],
}


def run_explorer(wd, c, thorough):
    name, th, meth, sz, ses, opn, calls, spans, steps, iters, gen, _, genmod = c
    path = os.path.join(wd, "mc_%s.cfg" % name)
    inv = "ReportsMatch MergedMatch Transparent RegistryOk CountersMatch" + (" GenCase" if gen else "")
    open(path, "w").write("CONSTANTS Threads <- %s  Methods <- %s  Sizes <- %s  Sessions <- %s  OpNames <- %s  MaxCalls = %d  MaxSpans = %d  "
                          "MaxSteps = %d  Iters <- %s  GenMod = %d\nSPECIFICATION Spec\nVIEW View\nINVARIANT %s\nCHECK_DEADLOCK FALSE\n"
                          % (th, meth, sz, ses, opn, calls, spans, steps, iters, genmod, inv))
    r = tlc(D, "MC_AllocTracker", cfg=path, workers=(6 if thorough else 3), timeout=3000, xmx="8g",
            coverage=(thorough and name == "nest"), metadir=os.path.join(wd, "md_" + name), env=JVM_LIGHT)
    return c, r


def classify(rj, recs):
    """operation + site + what: for a wrong report the span kind whose end made it wrong and the field that differs"""
    rec = rj.get("rec", {})
    why = rj.get("why", ["?"])
    parts = []
    if "panic" in why:
        parts.append("panic")
    if "transparency" in why:
        inner = rec.get("inner", [])
        if len(inner) != 1:
            parts.append("transparency[inner-calls=%d]" % len(inner))
        else:
            diff = [f for f in ("m", "size", "align", "ptr", "nsize", "ret") if inner[0].get(f) != rec.get(f)]
            parts.append("transparency[%s]" % ",".join(diff))
    if "merge" in why:
        parts.append("merge")
    if "report" in why:
        parts.append("report")
    site = rec.get("ev")
    if site == "call":
        site = rec.get("m")
    elif site == "span_end":
        kind = "?"
        for r in recs:
            if r.get("ev") == "span_start" and r.get("id") == rec.get("id"):
                kind = r.get("kind")
        site = "span_end[%s]" % kind
    return "alloc:%s:%s" % (site, "+".join(parts))


def judge(run, pool, traces, label):
    def one(t):
        cfgp = t + ".cfg"
        open(cfgp, "w").write(open(os.path.join(D, "Trace_AllocTracker.cfg")).read())
        return t, validate_trace(D, "Trace_AllocTracker", t, cfg=cfgp, timeout=2400, xmx="3g", env=JVM_SHORT)

    for t, (ok, rejects, tr) in pool.map(one, traces):
        run.add_tlc("Trace_AllocTracker %s %s" % (label, os.path.basename(t)), tr, count_states=False)
        recs = read_ndjson(t)
        run.cov["traces_validated_against_impl"] += sum(1 for r in recs if r.get("ev") == "reset")
        run.cov["evaluations"] += len(recs)
        run.cov["allocator_calls_judged"] = run.cov.get("allocator_calls_judged", 0) + sum(1 for r in recs if r.get("ev") == "call")
        beh = []
        for r in recs[1:]:
            if r.get("ev") == "reset" and beh:
                break
            beh.append({k: v for k, v in r.items() if k != "tag"})
        run.sample({"source": label, "behaviour": beh[:6]}, cap=3)
        seen_beh = set()
        for rj in sorted((x for x in rejects if "line" in x), key=lambda x: x["line"]):
            i = rj["line"] - 1
            j = i
            while j > 0 and recs[j].get("ev") != "reset":
                j -= 1
            # one violation per behaviour and kind of fault: a wrong total stays wrong in every later report
            k = (j, "transparency" in rj.get("why", []))
            if k in seen_beh:
                continue
            seen_beh.add(k)
            run.violation(classify(rj, recs[j:i + 1]), "record rejected by AllocTrackerAbs (%s): %s" % (label, json.dumps(rj)[:500]),
                          {"trace": t, "line": rj.get("line"), "behaviour": recs[j:i + 1], "reject": rj})
        for rj in rejects:
            if "first_unmatched" in rj:
                raise vlib.ToolError("Trace_AllocTracker could not consume a record (harness/spec mismatch): %s" % json.dumps(rj)[:600])
            if "judge_violation" in rj:
                raise vlib.ToolError("Trace_AllocTracker failed: %s" % json.dumps(rj)[:1500])


def harness(run, args, trace):
    """run h_alloc; a crash of the process (the code under test corrupting memory) is data: the trace is flushed record by
    record, so what was recorded up to the crash is still judged; the crash itself is noted in the evidence"""
    p = vlib.run_bin("h_alloc", args, env={"VERIF_SEED": run.seed}, timeout=1200, check=False)
    if p.returncode != 0:
        if p.returncode > 0:
            raise vlib.ToolError("harness h_alloc %s failed rc=%s\n%s" % (args, p.returncode, p.stderr[-3000:]))
        run.cov.setdefault("harness_crashes", []).append({"args": [str(a) for a in args], "signal": -p.returncode})
        # drop a torn last line
        lines = open(trace, errors="replace").read().split("\n")
        good = []
        for ln in lines:
            try:
                json.loads(ln)
                good.append(ln)
            except ValueError:
                pass
        open(trace, "w").write("\n".join(good) + "\n")
    return trace


def check(run):
    vlib.cargo_build(["h_alloc"])
    wd = workdir(PID, clean=True)
    thorough = run.tier == "thorough"
    rnd = random.Random(run.seed)
    pool = cf.ThreadPoolExecutor(max_workers=5)
    ex_f = [pool.submit(run_explorer, wd, c, thorough) for c in EXPLORER[run.tier]]
    # seeded random sequenced behaviours (1..16 threads) and free-running threads: independent of TLC output
    nrand = 1200 if thorough else 240
    nchunks = 4 if thorough else 2

    def rone(i):
        t = os.path.join(wd, "trace_random_%d.ndjson" % i)
        return harness(run, ["random", t, nrand // nchunks, i], t)

    def cone(i):
        t = os.path.join(wd, "trace_conc_%d.ndjson" % i)
        return harness(run, ["conc", t, [2, 8, 16, 4][i % 4], 300 if not thorough else 600, i], t)

    rand_f = [pool.submit(rone, i) for i in range(nchunks)]
    conc_f = [pool.submit(cone, i) for i in range(4 if thorough else 2)]
    cases = []
    model_cex = []
    for f in ex_f:
        c, r = f.result()
        run.add_tlc("AllocTracker explorer %s (calls<=%d spans<=%d steps<=%d %s %s sessions=%s ops=%s)"
                    % (c[0], c[6], c[7], c[8], c[2], c[3], c[4], c[5]), r)
        if r.error:
            raise vlib.ToolError("explorer %s: %s" % (c[0], r.error))
        if r.violation:
            model_cex.append((c[0], r.violation, r.cex[:3000]))
        if c[10]:
            got = []
            for s in tlc_prints(r.out, "ACASE"):
                try:
                    got.append(json.loads(s))
                except ValueError:
                    raise vlib.ToolError("generator output not parseable: " + s[:200])
            # behaviours without any allocator call or without any span are trivial for this property
            got = [g for g in got if any(h["op"] == "call" for h in g["h"])]
            for g in got:
                g["src"] = c[0]
            if len(got) > c[11]:
                got = rnd.sample(got, c[11])
            cases.extend(got)
    run.cov["distinct_nontrivial"] = len(cases)
    cpath = os.path.join(wd, "cases.ndjson")
    write_ndjson(cpath, cases)
    nrep = 4 if thorough else 2
    per = (len(cases) + nrep - 1) // nrep

    def pone(i):
        t = os.path.join(wd, "trace_replay_%d.ndjson" % i)
        return harness(run, ["replay", cpath, t, i * per, per], t)

    rep_f = [pool.submit(pone, i) for i in range(nrep) if i * per < len(cases)]
    judge(run, pool, [f.result() for f in rep_f], "replay")
    judge(run, pool, [f.result() for f in rand_f], "random")
    judge(run, pool, [f.result() for f in conc_f], "free-running")
    # two threads creating the SAME new operation, the first one parked (by the harness's own global allocator) inside each
    # of its allocations within Session::operation() while the second one runs: both spans must reach the report
    t_op = os.path.join(wd, "trace_oprace.ndjson")
    judge(run, pool, [harness(run, ["oprace", t_op, 12], t_op)], "operation-creation-race")
    run.cov["operation_creation_race_points"] = sum(1 for r in read_ndjson(t_op) if r.get("ev") == "reset" and r["tag"].get("a_parked"))
    # the tracker installed as THE global allocator (its own bookkeeping allocates through itself): threads whose first tracked
    # event - and so their registration - falls inside an open process span, for thread ordinals 3.. of the process (the registry of per-thread counters grows at the 5th, 9th, 17th, 33rd, 65th ..)
    t_g = os.path.join(wd, "trace_global.ndjson")
    vlib.run_bin("h_alloc_global", [t_g, 140 if thorough else 72], env={"VERIF_SEED": run.seed}, timeout=600)
    judge(run, pool, [t_g], "global-allocator")
    run.cov["global_allocator_rounds"] = sum(1 for r in read_ndjson(t_g) if r.get("ev") == "reset")
    pool.shutdown()
    if run.cov.get("harness_crashes") and not run.violations and not run.known_hits:
        raise vlib.ToolError("the harness process crashed (%s) and the judge found nothing wrong in what was recorded before"
                             % json.dumps(run.cov["harness_crashes"])[:500])
    if model_cex and not run.violations and not run.known_hits:
        raise vlib.ToolError("explorer reports %s but the real code does not reproduce it (model drift)" % (model_cex,))
    run.cov["rule"] = ("TLC explores every history of alloc/alloc_zeroed/realloc/dealloc and span start/end (thread and process, nested and "
                       "overlapping, ended on any thread where the type allows) within the listed bounds; distinct = leaf behaviours with at "
                       "least one allocator call (one shortest history per distinct explorer state at the step bound, sampled above the cap), "
                       "replayed across real threads with seeded random layouts; plus %d seeded random sequenced behaviours on 1..16 threads "
                       "and free-running threads with thread spans" % nrand)
    run.cov["exhaustive"] = True
    run.assume("the tracker's counters are thread-locals/statics updated by the Allocator methods whether or not it is the global allocator")
    run.assume("behaviours are sequenced by channel handshakes, so the logged order is the real order; in the free-running driver only "
               "thread spans are used, whose value depends on the calling thread's own calls")
    run.assume("request sizes are kept small enough for every judged total to stay below 2^31 (TLC integers)")


def selftest():
    run = vlib.Run(PID, "quick")
    vlib.cargo_build(["h_alloc"])
    wd = workdir(PID, "selftest", clean=True)
    t = os.path.join(wd, "t.ndjson")
    vlib.run_bin("h_alloc", ["random", t, 15, 5], env={"VERIF_SEED": 7})
    ok, rejects, _ = validate_trace(D, "Trace_AllocTracker", t, cfg="Trace_AllocTracker.cfg")
    assert ok, rejects
    recs = read_ndjson(t)
    results = {}
    for what in ("inner-size", "ret", "report-bytes", "drop-call", "merge"):
        rs = json.loads(json.dumps(recs))
        done = False
        seen_span_end = False
        for i, r in enumerate(rs):
            if what in ("inner-size", "ret") and r.get("ev") == "call" and r["m"] != "dealloc":
                if what == "inner-size":
                    r["inner"][0]["size"] += 1
                else:
                    r["ret"] += 1
                done = True
                break
            if what == "report-bytes" and r.get("ev") == "span_end" and any(rep for rep in r["rep"]):
                for rep in r["rep"]:
                    if rep:
                        rep[0]["bytes"] += 1
                        done = True
                        break
                if done:
                    break
            if what == "drop-call" and r.get("ev") == "span_start" and r["kind"] == "thread":
                # delete the next counted call of that thread inside the span: the span's report no longer adds up
                for j in range(i + 1, len(rs)):
                    if rs[j].get("ev") == "span_end" and rs[j]["id"] == r["id"]:
                        break
                    if rs[j].get("ev") == "call" and rs[j]["t"] == r["t"] and rs[j]["m"] != "dealloc":
                        del rs[j]
                        done = True
                        break
                if done:
                    break
            if what == "merge" and r.get("ev") == "merge" and r["m"]:
                r["m"][0]["count"] += 1
                done = True
                break
        assert done, what
        p = os.path.join(wd, "bad_%s.ndjson" % what)
        write_ndjson(p, rs)
        ok2, rej2, _ = validate_trace(D, "Trace_AllocTracker", p, cfg="Trace_AllocTracker.cfg")
        results[what] = (not ok2) and len(rej2) > 0
    print(json.dumps(results))
    return 0 if all(results.values()) else 1


def replay(path):
    rep = json.load(open(path))
    print(json.dumps({k: rep[k] for k in ("property", "key", "what")}, indent=1))
    t = rep["replay"].get("trace")
    if t and os.path.exists(t):
        ok, rejects, _ = validate_trace(D, "Trace_AllocTracker", t, cfg="Trace_AllocTracker.cfg")
        print("re-validated %s: accepted=%s rejects=%d" % (t, ok, len(rejects)))
        return 0 if ok else 1
    print(json.dumps(rep["replay"], indent=1)[:4000])
    return 0
