"""C07 — single-threaded one-shot event is correct under any re-entrant waker callback.

  OnceEventLocal.tla     explorer: call stack of endpoint operations; at every waker clone / wake / drop the spec may push
                         any legal operation of the other endpoint (nesting), one action per access to the event
  OnceEventAbs.tla       judge (same monitor as C05, plus Access = no access after release)
  MC_OnceEventLocalGen   generator: programs (top-level ops + per-callback-invocation ops) from the explorer's graph
  Trace_OnceEventAbs     judge on logs of the real LocalEvent driven by scripted wakers
"""
import json, os, random
import vlib
import once_common as oc
import c05
from vlib import workdir, tlc, tlc_prints, validate_trace, read_ndjson, write_ndjson

PID = "C07"
STORAGES = ["boxed", "embedded", "pooled", "lake"]


def hist_to_program(hist):
    """hist entries {k: top|push|cb|ret, a, w} -> {"top":[ops], "cbs":[{"kind","ops"}]} (callbacks in invocation order)"""
    top, cbs, cbstack = [], [], []
    for e in hist:
        k = e["k"]
        if k == "top":
            top.append(e["a"])
        elif k == "cb":
            rec = {"kind": e["a"], "ops": []}
            cbs.append(rec)
            cbstack.append(rec)
        elif k == "push":
            if cbstack:
                cbstack[-1]["ops"].append(e["a"])
        elif k == "ret":
            if cbstack:
                cbstack.pop()
    return {"top": top, "cbs": cbs}


def nontrivial(prog):
    return any(c["ops"] for c in prog["cbs"])


def run_local(wd, tag, stimuli):
    sp = os.path.join(wd, tag + ".stim.ndjson")
    out = os.path.join(wd, tag + ".log.ndjson")
    write_ndjson(sp, stimuli)
    recs, _crashes = vlib.run_stimuli("h_once", "local", sp, out, timeout=1800)
    return recs


API_KEEP = ("ev", "id", "w", "side", "op", "res", "outcome", "pool_len", "panics")


def api_file(recs, path):
    out = []
    for r in recs:
        if r["ev"] in oc.API_EVS or r["ev"] == "cell":
            a = {k: r[k] for k in r if k in API_KEEP}
            for k, v in oc.API_DEF.items():
                a.setdefault(k, v)
            out.append(a)
    write_ndjson(path, out)


def judge(run, wd, tag, recs):
    p = os.path.join(wd, tag + ".api.ndjson")
    api_file(recs, p)
    ok, rejects, tr = validate_trace(oc.D, "Trace_OnceEventAbs", p, cfg="Trace_OnceEventAbs.cfg", timeout=1800, deque=False)
    run.add_tlc("Trace_OnceEventAbs " + tag, tr, count_states=False)
    for rj in rejects:
        if "line" not in rj:
            raise vlib.ToolError("trace not consumed: %s" % json.dumps(rj)[:500])
        runrecs = oc.run_containing(p, rj["line"])
        why = rj.get("why", "")
        key = "local:" + ("use-after-release" if "after it was released" in why else c05.api_key(why))
        stim = next((r for r in recs if r["ev"] == "reset" and r.get("id") == runrecs[0].get("id")), runrecs[0])
        run.violation(key, "OnceEventAbs rejects a run of the real LocalEvent: %s" % why,
                      {"why": why, "at": rj.get("rec"), "stimulus": stim, "api_trace": runrecs[:300]})


def check(run):
    vlib.cargo_build(["h_once"])
    wd = workdir(PID, clean=True)
    thorough = run.tier == "thorough"
    consts = "MaxPolls = 3  MaxChecks = 1  MaxCbOps = 2" if thorough else "MaxPolls = 2  MaxChecks = 1  MaxCbOps = 2"
    # (1) explorer: every nesting, all invariants, deadlock check on
    cfg = os.path.join(wd, "mc.cfg")
    open(cfg, "w").write("CONSTANTS %s\nSPECIFICATION Spec\nINVARIANT TypeOK NoUseAfterRelease NoUB NoUnreachable JudgeOk QuiescentClean\n" % consts)
    r = tlc(oc.D, "OnceEventLocal", cfg=cfg, workers=8, timeout=1800, coverage=True)
    run.add_tlc("OnceEventLocal explorer (%s)" % consts, r)
    if r.error:
        raise vlib.ToolError(r.error)
    model_cex = r.violation
    # (2) programs: edge cover of the explorer + simulated complete behaviours
    gcfg = os.path.join(wd, "gen.cfg")
    open(gcfg, "w").write("CONSTANTS %s\nSPECIFICATION GSpec\nVIEW GView\nACTION_CONSTRAINT EmitEdge\nCHECK_DEADLOCK FALSE\n" % consts)
    g = tlc(oc.D, "MC_OnceEventLocalGen", cfg=gcfg, workers=1, timeout=1800)
    if g.error or g.violation:
        raise vlib.ToolError("generator failed: %s %s" % (g.error, g.violation))
    lines = set(tlc_prints(g.out, "LBEH"))
    scfg = os.path.join(wd, "sim.cfg")
    open(scfg, "w").write("CONSTANTS %s\nSPECIFICATION GSpec\nINVARIANT EmitDone\nCHECK_DEADLOCK FALSE\n" % consts)
    s = tlc(oc.D, "MC_OnceEventLocalGen", cfg=scfg, workers=1, timeout=600, simulate=(6000 if thorough else 1200), depth=70, seed=run.seed)
    if s.error or s.violation:
        raise vlib.ToolError("simulation failed: %s %s" % (s.error, s.violation))
    lines |= set(tlc_prints(s.out, "LBEH"))
    progs = {}
    for ln in lines:
        pr = hist_to_program(json.loads(ln))
        progs[json.dumps(pr, sort_keys=True)] = pr
    plist = [progs[k] for k in sorted(progs)]
    run.cov["programs_from_tlc"] = len(plist)
    run.cov["programs_with_reentrant_ops"] = sum(1 for p in plist if nontrivial(p))
    stim = []
    for i, pr in enumerate(plist):
        for st in (STORAGES if thorough else [STORAGES[i % len(STORAGES)]]):
            stim.append({"id": len(stim) + 1, "storage": st, "top": pr["top"], "cbs": pr["cbs"]})
    # the same programs re-polling with the SAME waker object (Waker::will_wake is true) where they poll more than once
    rp = lambda ops: ["repoll" if o == "poll" else o for o in ops]
    for st in list(stim):
        if st["top"].count("poll") + sum(c["ops"].count("poll") for c in st["cbs"]) >= 2:
            stim.append({"id": len(stim) + 1, "storage": st["storage"], "top": rp(st["top"]),
                         "cbs": [{"kind": c["kind"], "ops": rp(c["ops"])} for c in st["cbs"]]})
    run.cov["same_waker_repoll_variants"] = sum(1 for s in stim if "repoll" in s["top"] or any("repoll" in c["ops"] for c in s["cbs"]))
    recs = run_local(wd, "tlc", stim)
    ends = [e for e in recs if e["ev"] == "end"]
    run.cov["replayed_runs"] = len(ends)
    run.cov["replay_drift_runs"] = sum(1 for e in ends if e["drift"] > 0)
    judge(run, wd, "tlc-programs", recs)
    run.cov["traces_validated_against_impl"] += len(ends)
    big = max(stim, key=lambda s: sum(len(c["ops"]) for c in s["cbs"]))
    run.sample({"stimulus": big})
    if model_cex and not run.violations and not run.known_hits:
        raise vlib.ToolError("explorer reports %s but no replayed program reproduces it on the real code (model drift)\n%s" % (model_cex, r.cex[:3000]))
    # (3) seeded random callback programs beyond the model's bounds (deeper receiver programs, more ops per callback)
    rng = random.Random(run.seed)
    rnd = []
    for i in range(3000 if thorough else 500):
        top = [rng.choice(["poll", "poll", "repoll", "send", "sdrop", "is_ready", "into_value", "drop"]) for _ in range(rng.randint(1, 5))]
        cbs = []
        for _ in range(rng.randint(0, 6)):
            ops = [rng.choice(["send", "sdrop", "poll", "repoll", "into_value", "drop", "is_ready"]) for _ in range(rng.choice([0, 0, 1, 1, 2, 3]))]
            cbs.append({"kind": rng.choice(["clone", "wake", "drop"]), "ops": ops})
        rnd.append({"id": 500000 + i, "storage": rng.choice(STORAGES), "top": top, "cbs": cbs})
    recs = run_local(wd, "rand", rnd)
    judge(run, wd, "random-programs", recs)
    run.cov["traces_validated_against_impl"] += len(rnd)
    run.cov["evaluations"] = run.cov["traces_validated_against_impl"]
    run.cov["distinct_nontrivial"] = run.cov["programs_with_reentrant_ops"]
    run.cov["rule"] = ("programs = top-level operation sequence + operations performed inside the k-th waker callback invocation; enumerated "
                       "by TLC from the explorer's state graph (edge cover + simulation), non-trivial = at least one callback re-enters the "
                       "event; each replayed on the real LocalEvent (boxed/embedded/pooled/lake); plus seeded random programs")
    run.cov["exhaustive"] = (model_cex is None)
    run.assume("a re-entrant operation on an endpoint that is on the call stack cannot be written in safe Rust and is not explored")
    run.assume("random programs that ask for such an operation skip it (counted as drift, not judged)")


def replay(path):
    rep = json.load(open(path))
    st = rep["replay"].get("stimulus", {})
    print(json.dumps(rep["replay"], indent=1)[:5000])
    if "top" in st:
        vlib.cargo_build(["h_once"])
        wd = workdir(PID, "replay_run", clean=True)
        recs = run_local(wd, "replay", [{"id": 1, "storage": st.get("storage", "boxed"), "top": st["top"], "cbs": st.get("cbs") or []}])
        for r in recs:
            print(json.dumps(r))
    return 0


def selftest():
    vlib.cargo_build(["h_once"])
    wd = workdir(PID, "selftest", clean=True)
    stim = [{"id": 1, "storage": "boxed", "top": ["poll", "send"], "cbs": [{"kind": "clone", "ops": []}, {"kind": "wake", "ops": ["poll"]}]}]
    recs = run_local(wd, "st", stim)
    p = os.path.join(wd, "ok.ndjson")
    api_file(recs, p)
    ok, rej, _ = validate_trace(oc.D, "Trace_OnceEventAbs", p, cfg="Trace_OnceEventAbs.cfg", deque=False)
    assert ok and not rej, rej
    api = read_ndjson(p)
    bad = 0
    # an access moved after the release must be rejected
    i = next(k for k, r in enumerate(api) if r["ev"] == "release")
    m = api[:i + 1] + [dict(api[i - 1])] + api[i + 1:]
    write_ndjson(os.path.join(wd, "mut.ndjson"), m)
    ok, rej, _ = validate_trace(oc.D, "Trace_OnceEventAbs", os.path.join(wd, "mut.ndjson"), cfg="Trace_OnceEventAbs.cfg", deque=False)
    bad += 0 if rej else 1
    print("selftest C07: corrupted traces not rejected: %d" % bad)
    return 1 if bad else 0
