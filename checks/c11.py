"""C11 — Linux hardware inventory equals what the kernel's text interfaces describe; id-list codec exact.

Parts:
  A  cpulist codec:   CpuList.tla (explorer of emit.rs, checked W-bit arithmetic) + CpuListAbs.tla (judge)
  B  cpu masks:       CpuMask.tla
  C  inventory:       LinuxInventory.tla  (machine descriptions -> expected inventory)
"""
import json, os
import vlib
from vlib import SPEC, workdir, tlc, tlc_prints, validate_trace, write_ndjson, read_ndjson

PID = "C11"
D = os.path.join(SPEC, "cpus")


def part_cpulist(run):
    wd = workdir(PID, "cpulist", clean=True)
    thorough = run.tier == "thorough"
    w = 4 if thorough else 3
    # (1) explorer: every input set, all invariants
    cfg = os.path.join(wd, "MC_CpuList.cfg")
    open(cfg, "w").write("CONSTANT W = %d\nSPECIFICATION FairSpec\nINVARIANT TypeOK NoPanic RoundTrip Canonical GroupsAreRuns\n"
                         "PROPERTY Terminates\nCHECK_DEADLOCK FALSE\n" % w)
    r = tlc(D, "MC_CpuList", cfg=cfg, workers=8, coverage=True, timeout=1200)
    run.add_tlc("CpuList explorer W=%d" % w, r)
    if r.error:
        raise vlib.ToolError(r.error)
    model_cex = r.violation
    # (2) generator: one case per input set (W=3: 256 sets; thorough W=4 sampled through the random driver too)
    gw = 3 if not thorough else 4
    cfg = os.path.join(wd, "gen.cfg")
    open(cfg, "w").write("CONSTANT W = %d\nSPECIFICATION Spec\nINVARIANT EmitCase\nCHECK_DEADLOCK FALSE\n" % gw)
    g = tlc(D, "MC_CpuList", cfg=cfg, workers=1, timeout=1200)
    if g.error or g.violation:
        raise vlib.ToolError("generator failed: %s %s" % (g.error, g.violation))
    cases = [json.loads(s) for s in tlc_prints(g.out, "CASE")]
    write_ndjson(os.path.join(wd, "emit_cases.ndjson"), cases)
    trace = os.path.join(wd, "emit_trace.ndjson")
    vlib.run_bin("h_cpus", ["cpulist-emit", os.path.join(wd, "emit_cases.ndjson"), trace, gw])
    ok, rejects, tr = validate_trace(D, "Trace_CpuList", trace, cfg="Trace_CpuList.cfg")
    run.add_tlc("Trace_CpuList emit", tr, count_states=False)
    recs = read_ndjson(trace)
    run.cov["traces_validated_against_impl"] += len(recs)
    run.cov["evaluations"] += len(recs)
    run.sample(recs[len(recs) // 2])
    report_rejects(run, rejects, "emit")
    # the real code must also agree with the model's rendered text (explorer fidelity; drift, not a violation)
    drift = 0
    by_input = {json.dumps(c["input"]): c for c in cases}
    for rec in recs:
        c = by_input[json.dumps(rec["input"])]
        if rec["ok"] and not c["panicked"] and rec["parts"] != c["parts"]:
            drift += 1
        if rec["ok"] == c["panicked"]:
            drift += 1
    run.cov["drift_emit_text_vs_model"] = drift
    if model_cex and not any(v[0].startswith("cpulist") for v in run.violations) and not run.known_hits:
        raise vlib.ToolError("explorer reports %s but the real code does not reproduce it (model drift)" % model_cex)
    # (3) parser: every text of <= 2 parts over 2-bit ids, strides 0..3
    cfg = os.path.join(wd, "parse.cfg")
    open(cfg, "w").write("CONSTANTS W = 2  MaxParts = %d  MaxStride = 3\nSPECIFICATION Spec\nINVARIANT SemLaws Case\n"
                         "CHECK_DEADLOCK FALSE\n" % (2,))
    g = tlc(D, "MC_CpuListParse", cfg=cfg, workers=1, timeout=1200)
    run.add_tlc("CpuListParse generator", g)
    if g.error or g.violation:
        raise vlib.ToolError("parse generator failed: %s %s" % (g.error, g.violation))
    pcases = [json.loads(s) for s in tlc_prints(g.out, "PCASE")]
    write_ndjson(os.path.join(wd, "parse_cases.ndjson"), pcases)
    trace = os.path.join(wd, "parse_trace.ndjson")
    vlib.run_bin("h_cpus", ["cpulist-parse", os.path.join(wd, "parse_cases.ndjson"), trace, 2])
    ok, rejects, tr = validate_trace(D, "Trace_CpuList", trace, cfg="Trace_CpuList.cfg")
    run.add_tlc("Trace_CpuList parse", tr, count_states=False)
    recs = read_ndjson(trace)
    run.cov["traces_validated_against_impl"] += len(recs)
    run.cov["evaluations"] += len(recs)
    run.sample(recs[len(recs) // 3])
    report_rejects(run, rejects, "parse")
    # (4) seeded random sets/texts in 128-id windows at random bases
    n = 20000 if thorough else 3000
    trace = os.path.join(wd, "rand_trace.ndjson")
    vlib.run_bin("h_cpus", ["cpulist-random", trace, n, 7], env={"VERIF_SEED": run.seed})
    ok, rejects, tr = validate_trace(D, "Trace_CpuList", trace, cfg="Trace_CpuList.cfg", timeout=1800)
    run.add_tlc("Trace_CpuList random", tr, count_states=False)
    run.cov["traces_validated_against_impl"] += n
    run.cov["evaluations"] += n
    report_rejects(run, rejects, "rand")
    return len(cases) + len(pcases)


def report_rejects(run, rejects, what):
    for rj in rejects:
        rec = rj.get("rec", rj)
        key = "cpulist:%s:%s" % (what, classify(rec))
        run.violation(key, "cpulist %s record rejected by CpuListAbs: %s" % (what, json.dumps(rec)[:300]),
                      {"part": "cpulist", "record": rec})


def classify(rec):
    if rec.get("op") == "emit":
        if rec.get("panic"):
            inp = rec.get("input", [])
            return "panic:emb=%s" % rec.get("emb")
        return "wrong-text"
    if rec.get("op") == "parse":
        return "parse-mismatch"
    return "other"


def check(run):
    vlib.cargo_build(["h_cpus"])
    n = part_cpulist(run)
    run.cov["distinct_nontrivial"] = n
    run.cov["rule"] = ("cpulist: every id set over W-bit ids (explorer + replay under low/mid/top embeddings), every text "
                       "of <=2 parts over 2-bit ids and strides 0..3; distinct = TLC-enumerated cases")
    run.cov["exhaustive"] = True
    run.assume("u32 arithmetic of the code behaves like the model's W-bit checked arithmetic under the top-of-range embedding")


def replay(path):
    rep = json.load(open(path))
    print(json.dumps(rep, indent=1))
    return 0
