"""C11 — Linux hardware inventory equals what the kernel's text interfaces describe; id-list codec exact.

Parts:
  A  cpulist codec:   CpuList.tla (explorer of emit.rs, checked W-bit arithmetic) + CpuListAbs.tla (judge)
  B  cpu masks:       CpuMask.tla
  C  inventory:       LinuxInventory.tla  (machine descriptions -> expected inventory)
"""
import json, os, concurrent.futures
import vlib
from vlib import SPEC, workdir, tlc, tlc_prints, validate_trace, write_ndjson, read_ndjson

PID = "C11"
D = os.path.join(SPEC, "cpus")


def part_cpulist(run):
    wd = workdir(PID, "cpulist", clean=True)
    thorough = run.tier == "thorough"
    w = 4 if thorough else 3
    # (1) explorer: every input set, all invariants
    cfg = os.path.join(wd, "MC_CpuList.cfg")
    open(cfg, "w").write("CONSTANT W = %d\nSPECIFICATION FairSpec\nINVARIANT TypeOK NoPanic RoundTrip Canonical GroupsAreRuns\n"
                         "PROPERTY Terminates\nCHECK_DEADLOCK FALSE\n" % w)
    r = tlc(D, "MC_CpuList", cfg=cfg, workers=8, coverage=True, timeout=1200)
    run.add_tlc("CpuList explorer W=%d" % w, r)
    if r.error:
        raise vlib.ToolError(r.error)
    model_cex = r.violation
    # (2) generator: one case per input set (W=3: 256 sets; thorough W=4 sampled through the random driver too)
    gw = 3 if not thorough else 4
    cfg = os.path.join(wd, "gen.cfg")
    open(cfg, "w").write("CONSTANT W = %d\nSPECIFICATION Spec\nINVARIANT EmitCase\nCHECK_DEADLOCK FALSE\n" % gw)
    g = tlc(D, "MC_CpuList", cfg=cfg, workers=1, timeout=1200)
    if g.error or g.violation:
        raise vlib.ToolError("generator failed: %s %s" % (g.error, g.violation))
    cases = [json.loads(s) for s in tlc_prints(g.out, "CASE")]
    write_ndjson(os.path.join(wd, "emit_cases.ndjson"), cases)
    trace = os.path.join(wd, "emit_trace.ndjson")
    vlib.run_bin("h_cpus", ["cpulist-emit", os.path.join(wd, "emit_cases.ndjson"), trace, gw])
    ok, rejects, tr = validate_trace(D, "Trace_CpuList", trace, cfg="Trace_CpuList.cfg")
    run.add_tlc("Trace_CpuList emit", tr, count_states=False)
    recs = read_ndjson(trace)
    run.cov["traces_validated_against_impl"] += len(recs)
    run.cov["evaluations"] += len(recs)
    run.sample(recs[len(recs) // 2])
    report_rejects(run, rejects, "emit")
    # the real code must also agree with the model's rendered text (explorer fidelity; drift, not a violation)
    drift = 0
    by_input = {json.dumps(c["input"]): c for c in cases}
    for rec in recs:
        c = by_input[json.dumps(rec["input"])]
        if rec["ok"] and not c["panicked"] and rec["parts"] != c["parts"]:
            drift += 1
        if rec["ok"] == c["panicked"]:
            drift += 1
    run.cov["drift_emit_text_vs_model"] = drift
    if model_cex and not any(v[0].startswith("cpulist") for v in run.violations) and not run.known_hits:
        raise vlib.ToolError("explorer reports %s but the real code does not reproduce it (model drift)" % model_cex)
    # (3) parser: every text of <= 2 parts over 2-bit ids, strides 0..3
    cfg = os.path.join(wd, "parse.cfg")
    open(cfg, "w").write("CONSTANTS W = 2  MaxParts = %d  MaxStride = 3\nSPECIFICATION Spec\nINVARIANT SemLaws Case\n"
                         "CHECK_DEADLOCK FALSE\n" % (2,))
    g = tlc(D, "MC_CpuListParse", cfg=cfg, workers=1, timeout=1200)
    run.add_tlc("CpuListParse generator", g)
    if g.error or g.violation:
        raise vlib.ToolError("parse generator failed: %s %s" % (g.error, g.violation))
    pcases = [json.loads(s) for s in tlc_prints(g.out, "PCASE")]
    write_ndjson(os.path.join(wd, "parse_cases.ndjson"), pcases)
    trace = os.path.join(wd, "parse_trace.ndjson")
    vlib.run_bin("h_cpus", ["cpulist-parse", os.path.join(wd, "parse_cases.ndjson"), trace, 2])
    ok, rejects, tr = validate_trace(D, "Trace_CpuList", trace, cfg="Trace_CpuList.cfg")
    run.add_tlc("Trace_CpuList parse", tr, count_states=False)
    recs = read_ndjson(trace)
    run.cov["traces_validated_against_impl"] += len(recs)
    run.cov["evaluations"] += len(recs)
    run.sample(recs[len(recs) // 3])
    report_rejects(run, rejects, "parse")
    # (4) seeded random sets/texts in 128-id windows at random bases
    n = 20000 if thorough else 3000
    trace = os.path.join(wd, "rand_trace.ndjson")
    vlib.run_bin("h_cpus", ["cpulist-random", trace, n, 7], env={"VERIF_SEED": run.seed})
    ok, rejects, tr = validate_trace(D, "Trace_CpuList", trace, cfg="Trace_CpuList.cfg", timeout=1800)
    run.add_tlc("Trace_CpuList random", tr, count_states=False)
    run.cov["traces_validated_against_impl"] += n
    run.cov["evaluations"] += n
    report_rejects(run, rejects, "rand")
    return len(cases) + len(pcases)


# ------------------------------------------------------------------------------------------------ part B: masks

def part_masks(run):
    """CpuMask.tla: laws on 3-bit words (TLC), every insertion sequence replayed on the real mask type (hook H4)
    under four word embeddings, judged by Trace_CpuMask."""
    wd = workdir(PID, "masks", clean=True)
    thorough = run.tier == "thorough"
    cfg = os.path.join(wd, "mc.cfg")
    open(cfg, "w").write("CONSTANTS WB = 3  MaxIns = %d\nSPECIFICATION Spec\nINVARIANT TypeOK IdsAreInserted WidthLaw "
                         "OrderIrrelevant WidenKeepsSet GenCase\nPROPERTY NeverNarrower\nCHECK_DEADLOCK FALSE\n" % (3 if thorough else 2))
    r = tlc(D, "MC_CpuMask", cfg=cfg, workers=4, timeout=1500)
    run.add_tlc("CpuMask laws + generator (3-bit words, widths 1..3)", r)
    if r.error:
        raise vlib.ToolError(r.error)
    if r.violation:
        raise vlib.ToolError("CpuMask model violates its own laws: %s\n%s" % (r.violation, r.cex[:2000]))
    cases = [json.loads(x) for x in tlc_prints(r.out, "MCASE")]
    write_ndjson(os.path.join(wd, "cases.ndjson"), cases)
    trace = os.path.join(wd, "trace.ndjson")
    vlib.run_bin("h_cpus", ["masks", os.path.join(wd, "cases.ndjson"), trace])
    nrand = 20000 if thorough else 3000
    rtrace = os.path.join(wd, "rand.ndjson")
    vlib.run_bin("h_cpus", ["masks-random", rtrace, nrand], env={"VERIF_SEED": run.seed})
    total = 0
    for name, t in (("enumerated", trace), ("random", rtrace)):
        n, rejects = judge_parallel(run, "Trace_CpuMask", t, "Trace_CpuMask " + name, wd, chunks=6 if name == "enumerated" else 2)
        total += n
        for rj in rejects:
            rec = rj.get("rec", rj)
            run.violation("mask:" + classify_mask(rec), "mask record rejected by CpuMask: %s" % json.dumps(rec)[:400],
                          {"part": "masks", "record": rec})
    recs = read_ndjson(trace)
    run.sample(recs[len(recs) // 2])
    return len(cases)


def classify_mask(rec):
    if rec.get("panic"):
        return "panic:" + rec.get("op", "?")
    if rec.get("op") == "maskeq":
        return "eq-not-set-equality"
    o = rec.get("obs", {})
    if sorted(o.get("bits", [])) != sorted(set(rec.get("rins", []))):
        return "kernel-bits-differ-from-inserted-ids"
    if sorted(o.get("ids", [])) != sorted(set(rec.get("rins", []))):
        return "processor-ids-differ-from-inserted-ids"
    return "width-or-decode"


# ------------------------------------------------------------------------------------------ part C: inventory

def split_file(path, wd, chunks):
    lines = open(path).read().splitlines(True)
    n = max(1, (len(lines) + chunks - 1) // chunks)
    out = []
    for i in range(0, len(lines), n):
        f = os.path.join(wd, "%s.part%d" % (os.path.basename(path), i // n))
        open(f, "w").writelines(lines[i:i + n])
        out.append(f)
    return out, len(lines)


def judge_parallel(run, module, trace, name, wd, chunks=4, timeout=3000):
    """Stateless judges: split the trace and validate the parts concurrently (one single-worker TLC each)."""
    parts, n = split_file(trace, wd, chunks)
    rejects, bad = [], []

    def one(f):
        # like vlib.validate_trace, with a private metadir per concurrent TLC
        md = os.path.join(vlib.WORK, "_tlc", "%s_%s_%d" % (module, os.path.basename(f), os.getpid()))
        r = tlc(D, module, cfg=module + ".cfg", workers=1, env={"TRACE": f}, timeout=timeout, xmx="3g", xss="1g",
                deque=True, metadir=md)
        if r.error:
            raise vlib.ToolError("trace validation %s failed: %s\n%s" % (module, r.error, r.out[-3000:]))
        rj = [json.loads(x) for x in tlc_prints(r.out, "REJECT")]
        if r.violation and r.violation != "postcondition" and not rj:
            rj.append({"judge_violation": r.violation, "cex": r.cex[:4000]})
        return (r.violation is None and not rj), rj, r

    with concurrent.futures.ThreadPoolExecutor(max_workers=len(parts)) as ex:
        for ok, rj, tr in ex.map(one, parts):
            run.add_tlc(name, tr, count_states=False)
            rejects += rj
            bad += tlc_prints(tr.out, "NOTWF") + tlc_prints(tr.out, "BADSTIM")
    if bad:
        raise vlib.ToolError("%s: %d records carry a stimulus the judge does not accept as well-formed (harness/generator "
                             "bug): %s" % (name, len(bad), bad[0][:600]))
    run.cov["traces_validated_against_impl"] += n
    run.cov["evaluations"] += n
    vlib.log("%s: %d records judged, %d rejected" % (name, n, len(rejects)))
    return n, rejects


def classify_inventory(rj):
    why = rj.get("why", "?")
    cg = rj.get("cg", "?")
    if why == "quota":
        return "inventory:quota:cg=%s" % cg
    if why == "panic":
        msg = rj.get("rec", {}).get("obs", {}).get("panic", "")
        site = msg.split(":")[0].strip().replace(" ", "_")[:24]
        return "inventory:panic:%s" % site
    return "inventory:%s" % why


def part_inventory(run):
    wd = workdir(PID, "inventory", clean=True)
    thorough = run.tier == "thorough"
    n_cases = 0
    # (1) every kernel-consistent description over the cpu ids, 2 node ids, lexical features rotating;
    # (2) every lexical style x bogomips pattern x cgroup form over 2 cpu ids
    gens = [("topology", "{0,1,2,3}" if thorough else "{0,1,2}", "{0,1}", "FALSE"),
            ("lexical", "{0,2}" if thorough else "{1}", "{0,1}" if thorough else "{1}", "TRUE")]
    for gname, cpus, nodes, full in gens:
        cfg = os.path.join(wd, "gen_%s.cfg" % gname)
        open(cfg, "w").write("CONSTANTS Cpus = %s NodeIds = %s FullLexical = %s\nINIT Init\nNEXT Next\n"
                             "INVARIANT AllWellFormed JudgeAcceptsExpected FactsConsistent GenCase\nCHECK_DEADLOCK FALSE\n"
                             % (cpus, nodes, full))
        g = tlc(D, "MC_LinuxInventory", cfg=cfg, workers=8, timeout=3000, xmx="8g")
        run.add_tlc("LinuxInventory generator %s (Cpus=%s NodeIds=%s)" % (gname, cpus, nodes), g)
        if g.error or g.violation:
            raise vlib.ToolError("inventory generator %s failed: %s %s\n%s" % (gname, g.error, g.violation, (g.cex or g.out)[-3000:]))
        cases = [json.loads(x) for x in tlc_prints(g.out, "ICASE")]
        if len(cases) != g.distinct and len(cases) < g.distinct:
            raise vlib.ToolError("generator %s printed %d cases for %d states" % (gname, len(cases), g.distinct))
        n_cases += len(cases)
        cf = os.path.join(wd, "cases_%s.ndjson" % gname)
        write_ndjson(cf, cases)
        trace = os.path.join(wd, "trace_%s.ndjson" % gname)
        vlib.run_bin("h_cpus", ["inventory", cf, trace], timeout=3000)
        # explorer-style fidelity: the code's answers vs the canonical expectation inside the judge's ranges (drift only)
        exp = {json.dumps(c["d"], sort_keys=True): c["exp"] for c in cases}
        drift = 0
        for rec in read_ndjson(trace):
            e = exp.get(json.dumps(rec["d"], sort_keys=True))
            o = rec["obs"]
            if e is not None and any(e[k] != o[k] for k in ("maxcpu", "maxregion", "active", "quota1000", "nprocs")):
                drift += 1
        run.cov["drift_inventory_vs_canonical_%s" % gname] = drift
        n, rejects = judge_parallel(run, "Trace_LinuxInventory", trace, "Trace_LinuxInventory " + gname, wd,
                                    chunks=8 if thorough else 6)
        report_inventory(run, rejects)
        recs = read_ndjson(trace)
        run.sample(recs[len(recs) // 3])
    # (3) seeded random machines up to 1024 cpus / 8 nodes, same judge
    nrand = 1500 if thorough else 300
    trace = os.path.join(wd, "trace_random.ndjson")
    vlib.run_bin("h_cpus", ["inventory-random", trace, nrand], env={"VERIF_SEED": run.seed}, timeout=3000)
    n, rejects = judge_parallel(run, "Trace_LinuxInventory", trace, "Trace_LinuxInventory random", wd, chunks=8)
    report_inventory(run, rejects)
    run.cov["inventory_random_machines"] = nrand
    return n_cases


def report_inventory(run, rejects):
    for rj in rejects:
        key = classify_inventory(rj)
        rec = rj.get("rec", rj)
        run.violation(key, "inventory rejected by LinuxInventory (%s): d=%s obs=%s" % (
            rj.get("why"), json.dumps(rec.get("d"))[:500], json.dumps(rec.get("obs"))[:300]), {"part": "inventory", "record": rec})


def report_rejects(run, rejects, what):
    for rj in rejects:
        rec = rj.get("rec", rj)
        key = "cpulist:%s:%s" % (what, classify(rec))
        run.violation(key, "cpulist %s record rejected by CpuListAbs: %s" % (what, json.dumps(rec)[:300]),
                      {"part": "cpulist", "record": rec})


def classify(rec):
    if rec.get("op") == "emit":
        if rec.get("panic"):
            inp = rec.get("input", [])
            return "panic:emb=%s" % rec.get("emb")
        return "wrong-text"
    if rec.get("op") == "parse":
        return "parse-mismatch"
    return "other"


def check(run):
    vlib.cargo_build(["h_cpus"])
    n = part_cpulist(run)
    nm = part_masks(run)
    ni = part_inventory(run)
    run.cov["distinct_nontrivial"] = n + nm + ni
    run.cov["rule"] = ("cpulist: every id set over W-bit ids (explorer + replay under low/mid/top embeddings), every text "
                       "of <=2 parts over 2-bit ids and strides 0..3; masks: every insertion sequence (<=2, thorough <=3) "
                       "into masks of width 1..3 over 4 three-bit words x 4 word embeddings; inventory: every kernel-consistent "
                       "machine description over <=3 (thorough 4) cpu ids / 2 node ids + every lexical/cgroup form; "
                       "distinct = TLC-enumerated cases (cpulist %d, masks %d, machine descriptions %d)" % (n, nm, ni))
    run.cov["exhaustive"] = True
    run.assume("u32 arithmetic of the code behaves like the model's W-bit checked arithmetic under the top-of-range embedding")
    run.assume("rendering of a machine description to file text (harness, own cpulist writer) is lexical and faithful")
    run.assume("kernel-consistency of descriptions is as stated by WellFormed in LinuxInventory.tla")


def selftest():
    """Binding demonstration: corrupt one field of accepted records and see the judges reject them."""
    run = vlib.Run(PID, "quick")
    vlib.cargo_build(["h_cpus"])
    wd = workdir(PID, "selftest", clean=True)
    bad = 0
    # inventory: take accepted records, corrupt one observed field each
    cfg = os.path.join(wd, "gen.cfg")
    open(cfg, "w").write("CONSTANTS Cpus = {0,1} NodeIds = {0,1} FullLexical = FALSE\nINIT Init\nNEXT Next\nINVARIANT GenCase\nCHECK_DEADLOCK FALSE\n")
    g = tlc(D, "MC_LinuxInventory", cfg=cfg, workers=2)
    cases = [json.loads(x) for x in tlc_prints(g.out, "ICASE")][:200]
    write_ndjson(os.path.join(wd, "cases.ndjson"), cases)
    trace = os.path.join(wd, "trace.ndjson")
    vlib.run_bin("h_cpus", ["inventory", os.path.join(wd, "cases.ndjson"), trace])
    ok, rejects, tr = validate_trace(D, "Trace_LinuxInventory", trace, cfg="Trace_LinuxInventory.cfg")
    if rejects:
        print("selftest: clean trace rejected", rejects[:1]); bad += 1
    recs = read_ndjson(trace)
    muts = []
    for i, r in enumerate(recs[:120]):
        r = json.loads(json.dumps(r))
        o = r["obs"]
        k = i % 6
        if k == 0: o["maxcpu"] += 1
        elif k == 1: o["maxregion"] += 1
        elif k == 2: o["quota1000"] += 7
        elif k == 3: o["active"] += 1
        elif k == 4: o["rows"][0]["rep"] = 1 - o["rows"][0]["rep"]
        else:
            rep = [x for x in o["rows"] if x["rep"] == 1]
            rep[0]["region"] += 1
        muts.append(r)
    ctrace = os.path.join(wd, "corrupt.ndjson")
    write_ndjson(ctrace, muts)
    ok, rejects, tr = validate_trace(D, "Trace_LinuxInventory", ctrace, cfg="Trace_LinuxInventory.cfg")
    print("selftest inventory: %d corrupted records, %d rejected" % (len(muts), len(rejects)))
    if len(rejects) != len(muts):
        bad += 1
    # masks
    open(os.path.join(wd, "mc.cfg"), "w").write("CONSTANTS WB = 3  MaxIns = 2\nSPECIFICATION Spec\nINVARIANT GenCase\nCHECK_DEADLOCK FALSE\n")
    g = tlc(D, "MC_CpuMask", cfg=os.path.join(wd, "mc.cfg"), workers=2)
    mc = [json.loads(x) for x in tlc_prints(g.out, "MCASE")][:100]
    write_ndjson(os.path.join(wd, "mcases.ndjson"), mc)
    mtrace = os.path.join(wd, "mtrace.ndjson")
    vlib.run_bin("h_cpus", ["masks", os.path.join(wd, "mcases.ndjson"), mtrace])
    recs = [r for r in read_ndjson(mtrace)]
    muts = []
    for i, r in enumerate(recs[:150]):
        r = json.loads(json.dumps(r))
        if r["op"] == "maskeq":
            r["eq"] = not r["eq"]
        elif i % 3 == 0:
            r["obs"]["words"] += 1
        elif i % 3 == 1:
            r["obs"]["bits"] = r["obs"]["bits"] + [5000]
        else:
            r["obs"]["ids"] = r["obs"]["ids"][1:] if r["obs"]["ids"] else [7]
        muts.append(r)
    cm = os.path.join(wd, "mcorrupt.ndjson")
    write_ndjson(cm, muts)
    ok, rejects, tr = validate_trace(D, "Trace_CpuMask", cm, cfg="Trace_CpuMask.cfg")
    print("selftest masks: %d corrupted records, %d rejected" % (len(muts), len(rejects)))
    if len(rejects) != len(muts):
        bad += 1
    print("selftest C11:", "FAILED" if bad else "ok")
    return 1 if bad else 0


def replay(path):
    rep = json.load(open(path))
    r = rep.get("replay", {})
    print(json.dumps({k: rep[k] for k in rep if k != "replay"}, indent=1))
    if r.get("part") == "inventory":
        vlib.cargo_build(["h_cpus"])
        wd = workdir(PID, "replay_run", clean=True)
        p = vlib.run_bin("h_cpus", ["inventory-show", json.dumps(r["record"]["d"])])
        print(p.stdout)
        write_ndjson(os.path.join(wd, "case.ndjson"), [r["record"]["d"]])
        trace = os.path.join(wd, "trace.ndjson")
        vlib.run_bin("h_cpus", ["inventory", os.path.join(wd, "case.ndjson"), trace])
        ok, rejects, tr = validate_trace(D, "Trace_LinuxInventory", trace, cfg="Trace_LinuxInventory.cfg")
        print("judge:", "accepted" if ok else "REJECTED " + json.dumps(rejects)[:600])
        return 0 if ok else 1
    print(json.dumps(r, indent=1)[:4000])
    return 0
