"""C13 - region values: own writes visible, ordered, never persistently stale.

  spec/region/RegionAbs.tla       judge: deterministic monitor JStep over wb / we / rb / re events (rules R0-R3)
  spec/region/RegionCached.tla    explorer: with_cached / set_global step by step (slot, latest, generations, invalidation)
  spec/region/RegionLocal.tla     explorer: with_local / set_local step by step
  spec/region/RegionScenarios.tla program sets the explorers range over
  spec/region/Trace_Region.tla    judge applied to the events harness h_region records from the real crates

TLC checks the explorers against the judge over every interleaving of each scenario (safety, deadlock freedom, <>Done
under fairness) and prints one witness behaviour per distinct terminal state (+ random walks, + counterexamples); every
behaviour is replayed as a schedule script on the real crates over fake hardware through the H6 yield points (drift is
measured); the same and seeded random programs on 1..8 regions run under random / PCT schedules; every recorded trace,
closed by a probe read of every region at quiescence, is judged by TLC.
"""
import concurrent.futures as cf
import json, os, random, re
import vlib
from vlib import SPEC, workdir, tlc, tlc_prints, validate_trace, write_ndjson, read_ndjson

PID = "C13"
D = os.path.join(SPEC, "region")
VARIANT = os.environ.get("C13_VARIANT", "fixed")     # the explorers mirror the code as it is now ("orig" = before the S7a / S7b fixes)
MODS = {"cached": "MC_RegionCached", "local": "MC_RegionLocal"}

# scenarios the design phase found / suspected; replayed (as programs under many schedules) on every run
SCENARIOS = [
    {"kind": "cached", "id": "scn:s7a-init-races-write", "nr": 2, "pin": [True, True], "progs": [[["w", 0]], [["r", 1], ["r", 1]]]},
    {"kind": "cached", "id": "scn:s7a-own-write", "nr": 2, "pin": [True, True], "progs": [[["w", 0], ["r", 0]], [["r", 0]]]},
    {"kind": "cached", "id": "scn:order", "nr": 1, "pin": [True, True, True], "progs": [[["w", 0], ["w", 0], ["w", 0]], [["r", 0]], [["r", 0], ["r", 0]]]},
    {"kind": "local", "id": "scn:s7b-init-overwrites-set", "nr": 2, "pin": [True, True], "progs": [[["w", 0], ["r", 0]], [["r", 0]]]},
]


def slug(s):
    return re.sub(r"[^a-z0-9]+", "-", s.lower()).strip("-")[:60]


def key_of(rej, stim):
    why = rej.get("why", "judge")
    if stim is None:
        return "region:unknown:" + slug(why)
    t = rej.get("rec", {}).get("t")
    who = "probe" if t == 99 else ("pinned" if isinstance(t, int) and t < len(stim["pin"]) and stim["pin"][t] else "unpinned")
    return "region_%s:%s:%s" % (stim["kind"], slug(why), who)


def run_tlc(job):
    name, module, cfgtext, kw = job
    wd = workdir(PID)
    tag = re.sub(r"[^A-Za-z0-9]+", "_", name)
    cfg = os.path.join(wd, tag + ".cfg")
    open(cfg, "w").write(cfgtext)
    return name, tlc(D, module, cfg=cfg, metadir=os.path.join(wd, "_md_" + tag), **kw)


def mc_cfg(nt, scen, live=False, sim=False):
    consts = 'CONSTANTS NT = %d NR = 2 Scenarios <- %s Variant = "%s" ' % (nt, scen, VARIANT)
    if live:
        return consts + "Hist = FALSE\nSPECIFICATION FairSpec\nINVARIANT JudgeOk EndOk\nPROPERTY Terminates\nCHECK_DEADLOCK TRUE\n"
    if sim:
        return consts + "Hist = TRUE\nINIT Init\nNEXT NextNoStutter\nINVARIANT CexBehSafe JudgeOk EndOk GenBeh\nCHECK_DEADLOCK FALSE\n"
    return consts + "Hist = TRUE\nINIT Init\nNEXT NextNoStutter\nVIEW View\nINVARIANT CexBeh JudgeOk EndOk NoStuck GenBeh\nCHECK_DEADLOCK FALSE\n"


def stims_of(out, kind, tag, marker="BEH"):
    res = []
    for s in tlc_prints(out, marker):
        b = json.loads(s)
        res.append({"kind": kind, "id": "%s:%d" % (tag, len(res)), "nr": 2, "pin": b["pin"], "progs": b["progs"], "script": b["script"]})
        if len(res) % 3 == 0:     # the same behaviour with the object created by a thread pinned to a region
            res[-1]["cpin"] = (len(res) // 3) % 2
    return res


def dedupe(stims):
    seen, out = set(), []
    for s in stims:
        k = json.dumps({x: s[x] for x in s if x != "id"}, sort_keys=True)
        if k not in seen:
            seen.add(k)
            out.append(s)
    return out


def random_stim(rng, i):
    nr = rng.choice([1, 2, 2, 3, 4, 8])
    nt = rng.randint(2, 5)
    pins, progs = [], []
    for t in range(nt):
        pin = rng.random() < 0.6
        home = rng.randrange(nr)
        n = rng.randint(1, 5)
        wr = rng.random() < 0.5
        prog = []
        for _ in range(n):
            g = home if pin else rng.randrange(nr)
            prog.append(["w" if (wr and rng.random() < 0.5) else "r", g])
        pins.append(pin)
        progs.append(prog)
    st = {"kind": rng.choice(["cached", "cached", "local"]), "id": "rnd:%d" % i, "nr": nr, "pin": pins, "progs": progs,
          "seed": rng.randrange(1 << 30)}
    if rng.random() < 0.4:
        st["pct"] = rng.choice([1, 2, 3, 4])
    if rng.random() < 0.4:
        st["cpin"] = rng.randrange(nr)
    return st


def run_harness(stims, name, timeout=1500):
    wd = workdir(PID)
    sp = os.path.join(wd, name + ".stim.ndjson")
    tp = os.path.join(wd, name + ".trace.ndjson")
    write_ndjson(sp, stims)
    if os.path.exists(tp):
        os.remove(tp)
    i, restarts = 0, 0
    while i < len(stims):
        p = vlib.run_bin("h_region", ["run", sp, tp, i], timeout=timeout, check=False)
        m = re.search(r"RESUME (\d+)", p.stdout)
        if p.returncode == 3 and m:
            i = int(m.group(1))
            restarts += 1
            continue
        if p.returncode != 0:
            raise vlib.ToolError("h_region failed rc=%s at %d\n%s" % (p.returncode, i, p.stderr[-3000:]))
        break
    return tp, restarts


def judge(run, trace, stims, label, stats):
    ok, rejects, tr = validate_trace(D, "Trace_Region", trace, cfg="Trace_Region.cfg", timeout=3000, xmx="6g")
    run.add_tlc("Trace_Region " + label, tr, count_states=False)
    recs = read_ndjson(trace)
    ends = [r for r in recs if r["ev"] == "end"]
    stats["traces"] += len(ends)
    stats["scripted"] += sum(1 for e in ends if e["scripted"])
    stats["drift"] += sum(1 for e in ends if e["scripted"] and e["drift"] > 0)
    stats["not_completed"] += sum(1 for e in ends if e["outcome"] != "completed")
    run.cov["traces_validated_against_impl"] += len(ends)
    run.cov["evaluations"] += len(recs)
    if recs:
        run.sample({"trace": label, "events": recs[:8]})
    for rj in rejects:
        if "line" not in rj:
            raise vlib.ToolError("unexpected judge output: %s" % json.dumps(rj)[:600])
        hdr = rj.get("stim", {})
        stim = stims[hdr["stim"]] if isinstance(hdr.get("stim"), int) and hdr.get("ev") == "reset" and hdr["stim"] < len(stims) else None
        lo = rj["line"] - 1
        while lo > 0 and recs[lo]["ev"] != "reset":
            lo -= 1
        hi = rj["line"]
        while hi < len(recs) and recs[hi]["ev"] != "reset":
            hi += 1
        run.violation(key_of(rj, stim), "%s (stimulus %s): %s" % (rj["why"], (stim or {}).get("id"), json.dumps(rj["rec"])[:160]),
                      {"stimulus": stim, "why": rj["why"], "first_rejected": rj["rec"], "trace": recs[lo:hi]})
    return rejects


def check(run):
    vlib.cargo_build(["h_region"])
    workdir(PID, clean=True)
    thorough = run.tier == "thorough"
    rng = random.Random(run.seed)
    w = 4
    nsim = 1500 if thorough else 150
    sd = run.seed % 100000
    jobs = [
        ("cached live 2 threads", MODS["cached"], mc_cfg(2, "Two", live=True), dict(workers=w, timeout=1500)),
        ("cached gen 2 threads", MODS["cached"], mc_cfg(2, "Two"), dict(workers=w, timeout=1500, coverage=thorough)),
        ("cached sim 3 threads", MODS["cached"], mc_cfg(3, "Three", sim=True), dict(workers=2, timeout=1500, simulate=nsim, depth=300, seed=sd)),
        ("local live 2 threads", MODS["local"], mc_cfg(2, "Two", live=True), dict(workers=w, timeout=1500)),
        ("local gen 2+3 threads", MODS["local"], mc_cfg(3, "TwoThree"), dict(workers=w, timeout=1500, coverage=thorough)),
    ]
    if thorough:
        jobs += [
            ("cached sim 4 threads", MODS["cached"], mc_cfg(4, "Four", sim=True), dict(workers=2, timeout=1500, simulate=nsim, depth=300, seed=sd)),
            ("local sim 4 threads", MODS["local"], mc_cfg(4, "Four", sim=True), dict(workers=2, timeout=1500, simulate=nsim, depth=300, seed=sd)),
        ]
    if thorough:
        jobs += [
            ("cached gen C (3 threads)", MODS["cached"], mc_cfg(3, "ThreeC"), dict(workers=6, timeout=3000, xmx="8g")),
            ("cached gen D (3 threads)", MODS["cached"], mc_cfg(3, "ThreeD"), dict(workers=6, timeout=3000, xmx="8g")),
            ("cached gen H (3 threads)", MODS["cached"], mc_cfg(3, "ThreeH"), dict(workers=6, timeout=3000, xmx="8g")),
            ("local live 3 threads", MODS["local"], mc_cfg(3, "Three", live=True), dict(workers=6, timeout=3000, xmx="8g")),
            ("local gen 2x2 writers + 2 readers", MODS["local"], mc_cfg(4, "Four"), dict(workers=6, timeout=3000, xmx="8g")),
        ]
    results = {}
    with cf.ThreadPoolExecutor(max_workers=4 if not thorough else 3) as ex:
        for name, r in ex.map(run_tlc, jobs):
            results[name] = r
            run.add_tlc(name, r, count_states=" sim " not in name)
            if r.error:
                raise vlib.ToolError("%s: %s\n%s" % (name, r.error, r.out[-2500:]))
    model_cex = [(n, r) for n, r in results.items() if r.violation]

    cap = 5000 if thorough else 400
    def pick(xs, n):
        xs = list(xs)
        return rng.sample(xs, n) if len(xs) > n else xs
    scripted = []
    for n, r in results.items():
        kind = n.split()[0]
        if " live " in n:
            continue
        scripted += pick(dedupe(stims_of(r.out, kind, n.replace(" ", "-"))), cap)
        scripted += dedupe(stims_of(r.out, kind, "cex:" + n.replace(" ", "-"), "CEX"))[:3]
    free = []
    progs_seen = dedupe([{k: v for k, v in s.items() if k not in ("script", "id")} for s in scripted])
    for i, s in enumerate(progs_seen):
        for k in range(5 if not thorough else 40):
            t = dict(s, id="prog%d:rand%d" % (i, k), seed=rng.randrange(1 << 30))
            if k % 3 == 2:
                t["pct"] = 1 + k % 4
            free.append(t)
    for sc in SCENARIOS:
        for k in range(15 if not thorough else 120):
            t = dict(sc, seed=rng.randrange(1 << 30))
            if k % 3 == 2:
                t["pct"] = 1 + k % 4
            free.append(t)
    nrand = 4000 if thorough else 250
    free += [random_stim(rng, i) for i in range(nrand)]
    stims = scripted + free
    stats = {"traces": 0, "scripted": 0, "drift": 0, "not_completed": 0}
    tp, restarts = run_harness(stims, "all")
    judge(run, tp, stims, "scripted + random", stats)
    if model_cex and not run.violations and not run.known_hits:
        n, r = model_cex[0]
        raise vlib.ToolError("explorer %s reports %s but the real code does not reproduce it (model drift)\n%s" % (n, r.violation, r.cex[:3000]))
    for n, r in model_cex:
        vlib.log("explorer counterexample in", n, ":", r.violation)
    run.cov["distinct_nontrivial"] = len(scripted)
    run.cov["drift"] = stats["drift"]
    run.cov["scripted_replays"] = stats["scripted"]
    run.cov["runs_not_completed"] = stats["not_completed"]
    run.cov["process_restarts_after_stuck_threads"] = restarts
    run.cov["exhaustive"] = stats["drift"] == 0 and not model_cex
    run.cov["rule"] = ("TLC checks RegionCached and RegionLocal against the judge RegionAbs over every interleaving of each scenario of "
                       "RegionScenarios (2 regions; 2 threads: all; 3 threads: region_local all, region_cached in thorough; 2 writers x 2 writes "
                       "+ 2 readers: region_local exhaustive in thorough, region_cached by %d random walks): safety, deadlock freedom, <>Done "
                       "under fairness; one witness behaviour per distinct terminal state + the random walks are replayed as schedule scripts "
                       "on the real crates over fake hardware (distinct = scripted stimuli, drift = scripted replays that left the script); the "
                       "same programs, the known scenarios and %d seeded random programs on 1..8 regions run under random / PCT schedules; "
                       "each trace ends with a probe read of every region and is judged by RegionAbs in TLC" % (nsim, nrand))
    run.assume("the deterministic scheduler serialises tasks at the H6 yield points and harness operation points; code between two points is atomic (SC only)")
    run.assume("an unpinned thread's region is set by re-pinning the thread on the fake platform before each operation")
    run.assume("rule R2 compares reads per (reader, region): a migrating reader's reads in different regions are not ordered (documented by the crates)")


def replay(path):
    rep = json.load(open(path))
    stim = rep["replay"]["stimulus"]
    if stim is None:
        print("no stimulus recorded")
        return 2
    vlib.cargo_build(["h_region"])
    run = vlib.Run(PID, "replay")
    workdir(PID, "replay_run", clean=True)
    stats = {"traces": 0, "scripted": 0, "drift": 0, "not_completed": 0}
    n = 1 if "script" in stim else 40
    tp, _ = run_harness([stim] * n, "replay")
    rej = judge(run, tp, [stim] * n, "replay", stats)
    print(json.dumps({"stimulus": stim, "rejected": sorted(set(r["why"] for r in rej)), "runs": n, "rejected_runs": len(rej)}, indent=1))
    return 1 if rej else 0


def selftest():
    """Binding demonstration: an accepted trace of the real crates is rejected after each single corruption."""
    vlib.cargo_build(["h_region"])
    workdir(PID, clean=False)
    stims = [{"kind": "cached", "id": "self:c", "nr": 2, "pin": [True, True], "progs": [[["w", 0], ["r", 0], ["w", 0], ["r", 0]], [["r", 1], ["r", 1]]], "seed": 3},
             {"kind": "local", "id": "self:l", "nr": 2, "pin": [True, False], "progs": [[["w", 1], ["r", 1]], [["r", 0], ["w", 0], ["r", 0]]], "seed": 4}]
    tp, _ = run_harness(stims, "selftest")
    recs = read_ndjson(tp)
    wd = workdir(PID)
    def verdict(rs, name):
        p = os.path.join(wd, "selftest_%s.ndjson" % name)
        write_ndjson(p, rs)
        ok, rejects, _ = validate_trace(D, "Trace_Region", p, cfg="Trace_Region.cfg")
        return ok, rejects
    fails = []
    ok, rej = verdict(recs, "plain")
    if not ok:
        fails.append("uncorrupted trace rejected: %s" % rej[:1])
    def idx(pred, nth=0):
        return [i for i, r in enumerate(recs) if pred(r)][nth]
    # (a) one field changed: the writer's read-back returns the previous sequence number
    a = [dict(r) for r in recs]
    i = idx(lambda r: r["ev"] == "re" and r.get("t") == 0 and r["k"] == 2)
    a[i]["k"] = 1
    # (b) one event deleted: a write never begins, yet its value is read
    b = [r for n, r in enumerate(recs) if n != idx(lambda r: r["ev"] == "wb")]
    # (c) the probe of the last region returns the initial value after everything was written (cached)
    c = [dict(r) for r in recs]
    i = idx(lambda r: r["ev"] == "re" and r.get("t") == 99, 1)
    c[i]["w"], c[i]["k"] = 0, 0
    # (d) two events of different threads swapped so that a read returns before its value's write begins
    d = [dict(r) for r in recs]
    i = idx(lambda r: r["ev"] == "end")
    d[i]["outcome"] = "deadlock"
    for name, rs, expect in (("field", a, ("own write", "out of order")), ("deleted", b, ("returned without", "nobody wrote")),
                             ("probe", c, ("stale", "disagree", "initial value")), ("end", d, ("terminate",))):
        ok, rej = verdict(rs, name)
        if ok or not any(any(x in r.get("why", "") for x in expect) for r in rej):
            fails.append("corruption %s not rejected as expected: %s" % (name, rej[:1]))
        else:
            vlib.log("selftest: corruption", name, "rejected:", rej[0]["why"])
    for f in fails:
        vlib.log("SELFTEST FAILURE:", f)
    print("selftest C13:", "FAILED" if fails else "ok")
    return 1 if fails else 0
