"""C08 — reset events are linearizable: no signal lost, duplicated or delivered to two.

  spec/lib/LinMonitor.tla        linearizability as a state variable (configuration set), generic
  spec/reset/ResetEventAbs.tla   JUDGE: sequential auto-reset / manual-reset specifications (+ wake obligations)
  spec/reset/AutoResetImpl.tla   EXPLORER auto.rs     one action per atomic step / mutex acquisition
  spec/reset/ManualResetImpl.tla EXPLORER manual.rs
  spec/reset/LocalResetImpl.tla  EXPLORER local_auto.rs / local_manual.rs (call stack, re-entrant wakers)
  spec/reset/AwaiterSet.tla      EXPLORER set.rs + awaiter.rs (pointer level) against AwaiterSeq / AwaiterSetAbs
  spec/reset/Trace_ResetEvent    judge applied to invocation/response/wake histories recorded from the real events
  spec/reset/Trace_{Auto,Manual}Step  step-level conformance of recorded atomic steps to the explorers (fidelity) and
                                 the measured memory-ordering table
  spec/reset/Trace_AwaiterSet    judge applied to AwaiterSet API records
  harness/h_reset                threads (deterministic scheduler, hook H3), local (re-entrant wakers), awset
"""
import json, os, random, re
import vlib
from vlib import SPEC, workdir, tlc, tlc_prints, validate_trace, write_ndjson, read_ndjson

PID = "C08"
D = os.path.join(SPEC, "reset")
LABELS = json.load(open(os.path.join(D, "labels.json")))          # kind -> label -> [loc, shim op, api op]
START = {"auto": {"s_cas": "set", "t_fa": "try", "p_try1": "poll", "d_isreg": "drop"},
         "manual": {"m_ld": "set", "r_fa": "reset", "y_ld": "try", "q_ld1": "poll", "e_isreg": "drop"}}
MOD = {"auto": "Auto", "manual": "Manual"}
TIDX = {"t1": 0, "t2": 1, "t3": 2}
HDR = "CONSTANTS t1 = t1 t2 = t2 t3 = t3\n"
INVS = "INVARIANT TypeOK Linearizable HwInv ListOk NoLostSignal QuiescentRefines\nCHECK_DEADLOCK FALSE\n"


def point_name(kind, label):
    loc, op, _ = LABELS[kind][label]
    return "lock" if loc == "mutex" else "%s.%s" % (loc, op)


# ------------------------------------------------------------------------------------------------- explorers

def run_explorer(run, wd, kind, name, threads, menu, maxops, workers=12, timeout=2400, gen=None, coverage=False,
                 simulate=None, seed=None):
    """TLC on an event explorer.  gen = None | "GenAll" | "GenFinal": use the generator module (history variable
    hidden by VIEW) so that the same run also yields schedules."""
    cfg = os.path.join(wd, "mc_%s_%s.cfg" % (kind, name))
    consts = "CONSTANTS Threads = {%s}  MaxOps = %d  Menu <- %s\n" % (", ".join(threads), maxops, menu)
    if gen:
        body = "INIT GInit\nNEXT GNext\nVIEW GView\n" + INVS.replace("INVARIANT ", "INVARIANT %s " % gen)
        mod = "MCG_%sReset" % MOD[kind]
    else:
        body = "SPECIFICATION Spec\n" + INVS
        mod = "MC_%sReset" % MOD[kind]
    open(cfg, "w").write(HDR + consts + body)
    r = tlc(D, mod, cfg=cfg, workers=(1 if simulate else workers), timeout=timeout, xmx="12g", coverage=coverage,
            simulate=simulate, seed=seed, depth=(80 if simulate else None))
    label = "%sResetImpl %s (%d thr x %d ops, %s%s)" % (MOD[kind], name, len(threads), maxops, menu,
                                                         ", simulate %d" % simulate if simulate else "")
    run.add_tlc(label, r, count_states=not simulate)
    if r.error:
        raise vlib.ToolError("%s: %s\n%s" % (label, r.error, r.out[-2500:]))
    if r.violation:
        # a counterexample on the explorer: verdict rule (ii) -- it counts only if the real code reproduces it
        cex = [(m.group(1), m.group(2)) for m in re.finditer(r'Act\((t\d),"(\w+)"\)', r.cex)]
        return r, cex
    return r, None


def schedules(out):
    res = []
    for s in tlc_prints(out, "SCHED"):
        h = json.loads(s)
        res.append([tuple(e) for e in h])
    return res


def leaves(hists):
    keys = set(tuple(h) for h in hists)
    pref = set()
    for k in keys:
        for n in range(1, len(k)):
            pref.add(k[:n])
    out = sorted(k for k in keys if k not in pref)
    return [list(k) for k in out]


def stim_from_hist(kind, hist, sid, seed):
    """A TLC behaviour (sequence of (thread, label)) -> programs + Script for h_reset threads."""
    n = 1 + max(TIDX[e[0]] for e in hist)
    progs = [[] for _ in range(max(n, 2))]
    sched = []
    higher = []                      # (lower, higher) address constraints from notifications that had a choice
    for e in hist:
        t, lab = e[0], e[1]
        ti = TIDX[t]
        if lab in START[kind]:
            progs[ti].append(START[kind][lab])
        sched.append([ti, point_name(kind, lab)])
        if len(e) == 5 and e[3] != e[4]:
            picked, other = e[2], (e[4] if e[2] == e[3] else e[3])
            higher.append((TIDX[other] + 1, TIDX[picked] + 1))
    # wait ids from the lowest to the highest address: a topological order of the constraints (first ones win)
    order, edges = [], []
    for lo, hi in higher:
        if (hi, lo) not in _closure(edges):
            edges.append((lo, hi))
    nodes = list(range(1, max(n, 2) + 1))
    while nodes:
        free = [x for x in nodes if not any(lo in nodes and hi == x for lo, hi in edges)]
        x = free[0] if free else nodes[0]
        order.append(x)
        nodes.remove(x)
    return {"id": sid, "kind": kind, "storage": "boxed" if sid % 2 == 0 else "embedded", "progs": progs,
            "strategy": "script", "sched": sched, "order": order, "seed": seed + sid, "steps": True, "src": "tlc"}


def _closure(edges):
    c = set(edges)
    changed = True
    while changed:
        changed = False
        for a, b in list(c):
            for b2, d in list(c):
                if b == b2 and (a, d) not in c:
                    c.add((a, d))
                    changed = True
    return c


def random_stimuli(kind, n, seed, first):
    rng = random.Random(seed * 7919 + (1 if kind == "auto" else 2))
    ops = ["set", "try", "poll", "poll", "drop"] + (["reset"] if kind == "manual" else [])
    out = []
    for i in range(n):
        nt = rng.choice([2, 3, 3])
        progs = [[rng.choice(ops) for _ in range(rng.randint(1, 4))] for _ in range(nt)]
        strat = rng.choice(["random", "random", "pct"])
        out.append({"id": first + i, "kind": kind, "storage": rng.choice(["boxed", "embedded"]), "progs": progs,
                    "strategy": strat, "changes": rng.randint(1, 3), "seed": rng.randrange(1 << 30), "steps": i % 4 == 0,
                    "src": strat})
    return out


# --------------------------------------------------------------------------------------------------- harness

def split_runs(recs):
    runs, cur = [], None
    for r in recs:
        if r.get("ev") == "reset":
            cur = [r]
            runs.append(cur)
        elif cur is not None:
            cur.append(r)
    return runs


def history_of(run_recs):
    out = []
    for r in run_recs:
        ev = r["ev"]
        if ev == "reset":
            out.append({"ev": "reset", "kind": r["kind"]})
        elif ev == "inv":
            out.append({"ev": "inv", "p": r["p"], "op": r["op"], "w": r["w"], "k": r["k"]})
        elif ev == "resp":
            out.append({"ev": "resp", "p": r["p"], "v": r["v"]})
        elif ev == "wake":
            out.append({"ev": "wake", "p": r["p"], "w": r["w"], "k": r["k"]})
        elif ev == "end":
            out.append({"ev": "end", "outcome": r["outcome"]})
    return out


def steps_of(run_recs):
    """scheduling-point steps of the tasks (not the finale) + invocations, for Trace_*Step"""
    out = [{"ev": "reset"}]
    for r in run_recs[1:]:
        ev = r["ev"]
        if ev == "finale":
            break
        if ev == "inv":
            out.append({"ev": "inv", "p": r["p"], "op": r["op"]})
        elif ev == "step" and r["sp"]:
            out.append({k: r[k] for k in ("ev", "p", "loc", "op", "w", "obs", "wr", "ord", "ord2")})
    return out


def classify(mode, hist, idx):
    """key for the record hist[idx] the judge could not match"""
    r = hist[idx]
    kind = hist[0].get("kind", "?")
    if r["ev"] == "resp":
        op = "?"
        for q in reversed(hist[:idx]):
            if q["ev"] == "inv" and q["p"] == r["p"]:
                op = q["op"]
                break
        return "%s:%s:%s-returned-%s" % (mode, kind, op, r["v"])
    if r["ev"] == "end":
        return "%s:%s:run-%s" % (mode, kind, r.get("outcome"))
    return "%s:%s:%s" % (mode, kind, r["ev"])


def judge_histories(run, wd, name, groups, max_reports=6):
    """groups: [(mode, runs, stimuli)].  Validates the histories of all runs (lists of raw records) in ONE TLC run of
    Trace_ResetEvent.  The judge is stateful and stops at the first record it cannot match: that run is reported
    and removed, the rest is validated again."""
    hists, meta = [], []
    for mode, runs, stimuli in groups:
        for r in runs:
            hists.append(history_of(r))
            meta.append((mode, r, stimuli))
    alive = list(range(len(hists)))
    total = sum(len(h) for h in hists)
    reported = 0
    while alive:
        path = os.path.join(wd, "hist_%s.ndjson" % name)
        flat, owner = [], []
        for i in alive:
            flat.extend(hists[i])
            owner.extend([i] * len(hists[i]))
        write_ndjson(path, flat)
        ok, rejects, tr = validate_trace(D, "Trace_ResetEvent", path, cfg="Trace_ResetEvent.cfg", timeout=3000, xmx="6g")
        run.add_tlc("Trace_ResetEvent %s (%d records, %d histories)" % (name, len(flat), len(alive)), tr, count_states=False)
        if ok:
            break
        m = re.search(r'"TRACE-REJECTED", "matched", (\d+), "of"', tr.out)
        if not m:
            raise vlib.ToolError("Trace_ResetEvent %s: rejected without a position\n%s" % (name, tr.out[-3000:]))
        pos = int(m.group(1))            # records matched; flat[pos] is the first unmatched one
        i = owner[pos]
        start = owner.index(i)
        mode, raw, stimuli = meta[i]
        key = classify(mode, hists[i], pos - start)
        stim = None
        rid = raw[0].get("id")
        if stimuli is not None:
            stim = next((x for x in stimuli if x["id"] == rid), None)
        run.violation("reset:" + key,
                      "history recorded from the real %s event (%s) is not linearizable w.r.t. ResetEventAbs; first record no "
                      "sequential order explains: %s" % (hists[i][0].get("kind"), mode, json.dumps(flat[pos])),
                      {"mode": mode, "stimulus": stim, "history": hists[i], "first_unmatched_index": pos - start,
                       "first_unmatched": flat[pos], "raw": [x for x in raw if x["ev"] != "step"][:400]})
        reported += 1
        alive.remove(i)
        if reported >= max_reports:
            break
    run.cov["traces_validated_against_impl"] += len(hists)
    run.cov["evaluations"] += total
    return reported


def cover_first(label_sets):
    """ids ordered so that a short prefix covers every explorer label (greedy set cover), then the rest"""
    todo = set().union(*label_sets.values()) if label_sets else set()
    rest = dict(label_sets)
    order = []
    while todo and rest:
        best = max(rest, key=lambda i: len(rest[i] & todo))
        if not rest[best] & todo:
            break
        order.append(best)
        todo -= rest.pop(best)
    return order + list(rest)


def conformance(run, wd, kind, runs, cap, prefer=()):
    """Step-level validation of scripted and random runs against the explorer; returns (validated, nonconforming,
    ordering table label -> sorted list of "ord/ord2/write?")."""
    table = {}
    rank = {rid: i for i, rid in enumerate(prefer)}
    sel = [r for r in runs if r[0]["kind"] == kind and any(x["ev"] == "step" for x in r) and r[0].get("n", 9) <= 3
           and r[-1].get("outcome") == "completed"]
    sel.sort(key=lambda r: rank.get(r[0].get("id"), len(rank)))
    sel = sel[:cap]
    bad = 0
    done = 0
    alive = list(range(len(sel)))
    st = [steps_of(r) for r in sel]
    while alive:
        flat, owner = [], []
        for i in alive:
            flat.extend(st[i])
            owner.extend([i] * len(st[i]))
        path = os.path.join(wd, "steps_%s.ndjson" % kind)
        write_ndjson(path, flat)
        mod = "Trace_%sStep" % MOD[kind]
        ok, rejects, tr = validate_trace(D, mod, path, cfg=mod + ".cfg", timeout=3000, xmx="6g")
        run.add_tlc("%s (%d records)" % (mod, len(flat)), tr, count_states=False)
        for line in tr.out.splitlines():
            m = re.match(r'<<"SITE", "(\w+)", "(\w*)", "(\w*)", "(\w+)">>', line)
            if m:
                table.setdefault(m.group(1), set()).add((m.group(2), m.group(3), m.group(4)))
        if ok:
            done += len(alive)
            break
        m = re.search(r'"TRACE-REJECTED", "matched", (\d+), "of"', tr.out)
        if not m:
            raise vlib.ToolError("%s: rejected without a position\n%s" % (mod, tr.out[-3000:]))
        pos = int(m.group(1))
        i = owner[pos]
        done += alive.index(i)
        bad += 1
        run.cov.setdefault("nonconforming_samples", [])
        if len(run.cov["nonconforming_samples"]) < 3:
            run.cov["nonconforming_samples"].append({"kind": kind, "record": flat[pos], "run": sel[i][0].get("id")})
        alive = alive[alive.index(i) + 1:]
        if bad >= 5:
            break
    return done, bad, {k: sorted("/".join(x) for x in v) for k, v in sorted(table.items())}


def run_threads(wd, name, stimuli, timeout=3000, env=None):
    sp = os.path.join(wd, "stim_%s.ndjson" % name)
    op = os.path.join(wd, "out_%s.ndjson" % name)
    write_ndjson(sp, stimuli)
    vlib.run_bin("h_reset", ["threads", sp, op], timeout=timeout, env=env)
    return split_runs(read_ndjson(op))


def ordering_table_from_steps(runs):
    """site (file:line, location class, operation) -> orderings seen; independent of any model"""
    t = {}
    for r in runs:
        for x in r:
            if x["ev"] == "step":
                k = "%s:%s %s.%s" % (x.get("file", "?"), x.get("line"), x["loc"], x["op"])
                t.setdefault(k, set()).add(x["ord"] + ("/" + x["ord2"] if x["ord2"] else ""))
    return {k: sorted(v) for k, v in sorted(t.items())}


# ------------------------------------------------------------------------------------------------ the parts

def part_threads(run, wd, kind, thorough):
    """explorer(s) + schedule replay + random schedules for one thread-safe event kind; returns the recorded runs"""
    thr3 = ["t1", "t2", "t3"]
    stimuli = []
    cexes = []
    rng = random.Random(run.seed + (11 if kind == "auto" else 13))
    # role-based 3 x 2: checked and used as the state-cover generator in one run
    r, cex = run_explorer(run, wd, kind, "roles", thr3, "MenuRoles", 2, gen="GenAll")
    if cex:
        cexes.append(("roles", cex, r))
    hs = leaves(schedules(r.out))
    n_leaves = len(hs)
    cap = 2500 if thorough else 300
    if len(hs) > cap:
        hs = rng.sample(hs, cap)
    if thorough:
        # 2 threads, every call
        r2, cex2 = run_explorer(run, wd, kind, "two", ["t1", "t2"], "MenuFull", 2, gen="GenAll")
        if cex2:
            cexes.append(("two", cex2, r2))
        hs += leaves(schedules(r2.out))
        # the bound the property names: 3 threads x 2 calls, every call available to every thread
        r3, cex3 = run_explorer(run, wd, kind, "full", thr3, "MenuFull", 2, workers=12, timeout=2400)
        if cex3:
            cexes.append(("full", cex3, r3))
        r4, cex4 = run_explorer(run, wd, kind, "setters", thr3, "MenuSetters", 2, coverage=True)
        if cex4:
            cexes.append(("setters", cex4, r4))
        # random complete behaviours of the full menu (deeper than the state-cover prefixes)
        rs, _ = run_explorer(run, wd, kind, "sim", thr3, "MenuFull", 2, gen="GenFinal", simulate=800, seed=run.seed % 100000)
        hs += schedules(rs.out)
    sid = 1
    label_sets = {}
    for h in hs:
        stimuli.append(stim_from_hist(kind, h, sid, run.seed))
        label_sets[sid] = set(e[1] for e in h)
        sid += 1
    for name, cex, _ in cexes:
        st = stim_from_hist(kind, cex, sid, run.seed)
        st["src"] = "counterexample:" + name
        stimuli.append(st)
        sid += 1
    stimuli += random_stimuli(kind, 2000 if thorough else 250, run.seed, sid)
    runs = run_threads(wd, kind, stimuli)
    if len(runs) != len(stimuli):
        raise vlib.ToolError("h_reset threads: %d runs for %d stimuli" % (len(runs), len(stimuli)))
    # the same stimuli (a sample) with wakers that share their data pointer across the polls of one wait and differ in the
    # vtable only (Waker::will_wake is false between them, a comparison of data pointers is not)
    rs = random.Random(run.seed + 77)
    pool_ = [st for st in stimuli if sum(1 for p in st.get("progs", []) for o in p if "poll" in json.dumps(o)) >= 2] or stimuli
    extra = []
    for st in rs.sample(pool_, min(len(pool_), 600 if thorough else 120)):
        e = dict(st)
        e["id"] = sid
        e["wakers"] = "shared-data"
        sid += 1
        extra.append(e)
    runs_sh = run_threads(wd, kind + "_sharedwakers", extra, env={"H_RESET_WAKERS": "shared"})
    if len(runs_sh) != len(extra):
        raise vlib.ToolError("h_reset threads (shared-data wakers): %d runs for %d stimuli" % (len(runs_sh), len(extra)))
    runs += runs_sh
    stimuli += extra
    scripted = [r for r, st in zip(runs, stimuli) if st["strategy"] == "script"]
    drift = sum(1 for r in scripted if r[-1].get("drift", 0) > 0)
    hung = [r for r in runs if r[-1].get("outcome") != "completed"]
    done, bad, table = conformance(run, wd, kind, runs, 800 if thorough else 120, cover_first(label_sets))
    info = {"kind": kind, "stimuli": len(stimuli), "state_cover_leaves": n_leaves, "scripted": len(scripted),
            "scripted_runs_with_drift": drift, "runs_not_completed": len(hung), "step_validated_runs": done,
            "step_nonconforming_runs": bad, "ordering_table_by_label": table,
            "ordering_table_by_site": ordering_table_from_steps(runs)}
    if scripted:
        run.sample({"kind": kind, "stimulus": {k: stimuli[0][k] for k in ("progs", "sched", "storage", "order")},
                    "history": history_of(runs[0])[:30]})
    return info, len(hs), runs, stimuli, cexes


def part_local(run, wd, thorough):
    consts = ("NW = 2 MaxTop = 5 CbOps = 2 Depth = 2" if thorough else "NW = 2 MaxTop = 4 CbOps = 1 Depth = 1")
    stimuli = []
    sid = 1
    for kind in ("auto", "manual"):
        cfg = os.path.join(wd, "local_%s.cfg" % kind)
        open(cfg, "w").write('CONSTANTS Kind = "%s" %s\nINIT GInit\nNEXT GNext\nVIEW GView\n'
                             "INVARIANT GenLocal TypeOK Linearizable ListOk SetExcludesWaiters NoLostSignal QuiescentRefines\n"
                             "CHECK_DEADLOCK FALSE\n" % (kind, consts))
        r = tlc(D, "MC_LocalReset", cfg=cfg, workers=8, timeout=2400, xmx="8g", coverage=thorough)
        run.add_tlc("LocalResetImpl %s (%s)" % (kind, consts), r)
        if r.error:
            raise vlib.ToolError("LocalResetImpl %s: %s\n%s" % (kind, r.error, r.out[-2500:]))
        progs = [json.loads(s) for s in tlc_prints(r.out, "LOCALP")]
        if r.violation:
            raise vlib.ToolError("LocalResetImpl %s: %s (single-threaded model: a counterexample is replayed below only if "
                                 "it reaches a final state)\n%s" % (kind, r.violation, r.cex[:3000]))
        rng = random.Random(run.seed + 17)
        cap = 3000 if thorough else 350
        if len(progs) > cap:
            progs = rng.sample(progs, cap)
        for acts in progs:
            stimuli.append({"id": sid, "kind": kind, "storage": "boxed" if sid % 2 else "embedded", "nw": 2,
                            "acts": [{"e": a["e"], "p": a["p"], "op": a["op"], "w": a["w"]} for a in acts]})
            sid += 1
    n_model = len(stimuli)
    # seeded random programs with deeper re-entrancy than the model's bound
    rng = random.Random(run.seed + 19)
    for i in range(1500 if thorough else 150):
        kind = rng.choice(["auto", "manual"])
        ops = ["set", "try", "poll", "poll", "drop"] + (["reset"] if kind == "manual" else [])
        acts = []
        for _ in range(rng.randint(3, 9)):
            d = 1
            acts.append({"e": "opw", "p": 1, "op": rng.choice(ops), "w": rng.randint(1, 3)})
            # whatever the call wakes runs these nested calls (used only if a waker is really invoked)
            for _ in range(rng.randint(0, 2)):
                d = 2
                acts.append({"e": "opw", "p": 2, "op": rng.choice(ops), "w": rng.randint(1, 3)})
                if rng.random() < 0.3:
                    acts.append({"e": "opw", "p": 3, "op": rng.choice(ops), "w": rng.randint(1, 3)})
                    acts.append({"e": "cbret", "p": 3, "op": "", "w": 0})
            if d == 2:
                acts.append({"e": "cbret", "p": 2, "op": "", "w": 0})
        stimuli.append({"id": sid, "kind": kind, "storage": rng.choice(["boxed", "embedded"]), "nw": 3, "acts": acts})
        sid += 1
    sp = os.path.join(wd, "stim_local.ndjson")
    op = os.path.join(wd, "out_local.ndjson")
    write_ndjson(sp, stimuli)
    vlib.run_bin("h_reset", ["local", sp, op], timeout=3000)
    runs = split_runs(read_ndjson(op))
    if len(runs) != len(stimuli):
        raise vlib.ToolError("h_reset local: %d runs for %d stimuli" % (len(runs), len(stimuli)))
    drift = sum(1 for r in runs[:n_model] if r[-1].get("drift", 0) > 0)
    nested = sum(1 for r in runs if any(x.get("p", 0) >= 2 for x in r))
    return ({"stimuli": len(stimuli), "model_programs": n_model, "model_programs_with_skipped_calls": drift,
             "runs_with_reentrant_calls": nested}, runs, stimuli)


def part_awset(run, wd, thorough):
    cfg = os.path.join(wd, "awset.cfg")
    consts = "NodeCount = 3 MaxOpsS = %d MaxGen = 3" % (6 if thorough else 5)
    open(cfg, "w").write("CONSTANTS %s\nINIT GInit\nNEXT GNext\nVIEW GView\nACTION_CONSTRAINT EdgeWitness\n"
                         "INVARIANT TypeOK WellFormed GenMonotone Abstraction JudgeAccepts\nCHECK_DEADLOCK FALSE\n" % consts)
    r = tlc(D, "MC_AwaiterSet", cfg=cfg, workers=1, timeout=2400, xmx="8g", coverage=thorough)
    run.add_tlc("AwaiterSet (%s)" % consts, r)
    if r.error:
        raise vlib.ToolError("AwaiterSet: %s\n%s" % (r.error, r.out[-2500:]))
    if r.violation:
        raise vlib.ToolError("AwaiterSet explorer violates %s: the model of set.rs is wrong or set.rs changed\n%s"
                             % (r.violation, r.cex[:3000]))
    # one witness per explored transition (edge cover); keep those that are not a prefix of another one
    hists = leaves([tuple((o["op"], o["n"]) for o in json.loads(s)) for s in tlc_prints(r.out, "AWS")])
    hists = [[{"op": a, "n": b} for a, b in h] for h in hists]
    rng = random.Random(run.seed + 23)
    cap = 6000 if thorough else 700
    n_all = len(hists)
    if len(hists) > cap:
        hists = rng.sample(hists, cap)
    stim = [{"id": i, "nodes": 3, "ops": [{"op": o["op"], "n": o["n"] or 1} for o in h]} for i, h in enumerate(hists)]
    sp = os.path.join(wd, "stim_awset.ndjson")
    op = os.path.join(wd, "out_awset.ndjson")
    write_ndjson(sp, stim)
    p = vlib.run_bin("h_reset", ["awset", sp, op], timeout=3000)
    op2 = os.path.join(wd, "out_awset_random.ndjson")
    p2 = vlib.run_bin("h_reset", ["awset-random", op2, 600 if thorough else 80, 40, 4], env={"VERIF_SEED": run.seed}, timeout=3000)
    total = 0
    for name, path in (("edge-cover + random", op),):
        recs = read_ndjson(op) + read_ndjson(op2)
        # the judge stops at the first unmatched record: report it, cut the history it belongs to, go on
        reports = 0
        while True:
            write_ndjson(path, recs)
            ok, rejects, tr = validate_trace(D, "Trace_AwaiterSet", path, cfg="Trace_AwaiterSet.cfg", timeout=3000, xmx="6g")
            run.add_tlc("Trace_AwaiterSet %s (%d records)" % (name, len(recs)), tr, count_states=False)
            if ok:
                break
            m = re.search(r'"TRACE-REJECTED", "matched", (\d+), "of"', tr.out)
            if not m:
                raise vlib.ToolError("Trace_AwaiterSet: rejected without a position\n%s" % tr.out[-3000:])
            pos = int(m.group(1))
            a = max(i for i in range(pos + 1) if recs[i].get("ev") == "reset")
            b = next((i for i in range(pos + 1, len(recs)) if recs[i].get("ev") == "reset"), len(recs))
            bad = recs[pos]
            run.violation("awaiter_set:%s:%s" % (bad.get("op", "?"), "panic" if "panic" in bad else "result-or-observation"),
                          "AwaiterSet record not allowed by AwaiterSetAbs: " + json.dumps(bad)[:300],
                          {"history": recs[a:b], "first_unmatched_index": pos - a})
            recs = recs[:a] + recs[b:]
            reports += 1
            if reports >= 4:
                break
        total += len(recs)
    run.cov["traces_validated_against_impl"] += len(stim) + (600 if thorough else 80)
    run.cov["evaluations"] += total
    return {"edge_witnesses": n_all, "replayed": len(stim), "harness": json.loads(p.stdout.strip().splitlines()[-1]),
            "random": json.loads(p2.stdout.strip().splitlines()[-1])}


def check(run):
    vlib.cargo_build(["h_reset"])
    wd = workdir(PID, clean=True)
    thorough = run.tier == "thorough"
    info = {}
    distinct = 0
    groups = []
    allcex = []
    # the list first: if the real AwaiterSet does not meet its contract the event-level runs may corrupt memory
    info["awaiter_set"] = part_awset(run, wd, thorough)
    if run.violations:
        run.cov["c08"] = info
        run.cov["rule"] = "stopped after AwaiterSet violated its contract (event-level parts not run)"
        return
    for kind in ("auto", "manual"):
        info[kind], n, runs, stimuli, cexes = part_threads(run, wd, kind, thorough)
        distinct += n
        groups.append(("threads", runs, stimuli))
        allcex += [(kind, c) for c in cexes]
    info["local"], lruns, lstim = part_local(run, wd, thorough)
    groups.append(("local", lruns, lstim))
    before = len(run.violations) + len(run.known_hits)
    judge_histories(run, wd, "all", groups)
    found = len(run.violations) + len(run.known_hits) - before
    for kind, (name, cex, r) in allcex:
        if not found:
            raise vlib.ToolError("explorer %s %s reports %s but the real code does not reproduce it (model drift)\n%s"
                                 % (kind, name, r.violation, r.cex[:3000]))
    info["weak_memory"] = part_wmm(run, wd, info, thorough)
    run.cov["c08"] = info
    run.cov["distinct_nontrivial"] = distinct + info["local"]["stimuli"] + info["awaiter_set"]["replayed"]
    drift = info["auto"]["scripted_runs_with_drift"] + info["manual"]["scripted_runs_with_drift"]
    nonconf = info["auto"]["step_nonconforming_runs"] + info["manual"]["step_nonconforming_runs"]
    run.cov["drift"] = drift
    run.cov["exhaustive"] = bool(thorough and drift == 0 and nonconf == 0)
    run.cov["rule"] = ("TLC checks the explorers of auto.rs / manual.rs (one action per atomic step, LinMonitor over ResetEventAbs as "
                       "a state variable) for all interleavings in the stated bounds; one schedule per reachable state (state cover, "
                       "leaves), simulated complete behaviours and seeded random/PCT schedules are executed on the real boxed and "
                       "embedded events under the deterministic scheduler; every recorded invocation/response/wake history incl. "
                       "quiescent probes is judged by TLC; single-threaded variants through all re-entrant programs of the call-stack "
                       "explorer; AwaiterSet through an edge cover of its pointer-level explorer. distinct = schedules + programs + "
                       "AwaiterSet histories replayed. exhaustive only in thorough (3 threads x 2 calls, every call) with zero drift.")
    run.assume("the deterministic scheduler serialises tasks at the hook's scheduling points: executions are sequentially consistent "
               "(weak-memory outcomes are decided on the RC11 model with the measured ordering table, not observed)")
    run.assume("a wait future is polled by one task at a time and not polled again after Ready (the Future contract)")
    run.assume("Relaxed loads of the awaiter lifecycle byte are not scheduling points (owner-only, under the mutex)")


ORDNAME = {"Relaxed": "rlx", "Acquire": "acq", "Release": "rel", "AcqRel": "acqrel", "SeqCst": "sc"}
CAS_LABELS = {"s_cas", "p_tn1", "p_tn2", "m_cas", "q_tn1", "q_tn2"}
WMM_SITES = {
    "auto": ["s_cas_ok", "s_cas_fail", "s_load", "s_store", "s_notify", "s_clr", "t_fa", "p_try1", "p_tn1_ok", "p_tn1_fail",
             "p_tn2_ok", "p_tn2_fail", "p_try2", "p_or", "p_try3", "p_reg", "p_clr", "d_isreg", "d_isnot", "d_unreg", "d_clr",
             "d_store", "d_notify"],
    "manual": ["m_ld", "m_cas_ok", "m_cas_fail", "m_pub", "m_notify", "m_clr", "m_clrend", "r_fa", "y_ld", "q_ld1", "q_tn1_ok",
               "q_tn1_fail", "q_tn2_ok", "q_tn2_fail", "q_ld2", "q_or", "q_ld3", "q_reg", "q_clr", "e_isreg", "e_unreg", "e_clr"],
}


def measured_sites(kind, by_label):
    """explorer label -> orderings logged by the shim  ==>  Ord[site] of the weak-memory explorer"""
    out, unmeasured = {}, []
    for site in WMM_SITES[kind]:
        lab = site[:-3] if site.endswith("_ok") else site[:-5] if site.endswith("_fail") else site
        obs = by_label.get(lab)
        if not obs:
            unmeasured.append(site)
            continue
        pairs = set(tuple(x.split("/")[:2]) for x in obs)
        if len(pairs) != 1:
            raise vlib.ToolError("site %s executed with several orderings: %s" % (lab, sorted(pairs)))
        o1, o2 = pairs.pop()
        out[site] = ORDNAME[o2 if site.endswith("_fail") else o1]
    return out, unmeasured


def part_wmm(run, wd, info, thorough):
    """Weak memory (DESIGN 3.1): the RC11 explorers AutoResetWmm / ManualResetWmm checked by TLC with the ordering of every
    atomic operation taken from the orderings the instrumented code logged (table label -> ordering produced by the
    step-level trace validation).  A violation here is verdict rule (iii): the only code-dependent input of the model is
    the measured table."""
    res = {}
    for kind in ("auto", "manual"):
        table, unmeasured = measured_sites(kind, info[kind]["ordering_table_by_label"])
        mod = "MC_%sResetWmm" % MOD[kind]
        mname = "MC_%sWmmMeasured_%s" % (MOD[kind], run.tier)
        body = " [] ".join('s = "%s" -> "%s"' % (k, v) for k, v in sorted(table.items()))
        mpath = os.path.join(D, mname + ".tla")
        open(mpath, "w").write("---- MODULE %s ----\nEXTENDS %s\nOrdMeasured == [s \\in Sites |-> CASE %s [] OTHER -> OrdAsBuilt[s]]\n====\n"
                               % (mname, mod, body))
        runs = [("2 threads x 2 calls, every call", "{t1, t2}", "MenuFull")]
        if thorough:
            runs.append(("3 threads x 2 calls, one setter two waiters", "{t1, t2, t3}", "MenuPair"))
        res[kind] = {"table": table, "unmeasured_sites_as_built": unmeasured, "runs": []}
        try:
            for name, thr, menu in runs:
                cfg = os.path.join(wd, "wmm_%s_%s.cfg" % (kind, menu))
                invs = "NoRace ListOk HwInv NoLostSignal" + (" StaleUnregister" if kind == "auto" else "")
                open(cfg, "w").write("CONSTANTS t1 = t1 t2 = t2 t3 = t3 None = None\nCONSTANTS Threads = %s  MaxOps = 2  Menu <- %s  "
                                     "SC = FALSE  Ord <- OrdMeasured\nSPECIFICATION Spec\nINVARIANT %s\nCHECK_DEADLOCK FALSE\n"
                                     % (thr, menu, invs))
                r = tlc(D, mname, cfg=cfg, workers=12, timeout=2400, xmx="12g")
                run.add_tlc("%sResetWmm RC11, measured orderings (%s)" % (MOD[kind], name), r)
                if r.error:
                    raise vlib.ToolError("%sResetWmm: %s\n%s" % (MOD[kind], r.error, r.out[-2500:]))
                res[kind]["runs"].append({"name": name, "distinct": r.distinct, "result": r.violation or "ok"})
                if r.violation:
                    inv = r.violation.replace("invariant ", "")
                    run.violation("wmm:%s:%s" % (kind, inv),
                                  "RC11 model of the %s-reset event with the orderings measured from the code violates %s" % (kind, inv),
                                  {"mode": "wmm", "kind": kind, "ordering_table": table, "counterexample": r.cex[:12000]})
                    break
        finally:
            try:
                os.remove(mpath)
            except OSError:
                pass
    res["status"] = "checked"
    res["assumed"] = "std::sync::Mutex lock = acquire, unlock = release (not measured: the shim reports them as such)"
    return res


# ---------------------------------------------------------------------------------------------------------
def replay(path):
    rep = json.load(open(path))
    r = rep["replay"]
    wd = workdir(PID, "replay_run", clean=True)
    if r.get("mode") == "wmm":
        print(json.dumps(r["ordering_table"], indent=1))
        print(r["counterexample"])
        print("REJECTED: RC11 model with this measured ordering table violates its invariant (%s)" % rep["key"])
        return 1
    vlib.cargo_build(["h_reset"])
    if r.get("mode") in ("threads", "local") and r.get("stimulus"):
        sp = os.path.join(wd, "stim.ndjson")
        op = os.path.join(wd, "out.ndjson")
        write_ndjson(sp, [r["stimulus"]])
        vlib.run_bin("h_reset", [r["mode"], sp, op], timeout=600)
        hist = history_of(split_runs(read_ndjson(op))[0])
    else:
        hist = r.get("history")
        if hist and "op" in hist[-1] and "ev" not in hist[-1]:
            tp = os.path.join(wd, "awset.ndjson")
            write_ndjson(tp, hist)
            ok, rejects, tr = validate_trace(D, "Trace_AwaiterSet", tp, cfg="Trace_AwaiterSet.cfg")
            print("accepted" if ok else "REJECTED: " + json.dumps(rejects)[:500])
            return 0 if ok else 1
    tp = os.path.join(wd, "hist.ndjson")
    write_ndjson(tp, hist)
    ok, rejects, tr = validate_trace(D, "Trace_ResetEvent", tp, cfg="Trace_ResetEvent.cfg")
    for h in hist:
        print(json.dumps(h))
    print("accepted" if ok else "REJECTED at: " + json.dumps(rejects)[:500])
    return 0 if ok else 1


def selftest():
    """Corrupted-trace tests: an accepted history of the real code must be rejected when one field is changed, one
    event is deleted, or two ordered events of different threads are swapped."""
    wd = workdir(PID, "selftest", clean=True)
    vlib.cargo_build(["h_reset"])
    stim = [{"id": 1, "kind": "auto", "storage": "boxed", "progs": [["poll", "poll"], ["set"], ["try"]], "strategy": "script",
             "sched": [[0, "state.fetch_and"], [0, "lc.cas"], [0, "lock"], [0, "lc.cas"], [0, "state.fetch_and"],
                       [0, "state.fetch_or"], [0, "state.fetch_and"], [0, "lc.store"], [1, "state.cas"], [1, "state.load"],
                       [1, "lock"], [1, "lc.store"], [1, "state.fetch_and"], [2, "state.fetch_and"], [0, "state.fetch_and"],
                       [0, "lc.cas"]], "seed": 1, "steps": True}]
    runs = run_threads(wd, "selftest", stim)
    good = history_of(runs[0])
    failures = []

    def verdict(name, hist, expect_ok):
        p = os.path.join(wd, name + ".ndjson")
        write_ndjson(p, hist)
        ok, rejects, tr = validate_trace(D, "Trace_ResetEvent", p, cfg="Trace_ResetEvent.cfg")
        print("%-28s %s" % (name, "accepted" if ok else "rejected at " + json.dumps(rejects)[:160]))
        if ok != expect_ok:
            failures.append(name)

    verdict("recorded", good, True)
    # (a) one field: the second poll of wait 1 (released by the set) claims Pending
    a = [dict(x) for x in good]
    idx = [i for i, x in enumerate(a) if x["ev"] == "resp" and x["v"] == "ready"]
    a[idx[0]]["v"] = "pending"
    verdict("field-changed", a, False)
    # (b) one event deleted: the wake of the released waiter never happened
    b = [x for x in good if x["ev"] != "wake"]
    verdict("wake-deleted", b, False if len(b) != len(good) else True)
    # (c) two ordered events of different threads swapped: try_wait returns before the set was invoked ... and the
    # set's invocation moved after the response of the poll it released
    c = [dict(x) for x in good]
    i_set = next(i for i, x in enumerate(c) if x["ev"] == "inv" and x["op"] == "set")
    i_ready = idx[0]
    inv = c.pop(i_set)
    c.insert(i_ready, inv)      # now: ... resp(ready) precedes ... no: inv(set) sits right before resp(ready) of the poll
    resp_set = next(i for i, x in enumerate(c) if x["ev"] == "resp" and x["p"] == inv["p"])
    if resp_set < i_ready:
        r = c.pop(resp_set)
        c.insert(i_ready + 1, r)
    verdict("swapped", c, False)
    # step-level: change one observed value
    st = steps_of(runs[0])
    p = os.path.join(wd, "steps.ndjson")
    write_ndjson(p, st)
    ok, _, _ = validate_trace(D, "Trace_AutoStep", p, cfg="Trace_AutoStep.cfg")
    print("%-28s %s" % ("steps recorded", "accepted" if ok else "rejected"))
    if not ok:
        failures.append("steps recorded")
    j = next(i for i, x in enumerate(st) if x["ev"] == "step" and x["loc"] == "state" and x["op"] == "fetch_or")
    st[j] = dict(st[j], obs=st[j]["obs"] ^ 1)
    write_ndjson(p, st)
    ok, _, _ = validate_trace(D, "Trace_AutoStep", p, cfg="Trace_AutoStep.cfg")
    print("%-28s %s" % ("steps observed-value changed", "accepted" if ok else "rejected"))
    if ok:
        failures.append("steps corrupted accepted")
    print("selftest", "FAILED: " + ", ".join(failures) if failures else "ok")
    return 1 if failures else 0
