"""C10 — pinning takes effect in the OS and the library's view of it stays truthful.

  PinningAbs.tla    judge: per (hardware instance, thread) the OS affinity and the last pin; what every answer owes them
  Pinning.tla       explorer: the library's pin cache as the code maintains it, checked against the judge for every
                    pin / spawn_threads / spawn_thread history; generator of the histories
  CpuMask.tla       decoding of raw kernel mask words (H4 platform over the harness kernel, ids >= 64)
  Trace_Pinning     stateful judge of the harness's event log (real kernel read back by the harness itself)
"""
import json, os, concurrent.futures
import vlib
from vlib import SPEC, workdir, tlc, tlc_prints, write_ndjson, read_ndjson

PID = "C10"
D = os.path.join(SPEC, "cpus")


def split_by_reset(path, wd, chunks):
    """Scenarios are independent (each starts with a reset record): split the log at resets."""
    lines = open(path).read().splitlines(True)
    starts = [i for i, ln in enumerate(lines) if '"ev":"reset"' in ln]
    if not starts or starts[0] != 0:
        raise vlib.ToolError("trace %s does not start with a reset record" % path)
    per = max(1, (len(starts) + chunks - 1) // chunks)
    out = []
    for k in range(0, len(starts), per):
        a = starts[k]
        b = starts[k + per] if k + per < len(starts) else len(lines)
        f = os.path.join(wd, "%s.part%d" % (os.path.basename(path), k // per))
        open(f, "w").writelines(lines[a:b])
        out.append((f, b - a))
    return out, len(lines), len(starts)


def judge(run, trace, name, wd, chunks=8, timeout=3000):
    parts, n, nscen = split_by_reset(trace, wd, chunks)

    def one(part):
        f, cnt = part
        md = os.path.join(vlib.WORK, "_tlc", "Trace_Pinning_%s_%d" % (os.path.basename(f), os.getpid()))
        r = tlc(D, "Trace_Pinning", cfg="Trace_Pinning.cfg", workers=1, env={"TRACE": f}, timeout=timeout, xmx="3g",
                xss="1g", deque=True, metadir=md)
        if r.error:
            raise vlib.ToolError("trace validation of %s failed: %s\n%s" % (f, r.error, r.out[-3000:]))
        if r.violation:
            # the walk stopped: a record the judge cannot even interpret (malformed stimulus) - never a verdict
            raise vlib.ToolError("Trace_Pinning stopped inside %s (%s): %s" % (f, r.violation, "\n".join(
                tlc_prints(r.out, "FIRST-UNMATCHED"))[:1500] or r.out[-2500:]))
        return r

    rejects, devs = [], {}
    with concurrent.futures.ThreadPoolExecutor(max_workers=len(parts)) as ex:
        for r in ex.map(one, parts):
            run.add_tlc("Trace_Pinning " + name, r, count_states=False)
            rejects += [json.loads(x) for x in tlc_prints(r.out, "REJECT")]
            for line in r.out.splitlines():
                if line.startswith('<<"KNOWNDEV", "'):
                    dev = line.split('"')[3]
                    d = devs.setdefault(dev, {"count": 0, "sample": None})
                    d["count"] += 1
                    if d["sample"] is None and line.count('", "') >= 2:
                        body = line[line.index('", "', len('<<"KNOWNDEV", "')) + 4:-3]
                        try:
                            d["sample"] = json.loads(body.replace('\\"', '"').replace("\\\\", "\\"))
                        except Exception:
                            pass
    run.cov["traces_validated_against_impl"] += nscen
    run.cov["evaluations"] += n
    vlib.log("%s: %d scenarios / %d records judged, %d rejected, deviations %s" % (
        name, nscen, n, len(rejects), {k: v["count"] for k, v in devs.items()}))
    for rj in rejects:
        rec = rj.get("rec", {})
        run.violation("pinning:%s" % rj.get("why", "?"), "record rejected by PinningAbs (%s): %s" % (rj.get("why"), json.dumps(rec)[:500]),
                      {"trace": trace, "line": rj.get("line"), "record": rec, "name": name})
    for dev, info in devs.items():
        run.violation("pinning:thread_processors:" + dev,
                      "thread_processors() deviates from 'the set the thread is pinned to' (%s), %d observations; first: %s" % (
                          dev, info["count"], json.dumps(info["sample"])[:400]),
                      {"trace": trace, "deviation": dev, "count": info["count"], "first": info["sample"], "name": name})
        run.cov.setdefault("thread_processors_deviations", {})
        run.cov["thread_processors_deviations"][dev] = run.cov["thread_processors_deviations"].get(dev, 0) + info["count"]
    return nscen


def explorer(run, wd, thorough):
    spawn = "SpawnSetsAll" if thorough else "SpawnSetsQuick"
    cfg = os.path.join(wd, "gen.cfg")
    open(cfg, "w").write("CONSTANTS Procs = {0,1,2} HW = {1,2} Threads = {1,2} MaxOps = 2 Faults = TRUE\n"
                         "  Kinds <- KindsDef  RegionOf <- RegionOfDef  SpawnSets <- %s\nSPECIFICATION Spec\n"
                         "INVARIANT TypeOK LibTruthful TPExactOrNamed CacheIsFunctionOfLastPin GenCase\nCHECK_DEADLOCK FALSE\n" % spawn)
    g = tlc(D, "MC_Pinning", cfg=cfg, workers=4, timeout=1500, coverage=thorough)
    run.add_tlc("Pinning explorer + generator (3 processors, 2 instances, 2 threads, <=2 ops, %s)" % spawn, g)
    if g.error:
        raise vlib.ToolError(g.error)
    if g.violation:
        raise vlib.ToolError("Pinning explorer violates the judge (%s): the model of the code is wrong or the code's design "
                             "breaks the property; reproduce through the harness first\n%s" % (g.violation, g.cex[:3000]))
    cases = [json.loads(x) for x in tlc_prints(g.out, "PCASE")]
    # deeper histories: invariants only (thorough)
    if thorough:
        cfg3 = os.path.join(wd, "deep.cfg")
        open(cfg3, "w").write("CONSTANTS Procs = {0,1,2} HW = {1,2} Threads = {1,2} MaxOps = 3 Faults = TRUE\n"
                              "  Kinds <- KindsDef  RegionOf <- RegionOfDef  SpawnSets <- SpawnSetsAll\nSPECIFICATION Spec\n"
                              "INVARIANT TypeOK LibTruthful TPExactOrNamed CacheIsFunctionOfLastPin\nCHECK_DEADLOCK FALSE\n")
        d = tlc(D, "MC_Pinning", cfg=cfg3, workers=8, timeout=1500, xmx="8g")
        run.add_tlc("Pinning explorer (<=3 ops, all spawn sets)", d)
        if d.error or d.violation:
            raise vlib.ToolError("Pinning explorer (deep): %s %s\n%s" % (d.error, d.violation, d.cex[:3000]))
    return cases


def check(run):
    vlib.cargo_build(["h_cpus"])
    wd = workdir(PID, clean=True)
    thorough = run.tier == "thorough"
    cases = explorer(run, wd, thorough)
    cf = os.path.join(wd, "cases.ndjson")
    write_ndjson(cf, cases)
    # (1) TLC histories on the real kernel + fake, on the H4 platform (harness kernel, ids >= 64) + fake, (thorough) real + H4
    trace = os.path.join(wd, "histories.ndjson")
    # lower case = "full" embedding: the set of all abstract processors is replayed as ALL processors of the instance
    bindings = "RF,LF,RL,rF,lF,rL" if thorough else "RF,LF,rF,lF"
    vlib.run_bin("h_cpus", ["pin-histories", cf, trace, bindings], env={"VERIF_SEED": run.seed}, timeout=2400)
    n1 = judge(run, trace, "histories", wd, chunks=12)
    recs = [json.loads(x) for x in open(trace).read().splitlines()[3:8]]
    run.sample(recs[0]); run.sample(recs[2])
    # (2) subsets of the processors available to the process, re-pinning thread by thread, fake instance alongside
    trace2 = os.path.join(wd, "subsets.ndjson")
    p = vlib.run_bin("h_cpus", ["pin-subsets", trace2, "all" if thorough else "sample", 1500, 420 if thorough else 45],
                     env={"VERIF_SEED": run.seed}, timeout=2400)
    cov = json.loads(p.stdout.strip().splitlines()[-1])
    run.cov["subsets_pinned"] = cov["covered"]
    run.cov["subsets_total"] = cov["total"]
    judge(run, trace2, "subsets", wd, chunks=10)
    # (3) hardware instances created at the same moment on 4 threads, then used one after the other by a fresh thread
    trace3 = os.path.join(wd, "idrace.ndjson")
    vlib.run_bin("h_cpus", ["pin-idrace", trace3, 60 if thorough else 16], env={"VERIF_SEED": run.seed}, timeout=1200)
    judge(run, trace3, "instances-created-concurrently", wd, chunks=8 if thorough else 4)
    run.cov["instances_created_concurrently"] = (60 if thorough else 16) * 192
    run.cov["distinct_nontrivial"] = len(cases) + cov["covered"]
    complete = cov["covered"] == cov["total"]
    run.cov["rule"] = ("TLC enumerates every history of <=2 operations (pin any non-empty subset / spawn_threads / spawn_thread) by 2 "
                       "threads through 2 hardware instances over 3 abstract processors (%d histories; thorough: the explorer also "
                       "checks <=3 operations); each is replayed under the bindings %s with rotating injections of the abstract processors "
                       "into the real ones and rotating word embeddings (harness-kernel sizes 1024..8192 cpus); plus %d of %d "
                       "non-empty subsets of the available processors pinned on the real kernel; distinct = histories + subsets"
                       % (len(cases), bindings, cov["covered"], cov["total"]))
    run.cov["exhaustive"] = bool(complete)
    run.assume("the harness reads the kernel's view with libc::sched_getaffinity / sched_getcpu on the pinned thread itself")
    run.assume("real kernel limited to the processors available in the sandbox; ids >= 64 only through the harness kernel of hook H4")
    run.assume("the harness kernel follows kernel/sched/syscalls.c for mask length handling (EINVAL when narrower than nr_cpu_ids)")


def selftest():
    """Corrupt accepted traces (one field / one event) and see Trace_Pinning reject them."""
    vlib.cargo_build(["h_cpus"])
    wd = workdir(PID, "selftest", clean=True)
    ops = [{"ops": [{"op": "pin", "t": 1, "h": 1, "s": [0]}, {"op": "pin", "t": 1, "h": 1, "s": [1, 2]},
                    {"op": "spawn_threads", "t": 2, "h": 1, "s": [0, 2]}, {"op": "pin", "t": 2, "h": 2, "s": [2]}]}]
    cf = os.path.join(wd, "c.ndjson")
    write_ndjson(cf, ops)
    trace = os.path.join(wd, "t.ndjson")
    vlib.run_bin("h_cpus", ["pin-histories", cf, trace, "RF,LF"])
    base = read_ndjson(trace)

    def verdict(recs, name):
        f = os.path.join(wd, name + ".ndjson")
        write_ndjson(f, recs)
        r = tlc(D, "Trace_Pinning", cfg="Trace_Pinning.cfg", workers=1, env={"TRACE": f}, xss="1g", deque=True)
        return [json.loads(x) for x in tlc_prints(r.out, "REJECT")], r

    rej, r = verdict(base, "clean")
    bad = 0
    if rej or r.violation or r.error:
        print("selftest: clean trace not accepted", rej[:1], r.violation, r.error); bad += 1
    obs_idx = [i for i, x in enumerate(base) if x["ev"] == "obs"]
    pin_idx = [i for i, x in enumerate(base) if x["ev"] == "pin"]
    tests = []
    c = json.loads(json.dumps(base)); c[obs_idx[0]]["pp"] = not c[obs_idx[0]]["pp"]; tests.append(("flip pp", c, "is_thread_processor_pinned"))
    c = json.loads(json.dumps(base)); c[obs_idx[0]]["kaff"] = c[obs_idx[0]]["kaff"] + [15] if 15 not in c[obs_idx[0]]["kaff"] else c[obs_idx[0]]["kaff"][:-1]; tests.append(("kernel mask", c, "kernel-affinity-differs-from-pinned-set"))
    c = json.loads(json.dumps(base)); c[obs_idx[0]]["region"] += 9; tests.append(("region", c, "current_memory_region_id"))
    c = json.loads(json.dumps(base)); del c[pin_idx[0]]; tests.append(("delete the pin event", c, None))
    c = json.loads(json.dumps(base)); c[pin_idx[0]], c[pin_idx[1]] = c[pin_idx[1]], c[pin_idx[0]]; tests.append(("swap two pins", c, None))
    li = [i for i, x in enumerate(base) if x["ev"] == "obs" and x["kwords"]]
    c = json.loads(json.dumps(base)); c[li[0]]["kwords"][0][1] = [(c[li[0]]["kwords"][0][1][0] + 1) % 64]; tests.append(("raw kernel word bit", c, "linux-kernel-mask"))
    for name, recs, why in tests:
        rej, r = verdict(recs, "corrupt")
        ok = bool(rej) and (why is None or any(x.get("why") == why for x in rej))
        print("selftest %-24s -> %d rejected %s" % (name, len(rej), sorted({x.get("why") for x in rej})))
        if not ok:
            bad += 1
    print("selftest C10:", "FAILED" if bad else "ok")
    return 1 if bad else 0


def replay(path):
    rep = json.load(open(path))
    print(json.dumps(rep, indent=1)[:6000])
    return 0
