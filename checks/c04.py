"""C04 — pools stay usable and consistent when user code they run panics or re-enters.

  spec/poolcb/PoolCallbacks.tla      explorer: stack machine with the code's step order per operation, the three guard
                                     disciplines (mutex / RefCell / &mut), Rust's unwinding rules; one behaviour per program
  spec/poolcb/PoolCallbacksAbs.tla   judge: TERMINATES / OUTCOME / ONCE / NO-LEAK / ACCOUNTING on the event trace
  spec/poolcb/Trace_PoolCallbacks    judge applied to traces (predicted by the explorer, and recorded from the real pools)
  harness/h_poolcb                   one child process per program and pool type, watchdog, scripted destructors/closures

Verdicts: the judge (TLC) rejects a trace recorded from the real code -> violation, key = scenario class : discipline :
failure.  The explorer's predicted trace of every program is judged too; a predicted violation class that the real code
never shows is a modelling error (tool error); every event-level difference between prediction and recording is drift.
"""
import json, os, collections
import vlib
from vlib import SPEC, workdir, tlc, tlc_prints, validate_trace, write_ndjson, read_ndjson

PID = "C04"
D = os.path.join(SPEC, "poolcb")

# mirrors of the code the explorer is parametrised with (see PoolCallbacks.tla CONSTANTS)
CATCH_UNWIND = True      # pool_managed.rs insert_with / with_iter wrap the closure in catch_unwind
BOOK_FIRST = True        # pool_raw.rs remove: length/vacancy updated before the destructor runs
DROP_CATCHES = True      # handles/*managed*.rs Drop: catch_unwind around pool.remove, guard released before resume_unwind

POOLS = {("mutex", True): ["OpaquePool", "PinnedPool"], ("mutex", False): ["BlindPool"],
         ("refcell", True): ["LocalOpaquePool", "LocalPinnedPool"], ("refcell", False): ["LocalBlindPool"],
         ("none", True): ["RawOpaquePool", "RawPinnedPool"], ("none", False): ["RawBlindPool"]}
DISC = {"mutex": "managed", "refcell": "local", "none": "raw"}
WATCHDOG_MS = 10000


def explore(run, wd, maxn, name="explorer", book_first=None, catch=None, coverage=False):
    cfg = os.path.join(wd, "mc_%s.cfg" % name)
    consts = "Discs <- AllDiscs  MaxN = %d  MaxDepth = 2  CatchUnwind = %s  BookFirst = %s  DropCatches = %s" % (
        maxn, "TRUE" if (CATCH_UNWIND if catch is None else catch) else "FALSE",
        "TRUE" if (BOOK_FIRST if book_first is None else book_first) else "FALSE", "TRUE" if DROP_CATCHES else "FALSE")
    open(cfg, "w").write("CONSTANTS %s\nSPECIFICATION FairSpec\n"
                         "INVARIANT TypeOK SlabConsistent QuietProgramsClean GuardReleasedAtQuiescence GenProg\n"
                         "PROPERTY Terminates\nCHECK_DEADLOCK FALSE\n" % consts)
    r = tlc(D, "MC_PoolCallbacks", cfg=cfg, workers=8, timeout=1500, coverage=coverage)
    run.add_tlc("PoolCallbacks %s (%s)" % (name, consts), r)
    if r.error or r.violation:
        raise vlib.ToolError("explorer: %s %s\n%s" % (r.error, r.violation, (r.cex or r.out)[-3000:]))
    progs = [json.loads(s) for s in tlc_prints(r.out, "PROG")]
    progs.sort(key=lambda p: json.dumps(p["prog"], sort_keys=True))
    return progs


def setup_rec(pr, fill=0):
    objs = [{"o": k + 1, "owner": pr["par"][k], "rc": 2 if (k == 0 and pr["hk"] == "shared") else 1} for k in range(pr["n"])]
    for b in range(pr["by"]):
        objs.append({"o": pr["n"] + 1 + b, "owner": 0, "rc": 1})
    return {"ev": "setup", "a": "-", "o": 0, "v": fill, "objs": objs}


def predicted_trace(progs):
    recs = []
    for i, p in enumerate(progs):
        recs.append({"ev": "reset", "idx": i, "prog": p["prog"]})
        recs.append(setup_rec(p["prog"]))
        cur = None
        for e in p["hist"]:
            if e["ev"] == "call":
                cur = e["a"]
            if e["ev"] == "ret" and cur == "cap" and e["a"] == "returned":
                e = dict(e, v=1 << 20)      # the explorer does not predict the value of capacity()
            recs.append(e)
    return recs


def split(recs):
    """trace -> list of (reset record, [events], 1-based line of the reset record)"""
    out = []
    for n, r in enumerate(recs):
        if r["ev"] == "reset":
            out.append((r, [], n + 1))
        else:
            out[-1][1].append(r)
    return out


def judge(run, path, name, count=True):
    ok, rejects, tr = validate_trace(D, "Trace_PoolCallbacks", path, timeout=2400, xmx="8g")
    run.add_tlc("Trace_PoolCallbacks " + name, tr, count_states=False)
    rej = {}
    for rj in rejects:
        if "idx" not in rj:
            raise vlib.ToolError("judge: unexpected rejection %s" % json.dumps(rj)[:600])
        rej[rj["idx"]] = rj
    return rej


def features(events, upto=None):
    """scenario class of a program run: what user code did (in order of first occurrence) before the rejected record"""
    feats, kinds = [], []
    for n, e in enumerate(events):
        if upto is not None and n >= upto:
            break
        ev = e["ev"]
        if ev == "cb":
            kinds.append(e["a"])
        elif ev == "cbend":
            if kinds and kinds[-1] == e["a"]:
                kinds.pop()
        elif ev == "upanic":
            f = "%s-panic" % e["a"]
            if f not in feats:
                feats.append(f)
        elif ev == "act":
            enclosing = next((k for k in reversed(kinds) if k in ("init", "iter")), None)
            if enclosing and not any(k == "dtor" for k in kinds):
                f = "%s-reenter" % enclosing
            elif e["a"] == "drop":
                f = "nested-drop"
            else:
                f = "dtor-reenter"
            if f not in feats:
                feats.append(f)
        elif ev == "ret":
            kinds = []
    return feats


def failure(rj, events):
    rec, why = rj["rec"], rj.get("why", "?")
    if rec["ev"] == "end":
        return {"hung": "deadlock", "abort": "abort"}.get(rec["a"], rec["a"])
    if rec["ev"] == "panic":
        return {"poisoned": "poisoned", "slab": "iter-panic", "cleanup": "abort"}.get(rec["a"], "pool-panic")
    return why


def key_of(pr, events, rj, start_line):
    pos = rj["line"] - start_line - 1        # index of the rejected record in this program's events
    feats = features(events, pos + 1)
    return "%s:%s:%s" % ("+".join(feats) if feats else "no-user-code", DISC[pr["disc"]], failure(rj, events))


def norm(events, fill=0):
    """comparable form of an event list (real or predicted): values only where the model predicts them"""
    out, cur = [], None
    for e in events:
        ev = e["ev"]
        if ev in ("setup",):
            continue
        if ev == "call":
            cur = e["a"]
            out.append((ev, e["a"], e["o"]))
        elif ev == "ret":
            v = e["v"] - fill if (e["a"] == "returned" and cur in ("len", "iter", "wi")) else 0
            out.append((ev, e["a"], v))
        elif ev == "iterated":
            out.append((ev, e["v"] - fill, tuple(e.get("ids", []))))
        elif ev == "actret":
            out.append((ev, e["a"], e["v"] - fill if e["a"] == "len" else 0))
        elif ev == "panic":
            out.append((ev, e["a"]))
        elif ev == "end":
            out.append((ev, e["a"]))
        else:
            out.append((ev, e["a"], e["o"]))
    return out


def real_programs(progs, thorough, seed):
    """every program on every pool type of its discipline; thorough adds the full-slab placement"""
    out = []
    for i, p in enumerate(progs):
        pr = p["prog"]
        for pool in POOLS[(pr["disc"], pr["it"])]:
            out.append({"pool": pool, "fill": False, "prog": pr, "pidx": i})
            if pr["op"] == "drop" and pr["n"] <= (2 if thorough else 1) or (not thorough and pr["op"] == "drop" and pr["n"] == 2 and i % 3 == 0):
                out.append({"pool": pool, "fill": True, "prog": pr, "pidx": i})
            # insert_with at the moment its slab has exactly one vacant slot left (the insertion that fills the slab, or,
            # when the closure panics or is refused, the one that does not)
            if pr["op"] == "iw" and (thorough or pr["n"] <= 1):
                out.append({"pool": pool, "fill": "one", "prog": pr, "pidx": i})
            # the same program with every scripted object held through type-erased handles (`.erase()`: the handle's
            # static type says nothing about the destructor that runs); raw pools have no handle Drop to vary
            if pr["op"] == "drop" and not pool.startswith("Raw") and (thorough or pr["n"] == 1 or i % 2 == 0):
                out.append({"pool": pool, "fill": False, "erased": True, "prog": pr, "pidx": i})
    return out


def run_real(wd, rprogs, name="real"):
    pf = os.path.join(wd, "%s_programs.ndjson" % name)
    write_ndjson(pf, rprogs)
    trace = os.path.join(wd, "%s_trace.ndjson" % name)
    vlib.run_bin("h_poolcb", ["run", pf, trace, 256, WATCHDOG_MS], timeout=2400)
    return trace


def check(run):
    import time
    T = time.time()
    def lap(what):
        nonlocal T
        vlib.log("  %-28s %.1fs" % (what, time.time() - T))
        T = time.time()
    vlib.cargo_build(["h_poolcb", "h_poolmt"])
    wd = workdir(PID, clean=True)
    thorough = run.tier == "thorough"
    maxn = 3 if thorough else 2
    lap("build")
    progs = explore(run, wd, maxn, coverage=thorough)
    lap("explorer (%d programs)" % len(progs))

    # --- the real pools
    rprogs = real_programs(progs, thorough, run.seed)
    trace = run_real(wd, rprogs)
    lap("harness (%d child runs)" % len(rprogs))

    # --- one judge run over both: the recorded traces, then the explorer's predicted traces (idx offset OFF)
    OFF = 1000000
    both = os.path.join(wd, "judge_input.ndjson")
    recorded = read_ndjson(trace)
    predicted = predicted_trace(progs)
    for r in predicted:
        if r["ev"] == "reset":
            r["idx"] += OFF
    write_ndjson(both, recorded + predicted)
    rej = judge(run, both, "recorded + predicted")
    lap("judge (%d records)" % (len(recorded) + len(predicted)))
    rrej = {i: rj for i, rj in rej.items() if i < OFF}
    prej = {i - OFF: rj for i, rj in rej.items() if i >= OFF}
    allruns = split(read_ndjson(both))
    pkeys = {}
    for (reset, events, line) in allruns:
        i = reset["idx"] - OFF
        if i >= 0 and i in prej:
            pkeys[i] = key_of(progs[i]["prog"], events, prej[i], line)
    runs = [x for x in allruns if x[0]["idx"] < OFF]
    if len(runs) != len(rprogs):
        raise vlib.ToolError("harness returned %d runs for %d programs" % (len(runs), len(rprogs)))
    drift, drift_samples, verdict_mismatch = 0, [], 0
    real_keys = collections.Counter()
    hung = aborted = 0
    for j, (reset, events, line) in enumerate(runs):
        rp = rprogs[j]
        pr, pi = rp["prog"], rp["pidx"]
        if events and events[-1]["ev"] == "end" and events[-1]["a"] == "harness-error":
            raise vlib.ToolError("harness child failed on %s: %s" % (json.dumps(rp), json.dumps(events[-3:])))
        fill = next((e["v"] for e in events if e["ev"] == "setup"), 0)
        hung += events[-1]["a"] == "hung"
        aborted += events[-1]["a"] == "abort"
        run.cov["traces_validated_against_impl"] += 1
        run.cov["evaluations"] += len(events)
        pred = norm(progs[pi]["hist"])
        if rp["fill"] and pr["disc"] == "none":
            # with fillers in it the raw pool is not dropped at the end (DropPolicy::MustNotDropContents would object)
            k = next((n for n, e in enumerate(pred) if e[:2] == ("call", "droppool")), None)
            if k is not None:
                del pred[k:k + 2]
        if norm(events, fill) != pred:
            drift += 1
            if len(drift_samples) < 3:
                drift_samples.append({"pool": rp["pool"], "fill": rp["fill"], "erased": rp.get("erased", False), "prog": pr,
                                      "predicted": pred, "recorded": norm(events, fill)})
        rk = None
        if j in rrej:
            rk = key_of(pr, events, rrej[j], line)
            real_keys[rk] += 1
            run.violation("callbacks:" + rk,
                          "%s: %s -- judge rejects record %s (%s)" % (rp["pool"], describe(pr), json.dumps(rrej[j]["rec"]), rrej[j].get("why")),
                          {"pool": rp["pool"], "fill": rp["fill"], "erased": rp.get("erased", False), "prog": pr, "events": events, "rejected": rrej[j],
                           "predicted_by_explorer": pkeys.get(pi)})
        if rk != pkeys.get(pi) and not rp["fill"]:
            verdict_mismatch += 1
    # --- destructor panics on one thread while other threads use the same (thread-safe) pool
    rt = os.path.join(wd, "dtorrace.ndjson")
    vlib.run_bin("h_poolmt", ["dtor-race", rt, "8" if thorough else "2.5"], timeout=600)
    rrecs = [r for r in read_ndjson(rt) if r["ev"] == "dtorrace"]
    if len(rrecs) != 3 or any(r["bombs"] == 0 or r["obs_calls"] == 0 or r["wr_calls"] == 0 for r in rrecs):
        raise vlib.ToolError("dtor-race exercised nothing: %s" % json.dumps(rrecs)[:800])
    ok, rejects, trr = validate_trace(D, "Trace_PoolCallbacks", rt, timeout=600)
    run.add_tlc("Trace_PoolCallbacks dtor-race", trr, count_states=False)
    run.cov["traces_validated_against_impl"] += len(rrecs)
    run.cov["evaluations"] += sum(r["bombs"] + r["obs_calls"] + r["wr_calls"] for r in rrecs)
    run.cov["dtor_race"] = {r["pool"]: {k: r[k] for k in ("bombs", "obs_calls", "wr_calls")} for r in rrecs}
    for rj in rejects:
        k = "dtor-panic-concurrent:managed:%s" % rj.get("why", "?")
        real_keys[k] += 1
        run.violation("callbacks:" + k, "%s: destructor panics on one thread, other threads use the pool -- %s" % (rj["rec"].get("pool"), json.dumps(rj["rec"])),
                      {"mode": "dtor-race", "record": rj["rec"]})
    lap("dtor-race")
    if len(runs) > 2:
        run.sample({"pool": rprogs[len(runs) // 2]["pool"], "prog": rprogs[len(runs) // 2]["prog"],
                    "events": [e for e in runs[len(runs) // 2][1]][:14]})
    # a class the explorer predicts but the real code never shows is a modelling error (rule ii)
    missing = sorted(set(pkeys.values()) - set(real_keys))
    if missing:
        raise vlib.ToolError("explorer predicts violation classes the real code does not reproduce (model drift): %s" % missing)
    run.cov["distinct_nontrivial"] = len(progs)
    run.cov["drift"] = drift
    run.cov["verdict_mismatch_explorer_vs_code"] = verdict_mismatch
    run.cov["drift_samples"] = drift_samples
    run.cov["children_hung"] = hung
    run.cov["children_aborted"] = aborted
    run.cov["violation_classes_recorded"] = dict(real_keys)
    run.cov["violation_classes_predicted"] = dict(collections.Counter(pkeys.values()))
    run.cov["exhaustive"] = drift == 0
    run.cov["rule"] = ("TLC enumerates every callback program (guard discipline x object graph of <=%d scripted objects x destructor "
                       "bodies ret/panic/len/insert x trigger drop/insert_with/with_iter x closure script x bystander x handle kind, "
                       "nesting depth <=2) and interprets it with the code's step order; each program is replayed in a child process "
                       "(watchdog %d ms) on every pool type of its discipline (9 types%s); distinct = programs; every recorded trace is "
                       "judged by PoolCallbacksAbs in TLC and compared event by event with the explorer's prediction (drift)"
                       % (maxn, WATCHDOG_MS, ", plus the full-slab placement" if thorough else ""))
    run.assume("a child still alive after %d ms is hung (the explorer predicts a self-deadlock for each of them; drift would show otherwise)" % WATCHDOG_MS)
    run.assume("the harness payload type is marked Send by the harness; the child process is single-threaded")
    if drift:
        vlib.log("drift: %d of %d runs differ from the explorer's prediction, e.g. %s" % (drift, len(runs), json.dumps(drift_samples[:1])[:1500]))


def describe(pr):
    d = {"drop": "drop(handle of object 1)", "iw": "insert_with(closure: %s)" % pr["sc"], "wi": "with_iter(closure: %s)" % pr["sc"]}[pr["op"]]
    objs = ", ".join("obj%d{dtor:%s%s}" % (k + 1, pr["dt"][k], ", owned by obj%d" % pr["par"][k] if pr["par"][k] else "") for k in range(pr["n"]))
    return "%s; %s; %d bystander(s); %s handle" % (d, objs or "no scripted object", pr["by"], pr["hk"])


def replay(path):
    rep = json.load(open(path))["replay"]
    if rep.get("mode") == "dtor-race":
        wd = workdir(PID, "replay_run", clean=True)
        vlib.cargo_build(["h_poolmt"])
        rt = os.path.join(wd, "dtorrace.ndjson")
        vlib.run_bin("h_poolmt", ["dtor-race", rt, "8"], timeout=600)
        ok, rejects, tr = validate_trace(D, "Trace_PoolCallbacks", rt)
        for e in read_ndjson(rt):
            print(json.dumps(e))
        print("REJECTED by PoolCallbacksAbs: %s" % json.dumps(rejects[0]) if rejects else "accepted")
        return 1 if rejects else 0
    wd = workdir(PID, "replay_run", clean=True)
    vlib.cargo_build(["h_poolcb"])
    trace = run_real(wd, [{"pool": rep["pool"], "fill": rep["fill"], "erased": rep.get("erased", False), "prog": rep["prog"]}], "replay")
    ok, rejects, tr = validate_trace(D, "Trace_PoolCallbacks", trace)
    for e in read_ndjson(trace):
        print(json.dumps(e))
    if rejects:
        print("REJECTED by PoolCallbacksAbs:", json.dumps(rejects[0]))
        return 1
    print("accepted")
    return 0


def selftest():
    """binding demo: an accepted trace of the real code is rejected after one field is corrupted / one event is deleted"""
    class R:  # minimal Run stand-in
        cov = {"tlc_runs": []}
        def add_tlc(self, *a, **k): pass
    wd = workdir(PID, "selftest", clean=True)
    vlib.cargo_build(["h_poolcb"])
    pr = {"n": 1, "it": True, "hk": "unique", "op": "drop", "sc": "-", "disc": "refcell", "par": [0, 0, 0], "dt": ["ret", "ret", "ret"], "by": 1}
    trace = run_real(wd, [{"pool": "LocalOpaquePool", "fill": False, "prog": pr}], "good")
    recs = read_ndjson(trace)
    ok, rej, _ = validate_trace(D, "Trace_PoolCallbacks", trace)
    assert ok, "good trace rejected: %s" % rej
    fails = 0
    def mutate(name, f):
        nonlocal fails
        m = f([dict(r) for r in recs])
        p = os.path.join(wd, name + ".ndjson")
        write_ndjson(p, m)
        ok2, rej2, _ = validate_trace(D, "Trace_PoolCallbacks", p)
        print("selftest %-28s -> %s %s" % (name, "accepted (BAD)" if ok2 else "rejected", json.dumps(rej2[0])[:160] if rej2 else ""))
        fails += ok2
    def field(rs):   # len after the drop reports one more than exists
        i = [k for k, r in enumerate(rs) if r["ev"] == "ret" and r["a"] == "returned"][1]
        rs[i]["v"] += 1
        return rs
    def delete(rs):  # the destructor event of object 1 disappears (object leaked)
        i = next(k for k, r in enumerate(rs) if r["ev"] == "cb" and r["a"] == "dtor" and r["o"] == 1)
        return rs[:i] + rs[i + 2:]
    def dup(rs):     # the destructor runs twice
        i = next(k for k, r in enumerate(rs) if r["ev"] == "cb" and r["a"] == "dtor" and r["o"] == 1)
        return rs[:i + 2] + rs[i:i + 2] + rs[i + 2:]
    def hang(rs):    # the process was killed by the watchdog
        rs[-1]["a"] = "hung"
        return rs
    mutate("corrupt-len-value", field)
    mutate("delete-destructor-event", delete)
    mutate("duplicate-destructor-event", dup)
    mutate("end-hung", hang)
    # the multi-threaded summary record (h_poolmt dtor-race): accepted as recorded, rejected when another thread's call panicked
    vlib.cargo_build(["h_poolmt"])
    rt = os.path.join(wd, "dtorrace.ndjson")
    vlib.run_bin("h_poolmt", ["dtor-race", rt, "0.5"], timeout=300)
    okr, rejr, _ = validate_trace(D, "Trace_PoolCallbacks", rt)
    assert okr, "dtor-race trace rejected: %s" % rejr
    rr = read_ndjson(rt)
    rr[1]["obs_panics"] = 1
    p2 = os.path.join(wd, "dtorrace_bad.ndjson")
    write_ndjson(p2, rr)
    ok2, rej2, _ = validate_trace(D, "Trace_PoolCallbacks", p2)
    print("selftest %-28s -> %s %s" % ("observer-call-panicked", "accepted (BAD)" if ok2 else "rejected", json.dumps(rej2[0])[:160] if rej2 else ""))
    fails += ok2
    return 1 if fails else 0
