"""C15 - future deque keeps deque order and never loses a wake-up.

  spec/fdeque/FutureDequeAbs.tla   judge: deterministic monitor over API-level events (order, polled-only-if, no lost
                                   wake-up R1/R2, exactly-once drops, metadata lifetime)
  spec/fdeque/FutureDeque.tla      explorer: future_deque_core.rs + waker_meta.rs, one action per scheduling point of the
                                   instrumented build, composed with the judge (INVARIANT JudgeOk for all interleavings)
  spec/fdeque/WakerMeta.tla        waker_meta.rs for one metadata block through spec/lib/RC11.tla; the memory orderings are
                                   taken from the step logs of the instrumented crate (ordering table)
  spec/fdeque/Trace_FutureDeque    the judge applied to what harness h_fdeque recorded from the real crate
  harness/h_fdeque                 scripted futures, counting parent wakers, remote waker operations under vrt::sched

  Both directions: behaviours of the explorer (TLC -simulate) become stimulus + schedule and are replayed step by step on
  the real crate (drift measured); seeded random / PCT schedules of random stimuli are recorded; every recorded run is
  judged by TLC.
"""
import json, os, random, re
import vlib
from vlib import SPEC, workdir, tlc, tlc_prints, validate_trace, write_ndjson, read_ndjson

PID = "C15"
D = os.path.join(SPEC, "fdeque")
BIN = "h_fdeque"

# seeded-defect actions of the explorer: never taken with Mut = "none" by construction
MUT_ONLY_ACTIONS = {"DScanLoad", "DScanStore"}

SITES = {"make": "OrdMake", "clone": "OrdClone", "check": "OrdCheck", "wake": "OrdWake", "release": "OrdRelease"}

WHY_KEYS = [
    ("wake lost: parent", "wake-lost:parent-not-woken"),
    ("wake lost: the next", "wake-lost:next-poll-skipped-future"),
    ("order: poll_front", "order:poll-end"),
    ("order: pop", "order:pop"),
    ("poll: wrong readiness", "order:poll-readiness"),
    ("future polled although", "spurious-poll"),
    ("polled a future that is not pending", "poll-of-non-pending"),
    ("future polled outside", "poll-outside-deque-poll"),
    ("pending future discarded", "pending-future-discarded"),
    ("future dropped twice", "future-double-drop"),
    ("deque dropped but a future", "future-not-dropped"),
    ("deque dropped but an output", "output-not-dropped"),
    ("output dropped twice", "output-double-drop"),
    ("completed output discarded", "output-discarded"),
    ("metadata freed while", "meta:freed-while-referenced"),
    ("metadata freed twice", "meta:double-free"),
    ("metadata accessed after", "meta:use-after-free"),
    ("metadata not freed although", "meta:not-freed-with-last-reference"),
    ("metadata never freed", "meta:leak"),
    ("metadata created twice", "meta:created-twice"),
    ("panic", "panic"),
    ("run did not complete", "deadlock-or-hang"),
]


def why_key(why):
    for pref, key in WHY_KEYS:
        if why.startswith(pref):
            return key
    return "judge:" + re.sub(r"[^a-z0-9]+", "-", why.lower())[:40]


# ------------------------------------------------------------------------------------------------ explorer

def consts(nf, dops, polls, rops, held, mind=0, mut="none", hist=False):
    return ("NF = %d  MaxF = %d  MaxT = 2  Remotes = {1, 2}  Parents = {1, 2}  MaxDOps = %d  MinDOps = %d  MaxPolls = %d  "
            "MaxROps = %d  MaxHeld = %d  Mut = \"%s\"  RecordHist = %s" % (nf, nf, dops, mind, polls, rops, held, mut,
                                                                         "TRUE" if hist else "FALSE"))


def write_cfg(path, c, invariants, view=True, props=None, spec="Spec"):
    with open(path, "w") as f:
        f.write("CONSTANTS %s\nSPECIFICATION %s\n" % (c, spec))
        if view:
            f.write("VIEW view\n")
        f.write("INVARIANT %s\n" % " ".join(invariants))
        if props:
            f.write("PROPERTY %s\n" % " ".join(props))
        f.write("CHECK_DEADLOCK FALSE\n")


def explore(run, wd, name, c, workers=8, timeout=1500, coverage=False, xmx="8g", live=False):
    """Exhaustive run without the history variable; on a violation the run is repeated with the history recorded
    (hidden from the fingerprint by VIEW) so that the violating behaviour can be exported and replayed."""
    cfg = os.path.join(wd, name + ".cfg")
    write_cfg(cfg, c, ["TypeOK", "JudgeOkP", "EndOkP", "RcExact"], view=False, spec="FairSpec" if live else "Spec",
              props=["Terminates"] if live else None)
    r = tlc(D, "MC_FutureDeque", cfg=cfg, workers=workers, timeout=timeout, coverage=coverage, xmx=xmx)
    if r.violation and r.violation.startswith("invariant"):
        write_cfg(cfg, c.replace("RecordHist = FALSE", "RecordHist = TRUE"), ["TypeOK", "JudgeOkP", "EndOkP", "RcExact"], view=True)
        r2 = tlc(D, "MC_FutureDeque", cfg=cfg, workers=workers, timeout=timeout, xmx=xmx)
        r.out += "\n" + "\n".join(l for l in r2.out.splitlines() if l.startswith('<<"CEX"'))
    if run is not None:
        run.add_tlc("FutureDeque explorer %s (%s)" % (name, re.sub(r"\s+", " ", c)), r)
        for a in MUT_ONLY_ACTIONS:
            for n in list(run.cov["uncovered_actions"]):
                if n.endswith(":" + a):
                    run.cov["uncovered_actions"].remove(n)
    return r


def hist_to_stim(i, hist, variant, strategy="script"):
    dops, fut, rops = [], {}, [[], []]
    sched = [[0, "start"], [1, "start"], [2, "start"]]
    for h in hist:
        t, l = h["t"], h["l"]
        sched.append([t, l])
        if l == "dop":
            op = h["op"]
            if op.startswith("push"):
                dops.append({"op": op, "f": h["f"]})
            elif op.startswith("poll"):
                dops.append({"op": op, "p": h["p"]})
            else:
                dops.append({"op": op})
        if h["b"] != "":
            fut.setdefault(str(h["f"]), []).append(h["b"])
        if l == "rop" and h["op"] != "":
            while len(rops) < t:
                rops.append([])
            rops[t - 1].append({"op": h["op"], "f": h["f"]})
    return {"id": i, "variant": variant, "dops": dops, "fut": fut, "rops": rops, "strategy": strategy, "seed": i,
            "sched": sched}


def simulate(run, wd, name, c, num, workers, seed, timeout=600):
    cfg = os.path.join(wd, name + ".cfg")
    write_cfg(cfg, c.replace("RecordHist = FALSE", "RecordHist = TRUE"), ["JudgeOkP", "EndOkP", "GenBeh"], view=False)
    r = tlc(D, "MC_FutureDeque", cfg=cfg, workers=workers, timeout=timeout, simulate=num, depth=400, seed=seed)
    if r.error:
        raise vlib.ToolError("simulation failed: %s\n%s" % (r.error, r.out[-2000:]))
    behs = [json.loads(s) for s in tlc_prints(r.out, "BEH")]
    r.generated = r.generated or sum(len(b) for b in behs)
    r.distinct = r.distinct or len(behs)
    if run is not None:
        run.add_tlc("FutureDeque -simulate %s (%s): %d complete behaviours" % (name, re.sub(r"\s+", " ", c), len(behs)), r,
                    count_states=False)
    return r, behs


# ------------------------------------------------------------------------------------------------ stimuli

def random_stimulus(rng, i, maxf=4):
    nf = rng.randint(1, maxf)
    dops, pushed = [], 0
    for _ in range(rng.randint(3, 10)):
        c = rng.random()
        if pushed < nf and (c < 0.35 or pushed == 0):
            pushed += 1
            dops.append({"op": rng.choice(["push_back", "push_front"]), "f": pushed})
        elif c < 0.78:
            dops.append({"op": rng.choice(["poll", "poll", "poll_front", "poll_back"]), "p": rng.choice([1, 1, 2, 3])})
        else:
            dops.append({"op": rng.choice(["pop_front", "pop_back"])})
    dops.append({"op": "drop"})
    fut = {}
    for f in range(1, pushed + 1):
        b = [rng.choice(["silent", "wake", "hand1", "hand2", "hand1", "wake"]) for _ in range(rng.randint(0, 3))]
        b.append(rng.choice(["ready", "ready", "ready", "silent", "hand2"]))
        fut[str(f)] = b
    rops = []
    for _ in range(2):
        rops.append([{"op": rng.choice(["wake_by_ref", "wake_by_ref", "wake", "clone", "drop"]), "f": rng.randint(1, max(1, pushed))}
                     for _ in range(rng.randint(0, 5))])
    return {"id": i, "variant": rng.choice(["send", "local"]), "dops": dops, "fut": fut, "rops": rops,
            "strategy": rng.choice(["random", "random", "pct"]), "seed": rng.randrange(1 << 30)}


def stim_signature(s):
    return json.dumps([s["dops"], s["fut"], s["rops"], s.get("sched")], sort_keys=True)


# ------------------------------------------------------------------------------------------------ harness + judge

def run_harness(wd, name, stims, timeout=1500):
    sp, tp, mp = (os.path.join(wd, name + ext) for ext in (".stim.ndjson", ".trace.ndjson", ".sum.ndjson"))
    write_ndjson(sp, stims)
    p = vlib.run_bin(BIN, ["run", sp, tp, mp], timeout=timeout, check=False)
    sums = read_ndjson(mp) if os.path.exists(mp) else []
    crashed = None
    if p.returncode != 0:
        crashed = {"rc": p.returncode, "stderr": p.stderr[-1500:], "at": stims[len(sums)] if len(sums) < len(stims) else None}
    return tp, sums, crashed


def split_runs(recs):
    runs, cur = {}, None
    for r in recs:
        if r["ev"] == "reset":
            cur = r["run"]
            runs[cur] = []
        elif cur is not None:
            runs[cur].append(r)
    return runs


def scenario_stats(runs, st):
    """Vacuity guard measured on the REAL executions: how often the interesting interleavings actually occurred."""
    for recs in runs.values():
        curp, polling, dropped = 0, False, False
        wake_open = {}
        for r in recs:
            ev = r["ev"]
            if ev == "inv":
                if r["op"].startswith("poll"):
                    curp, polling = r["p"], True
                    if any(True for _ in wake_open):
                        st["deque_poll_started_during_remote_wake"] += 1
                if r["op"] == "drop":
                    dropped = True
            elif ev == "res":
                polling = False
            elif ev == "winv" and r["op"] in ("wake", "wake_by_ref") and r["task"] != 0:
                wake_open[r["task"]] = r["f"]
                if polling:
                    st["remote_wake_started_during_deque_poll"] += 1
                if dropped:
                    st["remote_wake_after_deque_drop"] += 1
            elif ev == "wres" and r["op"] in ("wake", "wake_by_ref") and r["task"] != 0:
                wake_open.pop(r["task"], None)
            elif ev == "step" and r["fld"] == "act" and r["k"] == "swap":
                if r["wr"] == 1 and r["task"] != 0:
                    st["remote_wake_found_flag_set" if r["obs"] == 1 else "remote_wake_set_flag"] += 1
                if r["wr"] == 1 and r["task"] == 0:
                    st["self_wake"] += 1
                if r["wr"] == 1 and r["obs"] == 0:
                    st["activations_0_to_1"] += 1
                if r["wr"] == 0:
                    st["check_activated_true" if r["obs"] == 1 else "check_activated_false"] += 1
            elif ev == "pwake":
                st["parent_wakes"] += 1
                if r["p"] != curp:
                    st["stale_parent_woken_after_parent_change"] += 1
            elif ev == "meta_free":
                st["meta_freed_by_remote" if r["task"] != 0 else "meta_freed_by_deque_task"] += 1
            elif ev == "fpoll" and r["k"] >= 2:
                st["repolls"] += 1
            elif ev == "pcheck":
                st["parent_replaced" if not r["ww"] else "parent_kept"] += 1
            elif ev == "drift":
                st["drift_events"] += 1


def ordering_table(runs):
    """site -> set of orderings the instrumented crate passed; anything that is not one of the five known sites of
    waker_meta.rs is reported as structure drift."""
    table = {k: set() for k in SITES}
    unknown = {}
    for recs in runs.values():
        pushing = False
        cloning = set()
        for r in recs:
            ev = r["ev"]
            if ev == "inv":
                pushing = r["op"].startswith("push")
            elif ev == "res":
                pushing = False
            elif ev == "winv" and r["op"] == "clone":
                cloning.add(r["task"])
            elif ev == "wres" and r["op"] == "clone":
                cloning.discard(r["task"])
            elif ev == "step" and r["fld"] != "parent":
                site = None
                if r["fld"] == "rc" and r["k"] == "fadd":
                    site = "clone" if r["task"] in cloning else ("make" if pushing and r["task"] == 0 else None)
                elif r["fld"] == "rc" and r["k"] == "fsub":
                    site = "release"
                elif r["fld"] == "act" and r["k"] == "swap" and r["wr"] == 0:
                    site = "check"
                elif r["fld"] == "act" and r["k"] == "swap" and r["wr"] == 1:
                    site = "wake"
                if site is None:
                    key = "%s.%s" % (r["fld"], r["k"])
                    unknown[key] = unknown.get(key, 0) + 1
                else:
                    table[site].add(r["ord"])
    return table, unknown


# ------------------------------------------------------------------------------------------------ trace-level RC11

RC_OPS = {"fadd": "fetch_add", "fsub": "fetch_sub", "swap": "swap", "load": "load", "store": "store"}
PM_LOC = 13


def _rc(ev, task=0, obj=0, loc=0, op="none", ord_="rlx", ordf="rlx", obs=0, wr=0, part="none", acc="r", outcome="none", run=0):
    return {"ev": ev, "task": task, "obj": obj, "loc": loc, "op": op, "ord": ord_, "ordf": ordf, "obs": obs, "wr": wr,
            "part": part, "acc": acc, "outcome": outcome, "pool_len": -1, "run": run}


def rc11_records(rid, stim, recs):
    """One recorded run -> events of spec/lib/TraceRC11 (see spec/fdeque/Trace_WakerRC11.tla)."""
    out = [_rc("reset", run=rid)]
    wop = {}                    # task -> (op, f) waker operation in progress
    polling = None              # (f, k) future being polled by task 0
    nwakes = {}                 # (t, f) -> wakes of f invoked by remote t so far
    cur = {}                    # t -> data part published for the wake in progress
    since_check = {}            # f -> data parts of the remote wakes that touched f's activation flag since its last check_activated
    toread = {}                 # f -> data parts the next poll of f reads
    for r in recs:
        ev, t = r["ev"], r.get("task", 0)
        if t > 3 or r.get("f", 0) > 4:
            return None
        if ev == "meta_create":
            f = r["f"]
            out.append(_rc("created", t, f, 4 + f))
            out.append(_rc("atomic", t, f, 4 + f, "store", "rlx", wr=1))     # ref_count: AtomicUsize::new(1)
            out.append(_rc("atomic", t, f, 8 + f, "store", "rlx", wr=1))     # activated: AtomicUsize::new(1)
        elif ev == "meta_free":
            out.append(_rc("release", t, r["f"]))
        elif ev == "winv":
            wop[t] = (r["op"], r["f"])
            if t != 0:
                out.append(_rc("atomic", t, 0, PM_LOC + t, "load", "acq", obs=1))      # took the waker out of its mailbox
                cur.pop(t, None)
                if r["op"] in ("wake", "wake_by_ref"):
                    # publish, then wake: every wake announces something new (a cell of its own: the reader of an earlier
                    # publication and the writer of the next one are not ordered, and need not be)
                    k = nwakes.get((t, r["f"]), 0) + 1
                    nwakes[(t, r["f"])] = k
                    if k <= 3:
                        cur[t] = "data%d_%d" % (t, k)
                        out.append(_rc("cell", t, r["f"], part=cur[t], acc="w"))
        elif ev == "wres":
            wop.pop(t, None)
            cur.pop(t, None)
            if t == 0 and r["op"] == "clone" and polling:
                beh = (stim.get("fut", {}).get(str(polling[0])) or [])
                b = beh[polling[1] - 1] if polling[1] - 1 < len(beh) else "silent"
                if b.startswith("hand") and 1 <= int(b[4:]) <= 3:
                    out.append(_rc("atomic", 0, 0, PM_LOC + int(b[4:]), "store", "rel", wr=1))   # the clone is handed over
        elif ev == "fpoll":
            polling = (r["f"], r["k"])
            for part in sorted(toread.pop(r["f"], set())):
                out.append(_rc("cell", 0, r["f"], part=part, acc="r"))
        elif ev == "fres":
            polling = None
        elif ev == "step":
            f, fld, k = r["f"], r["fld"], r["k"]
            if fld == "parent":
                ctx = wop.get(t)
                obj = ctx[1] if ctx and ctx[0] in ("wake", "wake_by_ref") else 0    # meta.shared_parent is read in wake
                if k == "lock":
                    out.append(_rc("atomic", t, obj, PM_LOC, "swap", "acq", obs=0, wr=1))
                elif k == "unlock":
                    out.append(_rc("atomic", t, 0, PM_LOC, "store", "rel", wr=0))
            elif fld in ("rc", "act") and 1 <= f <= 4:
                loc = (4 if fld == "rc" else 8) + f
                if k == "cas":
                    op = "cas_ok" if r["wr"] >= 0 else "cas_fail"
                else:
                    op = RC_OPS.get(k)
                if op is None:
                    return None
                out.append(_rc("atomic", t, f, loc, op, r["ord"], r["ford"] if r["ford"] != "none" else "rlx",
                               obs=r["obs"], wr=max(r["wr"], 0)))
                if fld == "act":
                    # ANY access of a remote wake to the activation flag counts: a wake that only looks at the flag, finds it
                    # set and returns relies on that activation to get the future polled - and that poll must see what the
                    # waker published before waking
                    if t != 0 and t in cur and wop.get(t, ("", 0))[0] in ("wake", "wake_by_ref") and wop[t][1] == f:
                        since_check.setdefault(f, set()).add(cur[t])
                    elif t == 0 and k == "swap" and r["wr"] == 0:
                        seen = since_check.pop(f, set())
                        if r["obs"] == 1:
                            toread[f] = seen
        elif ev == "end":
            out.append(_rc("end", outcome=r["outcome"]))
    return out


def rc_why_key(rj):
    why, rec = rj.get("why", ""), rj.get("rec", {})
    if why.startswith("data race"):
        loc = rec.get("loc", 0)
        what = {"atomic": "%s.%s" % ("rc" if 5 <= loc <= 8 else "act" if 9 <= loc <= 12 else "parent" if loc == PM_LOC else "box", rec.get("op")),
                "cell": "data-%s" % ("read" if rec.get("acc") == "r" else "write"), "release": "free"}.get(rec.get("ev"), rec.get("ev"))
        return "rc11trace:race:" + what
    return "rc11trace:" + re.sub(r"[^a-z0-9]+", "-", why.lower())[:50]


def judge_rc11(run, wd, name, runs, by_id):
    out, skipped = [], 0
    for rid in sorted(runs):
        rr = rc11_records(rid, by_id.get(rid, {}), runs[rid])
        if rr is None:
            skipped += 1
        else:
            out += rr
    path = os.path.join(wd, name + ".rc11.ndjson")
    write_ndjson(path, out)
    ok, rejects, tr = validate_trace(D, "Trace_WakerRC11", path, cfg="Trace_WakerRC11.cfg", timeout=3000, deque=False)
    run.add_tlc("Trace_WakerRC11 " + name, tr, count_states=False)
    run.cov["rc11_trace_events"] = run.cov.get("rc11_trace_events", 0) + len(out)
    if skipped:
        run.cov["rc11_trace_runs_skipped"] = run.cov.get("rc11_trace_runs_skipped", 0) + skipped
    for rj in rejects:
        if "line" not in rj:
            raise vlib.ToolError("RC11 trace not consumed: %s" % json.dumps(rj)[:500])
        if rj.get("why", "").startswith("recording is not sequentially consistent"):
            raise vlib.ToolError("recorded trace is not SC: %s" % json.dumps(rj)[:400])
        rid = next((out[i]["run"] for i in range(min(rj["line"], len(out)) - 1, -1, -1) if out[i]["ev"] == "reset"), None)
        stim = dict(by_id.get(rid, {}))
        run.violation(rc_why_key(rj), "TraceRC11 rejects recorded run %s: %s at %s" % (rid, rj.get("why"), json.dumps(rj.get("rec"))[:200]),
                      {"stimulus": stim, "why": rj.get("why"), "record": rj.get("rec"), "trace": runs.get(rid, [])[:400], "layer": "rc11trace"})


class Judged:
    def __init__(self):
        self.runs = 0
        self.records = 0
        self.drifted = 0
        self.stats = {}
        self.nontrivial = set()


def judge(run, wd, name, stims, acc, tables, extra=None, cfg="Trace_FutureDeque.cfg"):
    """Runs the harness on stims, validates the trace with TLC (API-level judge and trace-level RC11, in parallel with
    `extra(table, unknown)` if given), reports rejections as violations."""
    from collections import Counter
    from concurrent.futures import ThreadPoolExecutor
    tp, sums, crashed = run_harness(wd, name, stims)
    by_id = {s["id"]: s for s in stims}
    sum_by_id = {s["id"]: s for s in sums}
    if crashed is not None:
        run.violation("fdeque:crash", "harness process died (rc=%s) while running the code under test" % crashed["rc"],
                      {"stimulus": crashed["at"], "stderr": crashed["stderr"]})
    recs = read_ndjson(tp) if os.path.exists(tp) else []
    if not recs:
        return sums
    runs = split_runs(recs)
    tab = ordering_table(runs)
    tables.append(tab)
    with ThreadPoolExecutor(3) as ex:
        f1 = ex.submit(validate_trace, D, "Trace_FutureDeque", tp, cfg, 3000)
        f2 = ex.submit(judge_rc11, run, wd, name, runs, by_id)
        f3 = ex.submit(extra, *merge_tables([tab])) if extra else None
        ok, rejects, tr = f1.result()
        f2.result()
        if f3:
            f3.result()
    run.add_tlc("Trace_FutureDeque " + name, tr, count_states=False)
    acc.runs += len(runs)
    acc.records += len(recs)
    acc.drifted += sum(1 for s in sums if s["drift"] > 0)
    st = Counter()
    scenario_stats(runs, st)
    for k, v in st.items():
        acc.stats[k] = acc.stats.get(k, 0) + v
    for rid, rr in runs.items():
        # non-trivial: a contained future was polled AND a waker of it was woken (by itself or remotely)
        if rid in by_id and any(r["ev"] == "fpoll" for r in rr) and \
                any(r["ev"] == "winv" and r["op"] in ("wake", "wake_by_ref") for r in rr):
            acc.nontrivial.add(stim_signature(by_id[rid]))
    if runs:
        rid = sorted(runs)[len(runs) // 2]
        run.sample({"stimulus": {k: by_id[rid][k] for k in ("dops", "fut", "rops", "strategy") if rid in by_id},
                    "events": len(runs[rid]), "popped": [r["v"] for r in runs[rid] if r["ev"] == "res" and r["r"] == "some"],
                    "drift": sum_by_id.get(rid, {}).get("drift")}, cap=3)
    for rj in rejects:
        if "run" not in rj:
            run.violation("fdeque:judge", "trace rejected: " + json.dumps(rj)[:500], {"reject": rj})
            continue
        rid = rj["run"]
        stim = dict(by_id.get(rid, {}))
        stim["sched"] = sum_by_id.get(rid, {}).get("steps", stim.get("sched"))
        stim["strategy"] = "script"
        key = "fdeque:" + why_key(rj["why"])
        run.violation(key, "%s (run %s, record %s)" % (rj["why"], rid, json.dumps(rj["rec"])[:200]),
                      {"stimulus": stim, "why": rj["why"], "record": rj["rec"], "trace": runs.get(rid, [])})
    return sums


def merge_tables(tables):
    table = {k: set() for k in SITES}
    unknown = {}
    for t, u in tables:
        for k, v in t.items():
            table[k] |= v
        for k, v in u.items():
            unknown[k] = unknown.get(k, 0) + v
    return table, unknown


def wmm(run, wd, table, unknown, thorough):
    """RC11 run of WakerMeta with the orderings the code actually used."""
    tab_out = {k: sorted(v) for k, v in table.items()}
    run.cov["ordering_table"] = tab_out
    run.cov["exhaustive"] = True
    if unknown:
        run.cov["ordering_table_unknown_sites"] = unknown
        run.cov["exhaustive"] = False
        run.assume("structure drift: the instrumented crate performed atomic operations the models do not know (%s); the "
                   "weak-memory run was skipped and the exhaustive claim is withdrawn" % ", ".join(sorted(unknown)))
        return
    for site, ords in table.items():
        if len(ords) != 1:
            if len(ords) == 0:
                raise vlib.ToolError("ordering table: site %s never executed in %d runs" % (site, 0))
            run.cov["exhaustive"] = False
            run.assume("site %s was executed with several orderings %s; weak-memory run skipped" % (site, sorted(ords)))
            return
    cfg = os.path.join(wd, "wmm.cfg")
    with open(cfg, "w") as f:
        f.write("CONSTANTS Remotes = {1, 2}  MaxPolls = 2  MaxROps = %d\n" % (2 if thorough else 1))
        for site, const in SITES.items():
            f.write('  %s = "%s"\n' % (const, list(table[site])[0]))
        f.write("SPECIFICATION Spec\nINVARIANT RaceFree NoUseAfterFree RcExact FreedExactly WakeSeen\nCHECK_DEADLOCK FALSE\n")
    r = tlc(D, "WakerMeta", cfg=cfg, workers=8, timeout=1500, xmx="8g")
    run.add_tlc("WakerMeta through RC11, orderings from the code %s" % json.dumps(tab_out), r)
    if r.error:
        raise vlib.ToolError("WakerMeta RC11 run failed: " + r.error)
    if r.violation:
        weak = sorted("%s=%s" % (s, list(table[s])[0]) for s in SITES
                      if list(table[s])[0] != {"make": "rlx", "clone": "rlx"}.get(s, "acqrel"))
        inv = r.violation.replace("invariant ", "")
        key = "wmm:waker_meta:%s:%s" % (inv, ",".join(weak) if weak else "orderings-as-in-tree")
        run.violation(key, "RC11 model of waker_meta.rs with the orderings measured from the code violates %s "
                           "(metadata storage or published data accessed without happens-before)" % inv,
                      {"ordering_table": tab_out, "counterexample": r.cex[:6000]})


# ------------------------------------------------------------------------------------------------ check

def check(run):
    thorough = run.tier == "thorough"
    vlib.cargo_build([BIN])
    wd = workdir(PID, clean=True)
    acc, tables = Judged(), []

    # (1) explorer against the judge, all interleavings in the bounds; (2) generator; run side by side
    from concurrent.futures import ThreadPoolExecutor
    cex_stims = []
    configs = [("E0", consts(1, 4, 2, 1, 1)), ("E1", consts(2, 3, 2, 2, 1))]
    sims = [("sim", consts(3, 6, 3, 3, 2, mind=3), 40, 6, run.seed % 100000)]
    if thorough:
        configs = [("E0", consts(1, 5, 3, 2, 1)), ("E1", consts(2, 4, 2, 2, 1)), ("E2", consts(3, 4, 2, 1, 1))]
        sims = [("sim", consts(3, 6, 3, 3, 2, mind=4), 150, 8, run.seed % 100000),
                ("sim2", consts(2, 5, 3, 2, 2, mind=3), 100, 4, run.seed % 100000 + 1)]
    model_cex = None
    behs = []
    with ThreadPoolExecutor(3 if thorough else 4) as ex:
        efs = [(name, ex.submit(explore, run, wd, name, c, 6 if thorough else 5, 3000, False, "10g")) for name, c in configs]
        if thorough:
            # liveness under weak fairness (every behaviour ends with everything dropped and released) + action coverage
            efs.append(("L", ex.submit(explore, run, wd, "L", consts(2, 3, 2, 2, 2), 4, 3000, True, "8g", True)))
        sfs = [ex.submit(simulate, run, wd, n_, c, num, w, sd) for n_, c, num, w, sd in sims]
        for name, f in efs:
            r = f.result()
            if r.error:
                raise vlib.ToolError("explorer %s: %s" % (name, r.error))
            if r.violation and name == "L" and not r.violation.startswith("invariant"):
                raise vlib.ToolError("liveness Terminates violated in the model: %s\n%s" % (r.violation, r.cex[:2000]))
            if r.violation and model_cex is None:
                model_cex = (name, r)
                for s in tlc_prints(r.out, "CEX"):
                    cex_stims.append(hist_to_stim(900000 + len(cex_stims), json.loads(s), "send"))
        for f in sfs:
            behs += f.result()[1]

    # (2) spec -> code: behaviours of the explorer (TLC -simulate) become stimulus + schedule for the real crate
    stims, seen = [], set()
    for b in behs:
        s = hist_to_stim(len(stims) + 1, b, ["send", "local"][len(stims) % 2])
        sig = stim_signature(s)
        if sig not in seen:
            seen.add(sig)
            stims.append(s)
    # (3) code -> spec: seeded random stimuli under seeded random / PCT schedules
    rng = random.Random(run.seed)
    n = 1500 if thorough else 250
    rstims = [random_stimulus(rng, 100000 + i) for i in range(n)]
    for s in rstims:
        seen.add(stim_signature(s))
    # one harness process and one TLC validation run for both directions (JVM start-up dominates small runs)
    # (4) weak memory, alongside: WakerMeta through RC11 with the ordering table measured from these very runs
    # the same runs (those that poll with more than one task waker) with task wakers that share their data pointer and
    # differ in the vtable only
    def nparents(st):
        return len({o.get("p") for o in st.get("dops", []) if o.get("op", "").startswith("poll")})
    shared = []
    for st in stims + rstims:
        if nparents(st) >= 2 and len(shared) < (1500 if thorough else 250):
            shared.append(dict(st, id=500000 + len(shared), parents="shared-data"))
    run.cov["shared_data_parent_waker_runs"] = len(shared)
    # the same runs (those with remote waker operations) under task wakers of an executor that holds a per-task lock while it
    # polls and takes it in wake(): the deque must not call wake() while holding a lock its own poll needs
    nlock = 0
    for st in stims + rstims:
        if any(st.get("rops", [[], []])) and nlock < (1200 if thorough else 250):
            shared.append(dict(st, id=600000 + nlock, exec_lock=True))
            nlock += 1
    run.cov["executor_lock_parent_waker_runs"] = nlock
    sums = judge(run, wd, "runs", stims + rstims + shared, acc, tables, extra=lambda t, u: wmm(run, wd, t, u, thorough)) or []
    # many futures activated at the same poll (beyond the explorer's bound; judged with MaxF = 48): every one of them is polled again
    big = []
    for j, (nf, variant, beh) in enumerate([(40, "send", ["wake", "ready"]), (40, "local", ["wake", "ready"]), (33, "send", ["wake", "wake", "ready"]),
                                            (48, "local", ["wake", "ready"]), (36, "send", ["ready"])]):
        dops = [{"op": "push_back" if f % 3 else "push_front", "f": f} for f in range(1, nf + 1)]
        dops += [{"op": "poll", "p": 1}] * (len(beh) + 1) + [{"op": "pop_front"}] * 3 + [{"op": "poll", "p": 2}, {"op": "drop"}]
        big.append({"id": 700000 + j, "variant": variant, "dops": dops, "fut": {str(f): beh for f in range(1, nf + 1)}, "rops": [[], []],
                    "strategy": "random", "seed": run.seed + j})
    # ... and many futures woken REMOTELY between two polls: every future hands its waker to remote thread 1 at its first
    # poll, the remote thread wakes all of them, the next deque poll has to poll every one of them
    for j, nf in enumerate([40, 36, 48, 40]):
        dops = [{"op": "push_back", "f": f} for f in range(1, nf + 1)]
        dops += [{"op": "poll", "p": 1}] * 5 + [{"op": "pop_front"}] * 2 + [{"op": "drop"}]
        big.append({"id": 700100 + j, "variant": ["send", "local"][j % 2] if False else "send", "dops": dops,
                    "fut": {str(f): ["hand1", "ready"] for f in range(1, nf + 1)},
                    # the remote thread first waits for the waker of the LAST future (every future has been polled once by
                    # then, in however many deque polls that took), then wakes all of them in one go
                    "rops": [[{"op": "wake_by_ref", "f": f} for f in [nf] + list(range(1, nf))], []],
                    "strategy": ["random", "pct", "random", "pct"][j], "seed": run.seed + 31 * j})
    cfg_big = os.path.join(wd, "Trace_FutureDeque_big.cfg")
    open(cfg_big, "w").write(open(os.path.join(D, "Trace_FutureDeque.cfg")).read().replace("MaxF = 4", "MaxF = 48"))
    judge(run, wd, "manyfutures", big, acc, tables, cfg=cfg_big)
    run.cov["many_futures_runs"] = len(big)
    replay_drift = sum(1 for s in sums if s["id"] < 100000 and s["drift"] > 0)

    # a counterexample of the explorer must be reproduced by the real code, otherwise it is a modelling error
    if model_cex:
        if cex_stims:
            judge(run, wd, "cex", cex_stims[:20], acc, tables)
        if len(run.violations) + len(run.known_hits) == 0:
            raise vlib.ToolError("explorer %s reports %s but the real code does not reproduce it (model drift)\n%s"
                                 % (model_cex[0], model_cex[1].violation, model_cex[1].cex[:3000]))

    if replay_drift > 0:
        run.cov["exhaustive"] = False

    run.cov["traces_validated_against_impl"] = acc.runs
    run.cov["evaluations"] = acc.records
    run.cov["distinct_nontrivial"] = len(acc.nontrivial)
    run.cov["distinct_stimuli"] = len(seen)
    run.cov["replayed_behaviours"] = len(stims)
    run.cov["replay_drifted_runs"] = replay_drift
    run.cov["scenarios_on_real_code"] = acc.stats
    # implementation fact, not a verdict of the judge (which allows more parent wakes than necessary)
    run.cov["parent_woken_exactly_once_per_activation"] = acc.stats.get("parent_wakes", 0) == acc.stats.get("activations_0_to_1", 0)
    wanted = ["remote_wake_found_flag_set", "remote_wake_set_flag", "stale_parent_woken_after_parent_change",
              "meta_freed_by_remote", "remote_wake_after_deque_drop", "repolls", "check_activated_false",
              "remote_wake_started_during_deque_poll", "parent_replaced"]
    for w in wanted:
        if acc.stats.get(w, 0) == 0:
            run.cov["uncovered_actions"].append("real-code scenario never occurred: " + w)
    run.cov["rule"] = ("TLC checks the implementation-shaped explorer (one action per scheduling point: deque operations, shimmed "
                       "atomics of waker_meta.rs, parent mutex, parent wake) composed with the judge for every interleaving of the "
                       "deque task and 2 remote threads in the listed bounds; %d complete behaviours generated by TLC -simulate "
                       "(<=3 futures) were replayed as scripts on the real FutureDeque/LocalFutureDeque (runs that drifted: %d) and %d "
                       "seeded random stimuli ran under seeded random/PCT schedules; every run (popped values, polls per future, "
                       "parent wakes, drops, metadata create/free, every atomic step) was judged by FutureDequeAbs in TLC; "
                       "WakerMeta was model-checked through RC11 with the orderings extracted from those step logs; "
                       "distinct_nontrivial = distinct stimuli (operations, future scripts, remote programs, schedule) in whose run a contained "
                       "future was polled and one of its wakers was woken" % (len(stims), replay_drift, n))
    run.assume("the deterministic scheduler serialises the real threads at the scheduling points of hook H8; between two points a "
               "thread runs alone (critical sections of the parent mutex contain no scheduling point)")
    run.assume("weak-memory behaviour is decided on the RC11 model (no load buffering, no SC fences), never observed")
    run.assume("handing a Waker to another thread synchronises (release/acquire), as a channel or mutex would")


# ------------------------------------------------------------------------------------------------ replay / selftest

def replay(path):
    rep = json.load(open(path))
    obj = rep["replay"]
    wd = workdir(PID, "replay_run", clean=True)
    if "stimulus" not in obj or not obj["stimulus"]:
        print(json.dumps(obj, indent=1)[:6000])
        if "ordering_table" in obj:
            print("weak-memory counterexample: re-run `bin/check C15 quick` to re-measure the ordering table")
        return 1
    stim = dict(obj["stimulus"])
    stim["id"] = 1
    tp, sums, crashed = run_harness(wd, "replay", [stim])
    if crashed:
        print("harness crashed again:", crashed["rc"])
        return 1
    ok, rejects, tr = validate_trace(D, "Trace_FutureDeque", tp, cfg="Trace_FutureDeque.cfg")
    print("drift:", sums[0]["drift"] if sums else "?", "accepted:", ok)
    for rj in rejects:
        print("REJECT", json.dumps(rj)[:800])
    return 0 if ok else 1


def selftest():
    """Binding self-tests: corrupted traces must be rejected; seeded defects of the MODEL must be caught by TLC."""
    wd = workdir(PID, "selftest", clean=True)
    vlib.cargo_build([BIN])
    fails = []
    stim = {"id": 1, "variant": "send",
            "dops": [{"op": "push_back", "f": 1}, {"op": "push_front", "f": 2}, {"op": "poll", "p": 1}, {"op": "poll", "p": 2},
                     {"op": "poll_front", "p": 2}, {"op": "pop_back"}, {"op": "drop"}],
            "fut": {"1": ["hand1", "ready"], "2": ["wake", "ready"]},
            "rops": [[{"op": "wake_by_ref", "f": 1}, {"op": "clone", "f": 1}, {"op": "wake", "f": 1}], []],
            "strategy": "random", "seed": 5}
    tp, sums, crashed = run_harness(wd, "good", [stim])
    ok, rejects, _ = validate_trace(D, "Trace_FutureDeque", tp, cfg="Trace_FutureDeque.cfg")
    if not ok:
        fails.append("good trace rejected: %s" % rejects)
    recs = read_ndjson(tp)

    def variant(name, f, expect):
        out = f([dict(r) for r in recs])
        p = os.path.join(wd, name + ".ndjson")
        write_ndjson(p, out)
        ok2, rej, _ = validate_trace(D, "Trace_FutureDeque", p, cfg="Trace_FutureDeque.cfg")
        whys = [r.get("why", "") for r in rej]
        good = (not ok2) and any(w.startswith(expect) for w in whys)
        print("selftest corrupted trace %-28s -> %s %s" % (name, "rejected" if not ok2 else "ACCEPTED", whys[:1]))
        if not good:
            fails.append("%s: expected rejection '%s', got %s" % (name, expect, whys))

    def change_popped(rs):
        for r in rs:
            if r["ev"] == "res" and r["r"] == "some":
                r["v"] = r["v"] + 1 if r["v"] == 11 else 11
                break
        return rs

    def delete_pwake(rs):          # the remote wake no longer wakes the parent
        return [r for r in rs if not (r["ev"] == "pwake" and r["task"] != 0)]

    def delete_free(rs):
        i = max(i for i, r in enumerate(rs) if r["ev"] == "meta_free")
        return rs[:i] + rs[i + 1:]

    def delete_repoll(rs):         # the woken future is not polled again
        out, skip = [], False
        for r in rs:
            if r["ev"] == "fpoll" and r["f"] == 1 and r["k"] == 2:
                skip = True
            if skip and r["ev"] in ("fpoll", "fres", "fdrop", "hpoll", "hdone") and r.get("f", 1) == 1:
                if r["ev"] == "fres":
                    skip = False
                continue
            out.append(r)
        return out

    def swap_free_before_last_drop(rs):   # free moved in front of the invocation of the last remote drop
        i = max(i for i, r in enumerate(rs) if r["ev"] == "meta_free" and r["task"] != 0)
        j = max(k for k in range(i) if rs[k]["ev"] == "winv" and rs[k]["op"] in ("drop", "wake") and rs[k]["task"] == rs[i]["task"])
        return rs[:j] + [rs[i]] + rs[j:i] + rs[i + 1:]

    def double_fdrop(rs):
        i = max(i for i, r in enumerate(rs) if r["ev"] == "fdrop")
        return rs[:i + 1] + [rs[i]] + rs[i + 1:]

    def extra_poll(rs):            # a poll of a future that was neither inserted nor woken
        i = max(i for i, r in enumerate(rs) if r["ev"] == "fres" and r["r"] == "pending" and r["f"] == 2)
        return rs[:i + 1] + [{"ev": "fpoll", "f": 2, "k": 2, "task": 0}, {"ev": "fres", "f": 2, "r": "pending", "v": 0, "task": 0}] + \
            [dict(r, k=r["k"] + 1) if (r["ev"] == "fpoll" and r["f"] == 2) else r for r in rs[i + 1:]]

    variant("popped-value-changed", change_popped, "order:")
    variant("last-free-deleted", delete_free, "metadata")
    variant("free-before-last-drop", swap_free_before_last_drop, "metadata freed while")
    variant("future-dropped-twice", double_fdrop, "future dropped twice")
    variant("spurious-poll-inserted", extra_poll, "future polled although")

    # a hand-written schedule: the remote wake comes after the last deque poll, so only the parent wake-up keeps the
    # deque's task alive; without it the trace must be rejected
    stim2 = {"id": 2, "variant": "local", "dops": [{"op": "push_back", "f": 1}, {"op": "poll", "p": 1}, {"op": "pop_front"}, {"op": "drop"}],
             "fut": {"1": ["hand1"]}, "rops": [[{"op": "wake_by_ref", "f": 1}], []], "strategy": "script", "seed": 1,
             "sched": [[0, "start"], [1, "start"], [2, "start"], [0, "dop"], [0, "rc.fadd"], [0, "dop"], [0, "parent.lock"],
                       [0, "act.swap"], [0, "rc.fadd"], [1, "rop"], [1, "act.swap"], [1, "parent.lock"], [1, "pwake"], [0, "dop"],
                       [0, "dop"], [0, "rc.fsub"], [0, "rc.fsub"], [1, "rop"], [1, "rc.fsub"], [1, "rop"], [2, "rop"]]}
    tp2, sums2, _ = run_harness(wd, "good2", [stim2])
    ok, rejects, _ = validate_trace(D, "Trace_FutureDeque", tp2, cfg="Trace_FutureDeque.cfg")
    if not ok or sums2[0]["drift"] != 0:
        fails.append("hand-written schedule: accepted=%s drift=%s %s" % (ok, sums2[0]["drift"], rejects))
    recs = read_ndjson(tp2)
    variant("remote-parent-wake-deleted", delete_pwake, "wake lost: parent")

    def swap_wake_after_drop(rs):   # two events of different threads exchanged: the remote wake returns after the deque is gone
        i = next(i for i, r in enumerate(rs) if r["ev"] == "pwake")
        return rs[:i] + rs[i + 1:i + 2] + [rs[i]] + rs[i + 2:]
    variant("wres-before-pwake", swap_wake_after_drop, "wake lost: parent")

    # trace-level RC11: weakening the recorded ordering of one site must produce a race in the replayed step log
    good_recs = read_ndjson(tp)
    for site, (fld, k, wr, expect) in {"release_ref": ("rc", "fsub", None, "race:free"), "wake": ("act", "swap", 1, "race:data-read"),
                                       "none": ("-", "-", None, None)}.items():
        rr = [dict(r) for r in good_recs if r["ev"] != "reset"]
        for x in rr:
            if x["ev"] == "step" and x["fld"] == fld and x["k"] == k and (wr is None or x["wr"] == wr):
                x["ord"] = "rlx"
        path = os.path.join(wd, "rc11_%s.ndjson" % site)
        write_ndjson(path, rc11_records(1, stim, rr))
        ok2, rej, _ = validate_trace(D, "Trace_WakerRC11", path, cfg="Trace_WakerRC11.cfg", deque=False)
        keys = [rc_why_key(r) for r in rej]
        print("selftest trace-level RC11 %-12s -> rlx: %s" % (site, keys[:1] if keys else "accepted"))
        if (expect is None) != ok2 or (expect and not any(expect in k2 for k2 in keys)):
            fails.append("trace-level RC11 %s: expected %s, got %s" % (site, expect, keys))

    # seeded defects of the model: the exhaustive run has teeth
    for mut, c, expect in [("check_load_store", consts(2, 4, 2, 1, 1, mut="check_load_store"), "wake lost"),
                           ("wake_only_if_set", consts(2, 3, 2, 1, 1, mut="wake_only_if_set"), "wake lost"),
                           ("no_parent_update", consts(2, 3, 2, 1, 1, mut="no_parent_update"), "wake lost"),
                           ("push_front_at_back", consts(2, 3, 2, 1, 1, mut="push_front_at_back"), "order"),
                           ("early_free", consts(2, 3, 2, 1, 1, mut="early_free"), "metadata")]:
        r = explore(None, wd, "mut_" + mut, c)
        whys = [w for w in re.findall(r'why \|-> "([^"]*)"', r.out or "") if w]
        good = r.violation is not None and whys and whys[-1].startswith(expect)
        print("selftest model defect %-20s -> %s %s (%d states)" % (mut, r.violation, whys[-1:] if whys else "", r.distinct))
        if not good:
            fails.append("model defect %s not caught as expected: %s %s" % (mut, r.violation, whys[-1:]))
    # weakened orderings in the RC11 model
    for site in ("check", "wake", "release"):
        table = {"make": {"rlx"}, "clone": {"rlx"}, "check": {"acqrel"}, "wake": {"acqrel"}, "release": {"acqrel"}}
        table[site] = {"rlx"}
        cfg = os.path.join(wd, "wmm_%s.cfg" % site)
        with open(cfg, "w") as f:
            f.write("CONSTANTS Remotes = {1, 2}  MaxPolls = 2  MaxROps = 1\n")
            for s, const in SITES.items():
                f.write('  %s = "%s"\n' % (const, list(table[s])[0]))
            f.write("SPECIFICATION Spec\nINVARIANT RaceFree NoUseAfterFree RcExact FreedExactly WakeSeen\nCHECK_DEADLOCK FALSE\n")
        r = tlc(D, "WakerMeta", cfg=cfg, workers=4, timeout=600)
        print("selftest RC11 %s -> rlx: %s" % (site, r.violation))
        if r.violation != "invariant RaceFree":
            fails.append("RC11: weakening %s not caught (%s)" % (site, r.violation or r.error))
    for f in fails:
        print("SELFTEST FAILURE:", f)
    print("selftest C15:", "FAILED" if fails else "ok")
    return 1 if fails else 0
