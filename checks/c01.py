"""C01 - pooled objects keep one stable, exclusive, aligned address while alive.

  SlabPool.tla (explorer) is model-checked against its invariants (SlabInv), the action property StableExclusive and the
  refinement to the judge PoolAbs.tla; SlabLayout.tla / VacancyMap.tla settle the slot geometry and the bitmap.
  Every transition of the explorer's graph is replayed on the nine real pool types (harness/h_pool, hook H1 makes slabs
  Cap objects wide), plus seeded random histories, a history that crosses the real 64-bit bitmap block and a sweep over
  all payload layouts. Trace_PoolAbs judges every recorded operation (addresses, values, byte ranges, slab geometry,
  soundness invariants on the probed bookkeeping).  See checks/pool_common.py.
"""
import json, os
import vlib
from vlib import tlc, workdir, log
import pool_common as pc

PID = "C01"


def explorer_jobs(run, wd):
    thorough = run.tier == "thorough"
    jobs = pc.Jobs()
    # (name, cap, block, slabs, reserve, keys, properties)
    cfgs = [("x1", 2, 2, 4, 3, "OneKey", "StableExclusive CapacityContract RefinesPoolAbs"),
            ("x2", 3, 2, 3, 3, "OneKey", "StableExclusive"),
            ("x3", 2, 4, 6, 2, "OneKey", ""),
            ("x4", 2, 2, 2, 2, "TwoKeys", "StableExclusive RefinesPoolAbs")]
    if thorough:
        cfgs = [("x1", 2, 2, 6, 4, "OneKey", "StableExclusive CapacityContract RefinesPoolAbs"),
                ("x2", 3, 2, 4, 4, "OneKey", "StableExclusive CapacityContract"),
                ("x3", 2, 4, 8, 3, "OneKey", "StableExclusive"),
                ("x4", 2, 2, 3, 2, "TwoKeys", "StableExclusive CapacityContract RefinesPoolAbs"),
                ("x5", 3, 4, 6, 2, "OneKey", "")]
    w = 6 if thorough else 4
    for (name, cap, block, slabs, reserve, keys, props) in cfgs:
        label = "SlabPool explorer Cap=%d Block=%d MaxSlabs=%d MaxReserve=%d %s [%s]" % (cap, block, slabs, reserve, keys, props or "invariants")
        jobs.add(label, lambda n=name, c=cap, b=block, s=slabs, rv=reserve, k=keys, p=props: tlc(
            pc.D, "MC_SlabPool", cfg=pc.slab_cfg(os.path.join(wd, n + ".cfg"), c, b, s, rv, keys=k, props=p), workers=w,
            timeout=2400 if thorough else 900, xmx="10g", coverage=thorough and n == "x1", env=pc.JOPT))
    jobs.add("SlabLayout size 1..40 x align 1..64 x 8 tag layouts x 3 bases, Cap=3",
             lambda: tlc(pc.D, "SlabLayout", cfg="MC_SlabLayout.cfg", workers=2, timeout=900, env=pc.JOPT))
    for (block, maxlen) in ((2, 6), (4, 10)):
        jobs.add("VacancyMap Block=%d MaxLen=%d pool usage" % (block, maxlen),
                 lambda bl=block, ml=maxlen: tlc(pc.D, "VacancyMap", cfg=vm_cfg(wd, bl, ml, True), workers=2, timeout=900, env=pc.JOPT))
    return jobs


def vm_cfg(wd, block, maxlen, pool_usage):
    p = os.path.join(wd, "vm_%d_%d_%s.cfg" % (block, maxlen, pool_usage))
    with open(p, "w") as f:
        f.write("CONSTANTS Block = %d  MaxLen = %d  PoolUsage = %s\nSPECIFICATION Spec\nINVARIANTS TypeOK Refines FirstOneOK %s\n"
                "CHECK_DEADLOCK FALSE\n" % (block, maxlen, "TRUE" if pool_usage else "FALSE", "LeftoverOnes" if pool_usage else ""))
    return p


def check(run):
    wd = workdir(PID, clean=True)
    vlib.cargo_build(["h_pool"])
    jobs = explorer_jobs(run, wd)
    bundle = pc.produce(run)
    model_cex = []
    for name, r in jobs.join():
        pc.must_hold(run, name, r)
        if r.violation:
            model_cex.append((name, r))
    nrec = 0
    for name, path in bundle.traces:
        nrec += pc.judge(run, "Trace_PoolAbs", name, path, "pool")
    compared, drift, first = pc.measure_drift(bundle, bundle.traces[0][1])
    if model_cex and not run.violations and not run.known_hits:
        name, r = model_cex[0]
        raise vlib.ToolError("explorer reports %s in %s but the real pools do not reproduce it (modelling error)\n%s"
                             % (r.violation, name, r.cex[:3000]))
    recs = vlib.read_ndjson(bundle.traces[0][1])
    crossed = sum(1 for r in recs if r.get("ev") == "op" and r.get("full") == 1 and any(p["lenBits"] > 64 for p in r.get("pr", [])))
    run.cov["distinct_nontrivial"] = bundle.edges_total
    run.cov["drift"] = drift
    run.cov["drift_compared"] = compared
    run.cov["generators"] = bundle.gen_stats
    run.cov["stimuli"] = len(bundle.stims)
    run.cov["records_probed_beyond_64_slabs"] = crossed
    if first:
        run.cov["first_drift"] = first
    run.cov["exhaustive"] = drift == 0 and not model_cex
    run.cov["rule"] = ("distinct = transitions of the explorer graphs (SlabPool: every insert/insert_with ok|panic/remove/remove_unpin/"
                       "reserve/shrink_to_fit edge for the generator constants; Handles: every handle operation edge), each covered by a walk "
                       "from the initial state and replayed on the real pools; every recorded operation (replay + seeded random histories) is "
                       "judged by Trace_PoolAbs; drift = replayed steps whose probed bookkeeping differs from the explorer's prediction")
    if crossed == 0:
        run.cov["uncovered_actions"].append("replay: no probed state had more than 64 slabs (real bitmap block boundary not crossed)")
    for r in recs:
        if r.get("ev") == "op" and r.get("full") == 1 and r.get("op") == "destroy":
            run.sample({k: r[k] for k in ("op", "o", "hs", "iv", "loc", "len") if k in r})
            break
    run.sample(bundle.stims[len(bundle.stims) // 3])
    run.assume("the allocator returns slab blocks aligned to the requested layout (SlabLayout.tla takes base = k * slot align)")
    run.assume("addresses are mapped to small ids and byte ranges rank-compressed by the harness (order and equality preserved)")
    run.assume("TLC bounds: Cap in {2,3}, Block in {2,4}, see tlc_runs; the real block size 64 is reached by replay only")
    log("C01: %d records judged, drift %d/%d, %d stimuli, %d probed records beyond 64 slabs" % (nrec, drift, compared, len(bundle.stims), crossed))


def replay(path):
    rep = json.load(open(path))
    body = rep["replay"]
    wd = workdir(PID, "replay_run", clean=True)
    vlib.cargo_build(["h_pool"])
    tp = os.path.join(wd, "trace.ndjson")
    if body.get("stimulus"):
        sp = os.path.join(wd, "stim.ndjson")
        vlib.write_ndjson(sp, [body["stimulus"]])
        vlib.run_bin("h_pool", ["replay", sp, tp], env={"VERIF_SEED": rep.get("seed", 0)})
    else:
        # a seeded random history: re-record it and keep only that history
        idx = int(str(body["random_history"]).split("-")[1])
        full = os.path.join(wd, "full.ndjson")
        vlib.run_bin("h_pool", ["random", full, idx + 1, 400], env={"VERIF_SEED": rep.get("seed", 0)})
        recs = vlib.read_ndjson(full)
        start = max(i for i, r in enumerate(recs) if r.get("ev") == "reset")
        vlib.write_ndjson(tp, recs[start:])
    module = body.get("judge", "Trace_PoolAbs")
    r = tlc(pc.D, module, cfg=module + ".cfg", workers=1, env={"TRACE": tp}, timeout=900, xss="1g", deque=True)
    rejects = [json.loads(s) for s in vlib.tlc_prints(r.out, "REJECT")]
    for rj in rejects:
        print("REJECT", json.dumps(rj))
    print("replayed %s: %d records, %d rejected" % (rep["key"], len(vlib.read_ndjson(tp)), len(rejects)))
    return 1 if rejects else 0


def selftest():
    """Corrupted-trace tests (the judge is bound to the fields it reads) and model mutants (the lemmas are not vacuous)."""
    wd = workdir(PID, "selftest", clean=True)
    vlib.cargo_build(["h_pool"])
    sp = os.path.join(wd, "stim.ndjson")
    st = pc.boundary64_stim("self-b64", "RawOpaquePool")
    st["ops"] = st["ops"][:20] + [["insert", 0], ["share", 1], ["clone", 1], ["destroy", 2], ["shrink"], ["drop_pool"]]
    st["ops"] = [[x for x in o if x != "q"] for o in st["ops"]]
    vlib.write_ndjson(sp, [st])
    tp = os.path.join(wd, "trace.ndjson")
    vlib.run_bin("h_pool", ["replay", sp, tp])
    ok = True

    def mut_value(recs):
        recs[10]["hs"][2][3] += 1

    def mut_addr(recs):
        recs[12]["hs"][0][2] = 999

    def mut_align(recs):
        recs[9]["hs"][1][4] = 4

    def mut_overlap(recs):
        recs[8]["iv"][1][1] = recs[8]["iv"][0][1]
        recs[8]["iv"][1][2] = recs[8]["iv"][0][2] + 1

    def mut_tag(recs):
        recs[7]["loc"][0][4] -= 8

    def mut_occupied(recs):
        recs[7]["pr"][0]["slabs"][0][2][0] = 3

    def mut_bit(recs):
        recs[7]["pr"][0]["blocks"][0][0] = 1     # slab 1 is full, bit says vacant

    def mut_delete(recs):
        del recs[5]                              # an insert disappears: later handles refer to an unknown object

    for tag, m, why in (("value", mut_value, "value-changed"), ("address", mut_addr, "address-changed"),
                        ("align", mut_align, "misaligned"), ("overlap", mut_overlap, "objects-overlap"),
                        ("tag", mut_tag, "object-overlaps-occupancy-tag"),
                        ("occupied", mut_occupied, "slot-of-live-object-not-tagged-occupied"),
                        ("bit", mut_bit, "vacancy-index-advertises-full-or-missing-slab"),
                        ("delete", mut_delete, "handle-of-dead-object")):
        ok = pc.corrupt_and_expect("Trace_PoolAbs", tp, m, why, wd, tag) and ok
    # model mutants: the lemmas must fail
    r = tlc(pc.D, "SlabLayout", cfg="MC_SlabLayout_mutant.cfg", workers=2, timeout=300)
    log("selftest SlabLayout without pad_to_align:", r.violation)
    ok = ok and r.violation is not None
    r = tlc(pc.D, "VacancyMap", cfg=vm_cfg(wd, 2, 6, False), workers=2, timeout=300)
    log("selftest VacancyMap with arbitrary callers (latent: resize relies on leftover bits):", r.violation)
    ok = ok and r.violation is not None
    print("selftest C01:", "ok" if ok else "FAILED")
    return 0 if ok else 1
