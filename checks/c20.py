"""C20 — statistical primitives match their definitions (discrete part).

  spec/stats/RankStats.tla        judge: the statistics as definitions over integers / exact rationals
  spec/stats/MC_RankStats.tla     TLC enumerates every weak order of <= N points (x every split), checks laws on the
                                  definitions (swap symmetry, invariance under increasing maps, ...) and prints stimuli
  spec/stats/MC_BH.tla            Benjamini-Hochberg families (dyadic p-values x q x family size)
  spec/stats/Trace_RankStats.tla  the judge applied to what harness/h_stats recorded from the real cbh_stats

The judge re-evaluates the definitions on every recorded input, so the stimulus file is not trusted; the expected values
TLC printed with the stimuli are used only to name the failing quantity in a violation key.
"""
import json, os, threading
import vlib
from vlib import SPEC, workdir, tlc, tlc_prints, validate_trace, write_ndjson, read_ndjson

PID = "C20"
D = os.path.join(SPEC, "stats")
TRACE_CFG = "SPECIFICATION TraceSpec\nPOSTCONDITION Accepted\nCHECK_DEADLOCK FALSE\n"


def par_map(jobs):
    """jobs: list of (name, fn) run concurrently; returns {name: result}; re-raises the first exception"""
    res, err, th = {}, {}, []
    for name, fn in jobs:
        def w(name=name, fn=fn):
            try:
                res[name] = fn()
            except Exception as e:  # noqa
                err[name] = e
        t = threading.Thread(target=w)
        t.start()
        th.append(t)
    for t in th:
        t.join()
    for e in err.values():
        raise e
    return res


def judge_chunks(run, wd, lines, tag, nchunks, overlap=0, timeout=3000):
    """split the ndjson lines into chunks, judge them concurrently; returns [(global_line, rec)] of rejected records"""
    n = len(lines)
    if n == 0:
        return []
    size = max(1, (n + nchunks - 1) // nchunks)
    jobs, offs = [], []
    for c in range(0, n, size):
        lo = max(0, c - overlap)
        p = os.path.join(wd, "%s_%d.ndjson" % (tag, len(offs)))
        with open(p, "w") as f:
            f.write("\n".join(lines[lo:c + size]) + "\n")
        cfg = os.path.join(wd, "tr_%s_%d.cfg" % (tag, len(offs)))
        open(cfg, "w").write(TRACE_CFG)
        offs.append(lo)
        jobs.append((len(offs) - 1, (lambda p=p, cfg=cfg: validate_trace(D, "Trace_RankStats", p, cfg=cfg, timeout=timeout, xmx="4g"))))
    res = par_map(jobs)
    out = []
    for i in sorted(res):
        ok, rejects, tr = res[i]
        run.add_tlc("Trace_RankStats %s chunk %d" % (tag, i), tr, count_states=False)
        for rj in rejects:
            if "line" not in rj:
                raise vlib.ToolError("unexpected judge output: %s" % json.dumps(rj)[:600])
            out.append((offs[i] + rj["line"], rj["rec"]))
    return out


def read_lines(path):
    with open(path) as f:
        return [ln for ln in f.read().split("\n") if ln.strip()]


def dumps(recs):
    return [json.dumps(r, separators=(",", ":")) for r in recs]


def exp_index(rcases):
    return {json.dumps(c["x"]): c for c in rcases}


def classify(rec, exp):
    """name the failing quantity (diagnosis only)"""
    op = rec.get("op")
    if rec.get("tag") == "signedzero":
        return "signed-zero:%s" % op
    if op == "split":
        e = exp.get(json.dumps(rec["x"]))
        row = rec["r"][0]
        if e and rec["t"] <= len(e["splits"]):
            pn, tot, u = e["splits"][rec["t"] - 1]
            for k, r in enumerate(rec["r"]):
                if r[1] != pn or r[9] != pn:
                    return "split:exact-p" + (":emb" if k else "")
                if r[3] != u or r[11] != u:
                    return "split:superiority" + (":emb" if k else "")
                if r[5] != pn or r[7] != 2 * rec["t"] * (len(rec["x"]) - rec["t"]) - u:
                    return "split:swap-symmetry"
        if any(r != row for r in rec["r"]):
            return "split:not-invariant-under-increasing-map"
        return "split:exact-p-or-superiority"
    if op == "seq":
        e = exp.get(json.dumps(rec["x"]))
        if any(r != rec["rank"][0] for r in rec["rank"]) or any(r != rec["pp"][0] for r in rec["pp"]):
            return "seq:not-invariant-under-increasing-map"
        if e and len(rec["x"]) >= 2:
            r = rec["rank"][0]
            if r[2] != e["petk"] or r[1] != e["petidx"]:
                return "seq:pettitt"
            if r[3] != (e["mks"] if len(rec["x"]) >= 3 else 0):
                return "seq:mann-kendall-s"
            if r[5] != e["petidx"]:
                return "seq:selection-index"
            pn, tot, u = e["splits"][e["petidx"] - 1]
            if r[6] != pn or r[8] != u:
                return "seq:selection-split-statistics"
        if rec.get("frac"):
            return "seq:non-integer-statistic"
        return "seq:theil-sen-median-p-range-or-permutation-component"
    if op == "bh":
        return "bh:panic" if rec.get("panic") else "bh:keep-mask"
    if op == "ts":
        return "ts:theil-sen-median-or-mann-kendall-s-beyond-the-exhaustive-bound"
    if op == "mkb":
        return "mkb:mann-kendall-s-or-variance-on-long-tied-series"
    if op == "ord":
        return "ord:%s-p-not-a-decreasing-function-of-the-statistic" % rec.get("kind")
    return str(op)


def mkb_hint(blocks):
    from fractions import Fraction
    s = 0
    for j, b in enumerate(blocks):
        s += b[2] * (b[0] * (b[0] - 1) // 2)
        for a in blocks[:j]:
            s += a[0] * b[0] * ((b[1] > a[1]) - (b[1] < a[1]))
    n = sum(b[0] for b in blocks)
    groups = {}
    for b in blocks:
        if b[2] == 0:
            groups[b[1]] = groups.get(b[1], 0) + b[0]
    v = n * (n - 1) * (2 * n + 5) - sum(t * (t - 1) * (2 * t + 5) for t in groups.values())
    return Fraction(0) if n < 3 or v <= 0 or abs(s) <= 1 else Fraction((abs(s) - 1) ** 2 * 18, v)


def ord_records(recs, exp):
    """seq records sorted by the reported p (descending), once for Mann-Kendall and once for Pettitt.  Records with equal
    p are ordered by the statistic TLC printed with the stimulus (a hint only: the judge re-derives the statistic from x
    and verifies the order, so a wrong hint can only cause a rejection, never hide one)."""
    from fractions import Fraction

    def hint(kind, x):
        e = exp.get(json.dumps(x))
        n = len(x)
        if not e:
            return Fraction(0)
        if kind == "pet":
            return Fraction(e["petk"] ** 2, n ** 3 + n ** 2) if n >= 2 else Fraction(0)
        s = abs(e["mks"])
        return Fraction(0) if n < 3 or e["var18"] <= 0 or s <= 1 else Fraction((s - 1) ** 2 * 18, e["var18"])
    mk = [{"op": "ord", "kind": "mk", "x": r["x"], "p": r["pp"][0][2:4]} for r in recs if r.get("op") == "seq"]
    pt = [{"op": "ord", "kind": "pet", "x": r["x"], "p": r["pp"][0][0:2]} for r in recs if r.get("op") == "seq" and len(r["x"]) >= 2]
    key = lambda r: (-r["p"][0], -r["p"][1], hint(r["kind"], r["x"]), len(r["x"]), r["x"])
    return sorted(mk, key=key), sorted(pt, key=key)


def check(run):
    thorough = run.tier == "thorough"
    wd = workdir(PID, clean=True)
    vlib.cargo_build(["h_stats"])
    maxn = 7 if thorough else 6
    lawn = 6 if thorough else 5
    c_rs = os.path.join(wd, "mc_rs.cfg")
    open(c_rs, "w").write("CONSTANTS MinN = 0 MaxN = %d LawN = %d\nINIT Init\nNEXT Next\nINVARIANT Laws GenCase\nCHECK_DEADLOCK FALSE\n" % (maxn, lawn))
    c_bh = os.path.join(wd, "mc_bh.cfg")
    open(c_bh, "w").write("CONSTANTS MaxLen = 3 MaxTie = %d\nINIT Init\nNEXT Next\nINVARIANT Laws GenCase\nCHECK_DEADLOCK FALSE\n" % (64 if thorough else 40))
    res = par_map([("rs", lambda: tlc(D, "MC_RankStats", cfg=c_rs, workers=10 if thorough else 8, timeout=3000, xmx="8g")),
                   ("bh", lambda: tlc(D, "MC_BH", cfg=c_bh, workers=2, timeout=1500))])
    for nm, label in (("rs", "RankStats definitions: laws + every weak order of <= %d points x every split" % maxn),
                      ("bh", "Benjamini-Hochberg: families of <= 3 dyadic p-values x q x family size")):
        r = res[nm]
        run.add_tlc(label, r)
        if r.error:
            raise vlib.ToolError("%s: %s" % (nm, r.error))
        if r.violation:
            # a law of the definitions fails: the judge itself is wrong; never a verdict on the code
            raise vlib.ToolError("%s: the definitions violate their own laws (%s)\n%s" % (nm, r.violation, r.cex[:2000]))
    rcases = [json.loads(s) for s in tlc_prints(res["rs"].out, "RCASE")]
    bcases = [json.loads(s) for s in tlc_prints(res["bh"].out, "BCASE")]
    nsplits = sum(max(0, len(c["x"]) - 1) for c in rcases)
    if len(rcases) < 5000 or len(bcases) < 10000:
        raise vlib.ToolError("generators produced too little: %d %d" % (len(rcases), len(bcases)))
    f_r, f_b = os.path.join(wd, "rcases.ndjson"), os.path.join(wd, "bcases.ndjson")
    write_ndjson(os.path.join(wd, "rcases_expected.ndjson"), rcases)
    write_ndjson(f_r, [{"x": c["x"]} for c in rcases])
    write_ndjson(f_b, [{"p": c["p"], "q": c["q"], "m": c["m"]} for c in bcases])
    t_r, t_b, t_x = (os.path.join(wd, n) for n in ("ranks_trace.ndjson", "bh_trace.ndjson", "rand_trace.ndjson"))
    env = {"VERIF_SEED": run.seed}
    vlib.run_bin("h_stats", ["ranks", f_r, t_r], env=env, timeout=1500)
    vlib.run_bin("h_stats", ["bh", f_b, t_b], env=env, timeout=600)
    nlop, nlong = (400, 400) if thorough else (40, 60)
    vlib.run_bin("h_stats", ["random", t_x, nlop, nlong], env=env, timeout=900)
    rlines, blines, xlines = read_lines(t_r), read_lines(t_b), read_lines(t_x)
    # only the sample records are parsed here (for the ordering check); everything else goes to TLC as text
    seqs = [json.loads(ln) for ln in rlines if '"op":"seq"' in ln and "signedzero" not in ln]
    seqs = [{"op": "seq", "x": r["x"], "pp": r["pp"][:1]} for r in seqs]
    exp = exp_index(rcases)
    mk, pt = ord_records(seqs, exp)
    # long block-structured series: sorted by the reported p (descending; equal p by a hint of the statistic, which the judge
    # re-derives and verifies itself)
    mkb = [json.loads(ln) for ln in xlines if '"op":"mkb"' in ln]
    xlines = [ln for ln in xlines if '"op":"mkb"' not in ln]
    mkb.sort(key=lambda r: (-r["p"][0], -r["p"][1], mkb_hint(r["blocks"])))
    nchunks = 10 if thorough else 6
    rej = par_map([
        ("ranks", lambda: judge_chunks(run, wd, rlines, "ranks", nchunks)),
        ("rest", lambda: judge_chunks(run, wd, blines + xlines, "bhrand", 2)),
        ("ord", lambda: judge_chunks(run, wd, dumps(mk + pt), "ord", 2 if not thorough else 4, overlap=1)),
        ("mkb", lambda: judge_chunks(run, wd, dumps(mkb), "mkb", 1 if not thorough else 3, overlap=1)),
    ])
    total = len(rlines) + len(blines) + len(xlines) + len(mk) + len(pt) + len(mkb)
    run.cov["long_block_series"] = {"records": len(mkb), "longer_than_1290_points": sum(1 for r in mkb if r["n"] > 1290),
                                    "p_strictly_between_floor_and_one": sum(1 for r in mkb if [0, 1000] < r["p"] < [1000000000, 0])}
    run.cov["traces_validated_against_impl"] += total
    run.cov["evaluations"] += total
    per_key = {}
    for part in ("ranks", "rest", "ord", "mkb"):
        for line, rec in rej[part]:
            key = "stats:" + classify(rec, exp)
            per_key[key] = per_key.get(key, 0) + 1
            if per_key[key] > 5:        # a few replay files per failing quantity are enough
                continue
            run.violation(key, "record rejected by RankStats (%s line %d): %s" % (part, line, json.dumps(rec)[:400]),
                          {"part": part, "record": rec, "expected_by_generator": exp.get(json.dumps(rec.get("x")))})
    run.cov["rejected_records_by_key"] = per_key
    # vacuity: the interesting regions were reached
    tied = sum(1 for r in seqs if len(set(r["x"])) < len(r["x"]))
    run.cov["weak_orders_with_ties"] = tied
    run.cov["mk_no_evidence_cases"] = sum(1 for r in seqs if r["pp"][0][2:4] == [1000000000, 0])
    run.cov["signed_zero_probe_records"] = sum(1 for ln in rlines if "signedzero" in ln)
    run.cov["bh_cases_family_larger_than_tested"] = sum(1 for c in bcases if c["m"] > len(c["p"]))
    run.cov["bh_cases_expected_panic"] = sum(1 for c in bcases if c["m"] < len(c["p"]))
    run.cov["distinct_ord_p_values"] = {"mk": len({tuple(r["p"]) for r in mk}), "pettitt": len({tuple(r["p"]) for r in pt})}
    run.sample({"stimulus_with_expected": rcases[len(rcases) // 2]})
    run.sample(json.loads(next(ln for ln in reversed(rlines) if '"op":"split"' in ln and "signedzero" not in ln)))
    run.sample(json.loads(blines[len(blines) // 2]))
    run.cov["distinct_nontrivial"] = len(rcases) + nsplits + len(bcases)
    run.cov["rule"] = ("distinct = TLC-enumerated inputs: %d weak orders of 0..%d points (each under 6 strictly increasing embeddings incl. "
                       "1e300-scale, subnormal, negative, 1e15-offset, and 3 affine maps for Theil-Sen/median) + %d (weak order, split) "
                       "pairs (each also swapped) + %d Benjamini-Hochberg (family, q, family size) cases; plus %d seeded lopsided splits of "
                       "tied series (<=24 points, exact path), %d long series (range of every p only) and Student-t grids; beyond the bound also: "
                       "%d samples of 8..13 noisy points (Theil-Sen, median, Mann-Kendall S exactly), %d block-structured series of 300..4000 "
                       "points (Mann-Kendall S exactly, p ordered by the exact (|S|-1)^2/Var in multi-limb arithmetic), and the permutation "
                       "component of the selection-adjusted p for every sample of <= 5 points and a sample of those of 6"
                       % (len(rcases), maxn, nsplits, len(bcases), nlop, nlong, 2 * nlop, len(mkb)))
    run.cov["exhaustive"] = True
    run.assume("IEEE-754 double arithmetic of the host; integers are compared exactly, reals within 1e-12 relative of the exact rational")
    run.assume("NOT decided: accuracy of the normal tail (Mann-Kendall, Mann-Whitney beyond C(n,k) >= 2^53), of Student t and of Pettitt's "
               "exponential; for these only: range [1e-15, 1], exact 'no evidence' = 1, and that p is a strictly decreasing function of "
               "the exact statistic (Mann-Kendall z^2, Pettitt K^2/(n^3+n^2)) over the enumerated inputs")
    run.assume("exhaustive bound is n <= %d points (the property names 10); larger inputs are sampled" % maxn)


def selftest():
    wd = workdir(PID, "selftest", clean=True)
    vlib.cargo_build(["h_stats"])
    cases = [{"x": [2, 1, 1, 3]}, {"x": [1, 2, 3, 4, 5]}, {"x": [3, 3, 1, 2, 2, 1]}]
    f = os.path.join(wd, "c.ndjson")
    write_ndjson(f, cases)
    t = os.path.join(wd, "t.ndjson")
    vlib.run_bin("h_stats", ["ranks", f, t])
    recs = [r for r in read_ndjson(t) if r.get("tag") != "signedzero"]     # the probe is a known finding, not a baseline
    write_ndjson(t, recs)
    cfg = os.path.join(wd, "tr.cfg")
    open(cfg, "w").write(TRACE_CFG)
    ok, rej, _ = validate_trace(D, "Trace_RankStats", t, cfg=cfg)
    assert ok, rej
    fails = 0

    def expect(name, rr, nrej=1):
        nonlocal fails
        p = os.path.join(wd, name + ".ndjson")
        write_ndjson(p, rr)
        ok, rej, _ = validate_trace(D, "Trace_RankStats", p, cfg=cfg)
        good = len(rej) >= nrej
        print("selftest %-34s %s" % (name, "rejected (good)" if good else "ACCEPTED (BAD)"))
        fails += 0 if good else 1
    cp = lambda: json.loads(json.dumps(recs))
    i_split = next(k for k, r in enumerate(recs) if r.get("op") == "split")
    i_seq = next(k for k, r in enumerate(recs) if r.get("op") == "seq")
    a = cp(); a[i_split]["r"][0][1] += 1; expect("p-numerator+1", a)
    a = cp(); a[i_split]["r"][2][2] = 5; expect("p-residual-5e-12-relative", a)
    a = cp(); a[i_split]["r"][3][3] += 1; expect("superiority-in-one-embedding", a)
    a = cp(); a[i_split]["r"][0][7] += 1; expect("swapped-superiority", a)
    a = cp(); a[i_seq]["rank"][0][3] += 2; expect("mann-kendall-s", a)
    a = cp(); a[i_seq]["rank"][0][1] += 1; expect("pettitt-index", a)
    a = cp(); a[i_seq]["aff"][2][3] += 1; expect("theil-sen-slope", a)
    a = cp(); a[i_seq]["pp"][1][3] += 1000000; expect("p-differs-between-embeddings", a)
    a = cp(); a[i_seq]["pp"] = [[r[0], r[1], 0, 999, r[4], r[5], r[6], r[7]] for r in a[i_seq]["pp"]]; expect("p-below-1e-15", a)
    # ordering oracle: swap two records with different statistics
    mk, pt = ord_records(recs, {})
    expect("ord-swapped", [mk[1], mk[0]] + mk[2:])
    # permutation component of the selection-adjusted p (perm rows of samples of <= 5 points)
    i_perm = next(k for k, r in enumerate(recs) if r.get("op") == "seq" and r.get("perm") and r["perm"][0][3] == 0)
    a = cp(); a[i_perm]["perm"][0][1] -= 1; expect("permutation-component-one-ordering-less", a)
    # records beyond the exhaustive bound: Theil-Sen on 8..13 points, Mann-Kendall on long block-structured series
    t2 = os.path.join(wd, "t2.ndjson")
    vlib.run_bin("h_stats", ["random", t2, 3, 12], env={"VERIF_SEED": 11})
    xr = read_ndjson(t2)
    ts = [r for r in xr if r.get("op") == "ts"]
    mkb = sorted([r for r in xr if r.get("op") == "mkb"], key=lambda r: (-r["p"][0], -r["p"][1], mkb_hint(r["blocks"])))
    p0 = os.path.join(wd, "beyond.ndjson")
    write_ndjson(p0, ts + mkb)
    ok, rej, _ = validate_trace(D, "Trace_RankStats", p0, cfg=cfg)
    assert ok, rej
    a = json.loads(json.dumps(ts)); a[0]["aff"][0][3] += 1; expect("theil-sen-slope-8-to-13-points", a)
    a = json.loads(json.dumps(mkb)); a[1]["s"] += 2; expect("mann-kendall-s-long-series", a)
    mid = [k for k, r in enumerate(mkb[:-1]) if [0, 1000] < r["p"] < [1000000000, 0] and mkb_hint(r["blocks"]) != mkb_hint(mkb[k + 1]["blocks"])
           and [0, 1000] < mkb[k + 1]["p"]]
    a = json.loads(json.dumps(mkb)); k = mid[0]; a[k]["blocks"], a[k + 1]["blocks"] = a[k + 1]["blocks"], a[k]["blocks"]
    a[k]["s"], a[k + 1]["s"] = a[k + 1]["s"], a[k]["s"]; expect("mann-kendall-p-not-ordered-by-exact-statistic", a)
    b = [{"op": "bh", "p": [[1, 16], [1, 2]], "q": [1, 4], "m": 2, "panic": 0, "keep": [1, 1]}]
    expect("bh-keeps-too-much", b)
    b = [{"op": "bh", "p": [[1, 8]], "q": [1, 4], "m": 4, "panic": 0, "keep": [1]}]      # 1/8 > (1/4) * (1/4)
    expect("bh-ignores-family-size", b)
    return 1 if fails else 0


def replay(path):
    rep = json.load(open(path))
    print(json.dumps({k: rep[k] for k in ("property", "key", "what")}, indent=1))
    rec = rep["replay"].get("record")
    wd = workdir(PID, "replay_run", clean=True)
    t = os.path.join(wd, "t.ndjson")
    write_ndjson(t, [rec])
    cfg = os.path.join(wd, "tr.cfg")
    open(cfg, "w").write(TRACE_CFG)
    ok, rej, _ = validate_trace(D, "Trace_RankStats", t, cfg=cfg)
    print("judge: %s" % ("accepted" if ok else "REJECTED"))
    print(json.dumps(rep["replay"].get("expected_by_generator")))
    return 0 if ok else 1
