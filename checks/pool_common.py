"""Shared machinery of C01 (stable, exclusive, aligned addresses) and C02 (destroyed exactly once; accounting).

  spec/pool/SlabPool.tla     explorer (RawOpaquePool + Slab + VacancyTracker + VacancyMap blocks + blind layer)
  spec/pool/PoolAbs.tla      judge C01          spec/pool/Handles.tla      judge C02 (on top of PoolAbs)
  spec/pool/SlabInv.tla      invariants of the bookkeeping, shared by explorer and trace judges
  spec/pool/SlabLayout.tla   slot geometry      spec/pool/VacancyMap.tla   bitmap on its own
  harness/h_pool             nine pool types behind one adapter; replays stimuli, seeded random histories

Stimuli: TLC prints every transition of the explorer's reachable graph (ACTION_CONSTRAINT EdgeOut); this module covers
all of them with walks from the initial state (edge cover), turns the walks into harness operations and remembers the
explorer's predicted bookkeeping after every step, so that fidelity (drift) is measured on the probed real state.
"""
import collections, hashlib, json, os, shutil, subprocess, threading, time
import vlib
from vlib import SPEC, WORK, workdir, tlc, tlc_prints, log, read_ndjson, write_ndjson

D = os.path.join(SPEC, "pool")
POOL_TYPES = ["RawOpaquePool", "OpaquePool", "LocalOpaquePool", "RawPinnedPool", "PinnedPool", "LocalPinnedPool",
              "RawBlindPool", "BlindPool", "LocalBlindPool"]
RAW = [p for p in POOL_TYPES if p.startswith("Raw")]
OWNING = [p for p in POOL_TYPES if not p.startswith("Raw")]
BLIND = [p for p in POOL_TYPES if "Blind" in p]
TWO_CLASS = [p for p in POOL_TYPES if "Pinned" not in p]      # accept class 2 (another type, same layout)
LAYOUTS = ["s8a8", "s1a1", "s3a1", "s24a8", "s4096a4096", "big", "s2a2", "s4a4", "s8a4", "s16a16", "s48a16", "s32a32",
           "s64a64", "s128a128", "s256a256", "s512a512", "s1024a1024", "s2048a2048"]
SMALL_LAYOUTS = [x for x in LAYOUTS if x not in ("big", "s4096a4096")]

SLAB_INVARIANTS = ("TypeOK NeverCreatedIsEmpty FreeListOK CountsOK LengthOK BitmapShapeOK VacancySound VacancyComplete "
                   "NextVacLeast LeftoverOnes CapacityOK InsertTargetVacant LengthIsLive")
HANDLES_INVARIANTS = ("HTypeOK Exclusive DestroyedAtMostOnce ExtractedNeverDestroyed LiveNotDestroyed ExactlyOnce "
                      "NoHandleToDestroyed OwnershipOK RemoverCountOK RawPoolDropOK PolicyOK QuiescentOK")


# ------------------------------------------------------------------------------------------ TLC on the specs

def slab_cfg(path, cap, block, slabs, reserve, keys="OneKey", props="StableExclusive CapacityContract", gen=False,
             invariants=SLAB_INVARIANTS):
    with open(path, "w") as f:
        f.write("CONSTANTS Cap = %d  Block = %d  MaxSlabs = %d  MaxReserve = %d  Keys <- %s\n" % (cap, block, slabs, reserve, keys))
        f.write("SPECIFICATION Spec\nVIEW View\nCHECK_DEADLOCK FALSE\n")
        if gen:
            f.write("ACTION_CONSTRAINT EdgeOut\n")
        else:
            f.write("INVARIANTS %s\n" % invariants)
            if props:
                f.write("PROPERTIES %s\n" % props)
    return path


def handles_cfg(path, objs, handles, fams="FamsAll", gen=False):
    with open(path, "w") as f:
        f.write("CONSTANTS MaxObjs = %d  MaxHandles = %d  Fams <- %s  Objs <- ObjsDef  Addrs <- AddrsDef  Vals <- ValsDef\n"
                % (objs, handles, fams))
        f.write("SPECIFICATION HSpec\nVIEW HView\nCHECK_DEADLOCK FALSE\n")
        if gen:
            f.write("ACTION_CONSTRAINT HEdgeOut\n")
        else:
            f.write("INVARIANTS %s\nPROPERTIES PanicIffNonEmpty\n" % HANDLES_INVARIANTS)
    return path


JOPT = {"JAVA_TOOL_OPTIONS": "-XX:ParallelGCThreads=2 -XX:CICompilerCount=2"}     # many small JVMs: keep each one lean
_SLOTS = threading.Semaphore(3)


class Jobs:
    """Runs TLC jobs concurrently (each is its own JVM, at most three at a time over all Jobs objects); results are
    collected in submission order."""

    def __init__(self):
        self.items = []

    def add(self, name, fn):
        box = {}

        def work():
            with _SLOTS:
                try:
                    box["r"] = fn()
                except Exception as e:      # noqa: BLE001 - reported by join()
                    box["e"] = e
        t = threading.Thread(target=work)
        t.start()
        self.items.append((name, t, box))

    def join(self):
        out = []
        for name, t, box in self.items:
            t.join()
            if "e" in box:
                raise box["e"]
            out.append((name, box["r"]))
        self.items = []
        return out


def must_hold(run, name, r, count_states=True):
    """A TLC run on a specification: any counterexample here is a modelling question first (CONVENTIONS: a TLC
    counterexample the real code does not reproduce is a tool error)."""
    run.add_tlc(name, r, count_states=count_states)
    if r.error:
        raise vlib.ToolError("%s: %s" % (name, r.error))
    return r


# ------------------------------------------------------------------------------------------ edges -> walks

def parse_edges(out):
    edges = []
    for s in tlc_prints(out, "EDGE"):
        e = json.loads(s)
        edges.append((json.dumps(e["f"], sort_keys=True), e["op"], json.dumps(e["t"], sort_keys=True)))
    return edges


def cover_walks(edges, init_key, max_len, mode="edges"):
    """Covers every edge (mode "edges") or every state (mode "nodes") with walks that start in the initial state
    (greedy: take an uncovered edge if the current node has one, else go to the nearest node that has one; a walk ends
    after max_len steps). In "nodes" mode an edge counts as uncovered while its target state has not been visited."""
    out = collections.defaultdict(list)
    for i, (f, _, _) in enumerate(edges):
        out[f].append(i)
    if mode == "nodes":
        # keep, per unvisited state, one incoming edge as "the" edge to cover
        seen = {init_key}
        keep = []
        order = collections.deque([init_key])
        while order:
            n = order.popleft()
            for ei in out[n]:
                t = edges[ei][2]
                if t not in seen:
                    seen.add(t)
                    keep.append(ei)
                    order.append(t)
        covered = [True] * len(edges)
        for ei in keep:
            covered[ei] = False
    else:
        covered = [False] * len(edges)
    pending = collections.Counter()          # node -> number of uncovered out-edges
    for i, (f, _, _) in enumerate(edges):
        if not covered[i]:
            pending[f] += 1
    left = sum(pending.values())
    walks = []

    def nearest(src):
        if pending[src] > 0:
            return []
        prev = {src: None}
        q = collections.deque([src])
        while q:
            n = q.popleft()
            for ei in out[n]:
                t = edges[ei][2]
                if t in prev:
                    continue
                prev[t] = (n, ei)
                if pending[t] > 0:
                    path = []
                    while prev[t] is not None:
                        n2, e2 = prev[t]
                        path.append(e2)
                        t = n2
                    return path[::-1]
                q.append(t)
        return None

    while left > 0:
        walk = []
        cur = init_key
        while left > 0 and len(walk) < max_len:
            path = nearest(cur)
            if path is None:
                break
            if len(walk) + len(path) + 1 > max_len and walk:
                break
            for ei in path:
                walk.append(ei)
                cur = edges[ei][2]
            ei = next(i for i in out[cur] if not covered[i])
            covered[ei] = True
            pending[cur] -= 1
            left -= 1
            walk.append(ei)
            cur = edges[ei][2]
        if not walk:
            raise vlib.ToolError("edge cover: %d transitions are unreachable from the initial state" % left)
        walks.append(walk)
    return walks


# ------------------------------------------------------------------------------------------ walks -> stimuli

def slab_walk_to_stim(edges, walk, sid, pt, lay, cap, deco=0, quiet_every=0):
    """SlabPool walk -> harness operations; returns (stimulus, predicted pools after each operation)."""
    two = pt in TWO_CLASS
    slot_obj = {}
    nobj = 0
    ops, exp = [], []
    for n, ei in enumerate(walk):
        _, op, t = edges[ei]
        k = op["k"]
        # layout key 1 -> class 0 (or class 2: another Rust type with the same layout), key 2 -> class 1
        cls = 1 if k == 2 else (2 if (two and (n + len(sid)) % 3 == 2) else 0)
        name = op["op"]
        if name in ("insert", "insert_with"):
            nobj += 1
            slot_obj[(k, op["s"], op["i"])] = nobj
            o = ["insert", cls] if name == "insert" else ["insert_with", cls, 0]
        elif name == "insert_with_panic":
            o = ["insert_with", cls, 1]
        elif name in ("remove", "remove_unpin"):
            obj = slot_obj.pop((k, op["s"], op["i"]))
            o = ["destroy", obj] if name == "remove" else ["take", obj]
        elif name == "reserve":
            o = ["reserve", cls, op["n"]]
        elif name == "shrink_to_fit":
            o = ["shrink"]
        else:
            raise vlib.ToolError("unknown explorer operation %r" % name)
        if quiet_every and n % quiet_every:
            o.append("q")
        ops.append(o)
        exp.append({"pools": json.loads(t), "op": op})
    stim = {"id": sid, "pt": pt, "lay": lay, "cap": cap, "policy": "may", "deco": deco, "ops": ops}
    return stim, exp


def handles_walk_to_stim(edges, walk, sid, pt, lay, cap):
    """Handles walk -> harness operations (handle ids are assigned by the harness in creation order, so this keeps a
    shadow table of the handles and picks one with the view the model operation names)."""
    fam = json.loads(edges[walk[0]][0])["fam"]
    hs = {}       # hid -> [obj, view]
    nh = 0
    nobj = 0
    ops = []

    def pick(o, w):
        c = sorted(h for h, (ob, v) in hs.items() if ob == o and v == w)
        if not c:
            raise vlib.ToolError("handles walk: no handle of object %s with view %s" % (o, w))
        return c[(len(ops) * 7 + o) % len(c)]

    for ei in walk:
        _, op, _ = edges[ei]
        name, o, w = op["op"], op["o"], op["w"]
        if name in ("insert", "insert_with"):
            nobj += 1
            nh += 1
            hs[nh] = [nobj, "t"]
            ops.append(["insert", 0] if name == "insert" else ["insert_with", 0, 0])
        elif name == "insert_with_panic":
            ops.append(["insert_with", 0, 1])
        elif name == "share":
            ops.append(["share", pick(o, w)])
        elif name == "clone":
            h = pick(o, w)
            nh += 1
            hs[nh] = [o, w]
            ops.append(["clone", h])
        elif name == "erase":
            h = pick(o, w)
            hs[h][1] = "e"
            ops.append(["erase", h])
        elif name == "cast":
            h = pick(o, "t")
            hs[h][1] = "d"
            ops.append(["cast", h])
        elif name == "drop":
            h = pick(o, w)
            ops.append(["drop", h])
            t = json.loads(edges[ei][2])
            if o not in t["live"]:
                hs = {x: v for x, v in hs.items() if v[0] != o}
            else:
                del hs[h]
        elif name == "remove":
            ops.append(["remove", pick(o, w)])
            hs = {x: v for x, v in hs.items() if v[0] != o}
        elif name == "takeh":
            ops.append(["takeh", pick(o, "t")])
            hs = {x: v for x, v in hs.items() if v[0] != o}
        elif name == "drop_pool":
            ops.append(["drop_pool"])
            if not fam["own"]:
                hs = {}
        else:
            raise vlib.ToolError("unknown handles operation %r" % name)
    return {"id": sid, "pt": pt, "lay": lay, "cap": cap, "policy": "must" if fam["must"] else "may", "deco": 0,
            "ops": ops}, fam


def boundary64_stim(sid, pt, lay="s8a8"):
    """Capacity override 2, > 130 slabs: crosses the REAL 64-bit block boundary of the vacancy bitmap several times
    (growth by insert and by reserve, clearing / restoring bits on both sides, shrink back over it, regrow)."""
    ops = []
    q = "q"
    live = []
    nobj = [0]

    def ins(n, quiet=True):
        for _ in range(n):
            nobj[0] += 1
            live.append(nobj[0])
            ops.append(["insert", 0, q] if quiet else ["insert", 0])

    def rem(o, quiet=True, take=False):
        live.remove(o)
        ops.append(([("take" if take else "destroy"), o, q]) if quiet else [("take" if take else "destroy"), o])

    ins(124)                # 62 slabs
    ins(10, quiet=False)    # slabs 63..67: crosses bit 63 -> 64 with full observation
    ops.append(["reserve", 0, 3])
    ops.append(["reserve", 0, 130])          # resize across the block boundary by reserve (67 -> 132 slabs)
    ins(126)
    ins(6, quiet=False)     # 266 objects = 133 slabs: crosses 128 as well
    # free slots around the boundary: slabs 62, 63, 64, 65 (0-based) = objects 125..132
    for o in (125, 127, 128, 129, 131, 132):
        rem(o, quiet=False, take=(o % 2 == 0))
    ins(3, quiet=False)     # refilled lowest-first across the boundary
    rem(1, quiet=False)
    ins(4, quiet=False)
    # empty everything above slab 60 and shrink back over the boundary
    for o in sorted(x for x in live if x > 120):
        rem(o)
    ops.append(["shrink"])
    ops.append(["reserve", 0, 1])
    ins(12, quiet=False)    # grows over the boundary again, one slab at a time
    ops.append(["insert_with", 0, 1])
    for o in sorted(live)[::2]:
        rem(o)
    ops.append(["shrink"])
    ins(4, quiet=False)
    ops.append(["drop_pool"])
    return {"id": sid, "pt": pt, "lay": lay, "cap": 2, "policy": "may", "deco": 0, "ops": ops}


def layout_sweep_stims(tier):
    """Every payload layout (size 1 .. > 1 MiB, alignment 1 .. 4096) on rotating pool types and slab capacities."""
    out = []
    n = 0
    for li, lay in enumerate(LAYOUTS):
        pts = POOL_TYPES if tier == "thorough" else [POOL_TYPES[(li * 4 + j * 3) % 9] for j in range(3)]
        for pi, pt in enumerate(pts):
            cap = [2, 3, 0][(li + pi) % 3]
            cap_eff = cap or 3
            k1 = 1 if pt in BLIND else 0
            k2 = 2 if pt in TWO_CLASS else 0
            ops = [["insert", 0] for _ in range(cap_eff + 1)]
            ops += [["cast", 1], ["share", 2], ["clone", 2], ["erase", 3], ["insert", k1], ["insert_with", k2, 0],
                    ["insert_with", 0, 1], ["share", 1], ["erase", 1], ["destroy", 2], ["reserve", 0, 2 * cap_eff],
                    ["insert", 0], ["take", 4], ["shrink"], ["insert", k2], ["destroy", 1], ["shrink"], ["drop_pool"],
                    ["destroy", 3]]
            n += 1
            out.append({"id": "lay-%s-%d" % (lay, n), "pt": pt, "lay": lay, "cap": cap, "policy": "may",
                        "deco": 0, "ops": ops})
    return out


# ------------------------------------------------------------------------------------------ generation + harness

def gen_edges(module, cfg_writer, name, wd, timeout=900):
    cfg = os.path.join(wd, name + ".cfg")
    cfg_writer(cfg)
    r = tlc(D, module, cfg=cfg, workers=2, timeout=timeout, xmx="4g", env=JOPT)
    if r.error or r.violation:
        raise vlib.ToolError("generator %s failed: %s %s\n%s" % (name, r.error, r.violation, r.out[-2000:]))
    return parse_edges(r.out), r


def bin_identity():
    h = hashlib.sha1()
    with open(vlib.harness_bin("h_pool"), "rb") as f:
        for chunk in iter(lambda: f.read(1 << 20), b""):
            h.update(chunk)
    return h.hexdigest()[:16]


def source_identity():
    """Hash of everything the stimuli depend on besides the harness binary: this module and the pool specifications."""
    h = hashlib.sha1()
    files = [os.path.abspath(__file__)] + sorted(os.path.join(D, f) for f in os.listdir(D) if f.endswith((".tla", ".cfg")))
    for p in files:
        with open(p, "rb") as f:
            h.update(f.read())
    return h.hexdigest()[:12]


class Bundle:
    """Everything one run of C01/C02 produced before judging: explorer-generated stimuli, their predictions, traces."""

    def __init__(self):
        self.stims = []
        self.expect = {}          # stimulus id -> list of predictions (SlabPool walks only)
        self.gen_stats = {}
        self.traces = []          # [(name, path)]
        self.edges_total = 0
        self.walks_total = 0


def build_stimuli(run, wd):
    """TLC generators -> walks -> stimuli. Returns a Bundle (without traces)."""
    tier = run.tier
    b = Bundle()
    thorough = tier == "thorough"
    jobs = Jobs()
    # (name, cap, block, slabs, reserve, keys, cover mode)
    slab_gens = [("g1", 2, 2, 3, 3, "OneKey", "edges"), ("g2", 3, 2, 2, 3, "OneKey", "edges"),
                 ("g3", 2, 2, 2, 2, "TwoKeys", "nodes"), ("g4", 2, 2, 4, 2, "OneKey", "nodes")]
    if thorough:
        slab_gens = [("g1", 2, 2, 4, 3, "OneKey", "edges"), ("g2", 3, 2, 3, 3, "OneKey", "edges"),
                     ("g3", 2, 2, 2, 2, "TwoKeys", "edges"), ("g4", 2, 4, 6, 2, "OneKey", "nodes")]
    hmode = "edges" if thorough else "nodes"
    for (name, cap, block, slabs, reserve, keys, _mode) in slab_gens:
        jobs.add(name, lambda n=name, c=cap, bl=block, s=slabs, rv=reserve, k=keys: gen_edges(
            "MC_SlabPool", lambda p: slab_cfg(p, c, bl, s, rv, keys=k, gen=True), n, wd))
    hobjs, hh = (2, 3) if thorough else (2, 2)
    jobs.add("h1", lambda: gen_edges("MC_Handles", lambda p: handles_cfg(p, hobjs, hh, gen=True), "h1", wd))
    results = dict(jobs.join())
    wcount = 0
    for (name, cap, block, slabs, reserve, keys, mode) in slab_gens:
        edges, r = results[name]
        run.add_tlc("generator SlabPool %s (Cap=%d Block=%d MaxSlabs=%d MaxReserve=%d %s)" % (name, cap, block, slabs, reserve, keys),
                    r, count_states=False)
        init = json.dumps([{"exists": False, "slabs": [], "length": 0, "blocks": [], "lenBits": 0, "nextVac": 0}]
                          * (2 if keys == "TwoKeys" else 1), sort_keys=True)
        walks = cover_walks(edges, init, 220, mode)
        ncov = len(edges) if mode == "edges" else len({e[2] for e in edges} | {init})
        b.edges_total += ncov
        b.walks_total += len(walks)
        b.gen_stats[name] = {"graph_edges": len(edges), "graph_states": r.distinct, "cover": mode, "covered": ncov,
                             "walks": len(walks), "ops": sum(len(w) for w in walks)}
        types = BLIND if keys == "TwoKeys" else POOL_TYPES
        for wi, w in enumerate(walks):
            if thorough and name in ("g2", "g3"):
                pts = types                      # every walk on every applicable pool type
            else:
                pts = [types[(wi + wcount) % len(types)]]
            for pt in pts:
                lay = "s8a8" if (wi % 3) else SMALL_LAYOUTS[(wi // 3) % len(SMALL_LAYOUTS)]
                deco = 0 if (wi % 4) else 1000 + wi
                sid = "%s-%d-%s" % (name, wi, pt)
                st, exp = slab_walk_to_stim(edges, w, sid, pt, lay, cap, deco=deco)
                b.stims.append(st)
                b.expect[sid] = exp
        wcount += len(walks)
    edges, r = results["h1"]
    run.add_tlc("generator Handles (MaxObjs=%d MaxHandles=%d, all families)" % (hobjs, hh), r, count_states=False)
    by_fam = collections.defaultdict(list)
    for e in edges:
        f = json.loads(e[0])["fam"]
        by_fam[(f["own"], f["must"])].append(e)
    for (own, must), es in sorted(by_fam.items()):
        inits = [e[0] for e in es if json.loads(e[0])["no"] == 1 and not json.loads(e[0])["dc"] and json.loads(e[0])["alive"]]
        init = inits[0]
        walks = cover_walks(es, init, 120, hmode)
        ncov = len(es) if hmode == "edges" else len({e[2] for e in es} | {init})
        b.edges_total += ncov
        b.walks_total += len(walks)
        b.gen_stats["h1-own%d-must%d" % (own, must)] = {"graph_edges": len(es), "cover": hmode, "covered": ncov,
                                                        "walks": len(walks), "ops": sum(len(w) for w in walks)}
        types = OWNING if own else RAW
        for wi, w in enumerate(walks):
            pts = [types[wi % len(types)]]
            for pt in pts:
                lay = "s8a8" if (wi % 2) else SMALL_LAYOUTS[wi % len(SMALL_LAYOUTS)]
                st, _ = handles_walk_to_stim(es, w, "h1-%d%d-%d-%s" % (own, must, wi, pt), pt, lay, 2)
                b.stims.append(st)
    # real 64-bit block boundary
    bpts = POOL_TYPES if thorough else ["RawOpaquePool", "PinnedPool", "LocalBlindPool"]
    for pt in bpts:
        b.stims.append(boundary64_stim("b64-" + pt, pt))
    b.stims += layout_sweep_stims(tier)
    return b


def produce(run):
    """Build stimuli, run the harness (replay + seeded random). Cached per (tier, seed, harness binary) so that C01 and C02
    judge the same recording without paying for it twice; the cache never outlives a change of the binary.
    C01 and C02 may be started at the same time: the whole step runs under an exclusive file lock (the second one waits
    and then reuses the first one's recording)."""
    import fcntl
    os.makedirs(WORK, exist_ok=True)
    with open(os.path.join(WORK, "pool_cache.lock"), "w") as lk:
        fcntl.flock(lk, fcntl.LOCK_EX)
        try:
            return _produce(run)
        finally:
            fcntl.flock(lk, fcntl.LOCK_UN)


def _produce(run):
    vlib.cargo_build(["h_pool"])
    ident = "%s-%s-%s-%s" % (run.tier, run.seed, bin_identity(), source_identity())
    cdir = os.path.join(WORK, "pool_cache", ident)
    meta_p = os.path.join(cdir, "bundle.json")
    b = Bundle()
    if os.path.exists(meta_p):
        m = json.load(open(meta_p))
        if all(os.path.exists(p) for _, p in m["traces"]) and time.time() - m["t"] < 6 * 3600:
            b.__dict__.update({k: m[k] for k in ("expect", "gen_stats", "traces", "edges_total", "walks_total")})
            b.stims = read_ndjson(os.path.join(cdir, "stimuli.ndjson"))
            for g in m["gen_tlc"]:
                run.cov["tlc_runs"].append(g)
            run.assume("stimuli and recordings reused from the sibling pool check of this tier/seed/harness binary (%s)" % ident)
            return b
    shutil.rmtree(os.path.join(WORK, "pool_cache"), ignore_errors=True)
    os.makedirs(cdir, exist_ok=True)
    n0 = len(run.cov["tlc_runs"])
    b = build_stimuli(run, cdir)
    sp = os.path.join(cdir, "stimuli.ndjson")
    write_ndjson(sp, b.stims)
    t1 = os.path.join(cdir, "replay.trace")
    t0 = time.time()
    vlib.run_bin("h_pool", ["replay", sp, t1], timeout=3000, env={"VERIF_SEED": run.seed})
    nh, nops = (1350, 110) if run.tier == "thorough" else (108, 60)
    t2 = os.path.join(cdir, "random.trace")
    vlib.run_bin("h_pool", ["random", t2, nh, nops], timeout=3000, env={"VERIF_SEED": run.seed})
    b.gen_stats["harness_wall_s"] = round(time.time() - t0, 1)
    b.gen_stats["random"] = {"histories": nh, "ops_per_history": nops}
    b.traces = [("replay", t1), ("random", t2)]
    json.dump({"t": time.time(), "expect": b.expect, "gen_stats": b.gen_stats, "traces": b.traces,
               "edges_total": b.edges_total, "walks_total": b.walks_total, "gen_tlc": run.cov["tlc_runs"][n0:]},
              open(meta_p, "w"))
    return b


# ------------------------------------------------------------------------------------------ judging

MALFORMED = ("malformed-intervals", "malformed-live-set", "malformed-judge-cannot-follow-the-history")


def split_trace(path, max_bytes=24 << 20):
    """Cuts a trace at `reset` records into pieces TLC can hold comfortably."""
    pieces, cur, size = [], [], 0
    n = 0
    with open(path) as f:
        for line in f:
            if line.startswith('{"') and '"ev":"reset"' in line and size > max_bytes:
                pieces.append(cur)
                cur, size = [], 0
            cur.append(line)
            size += len(line)
            n += 1
    if cur:
        pieces.append(cur)
    out = []
    for i, p in enumerate(pieces):
        pp = "%s.part%d" % (path, i)
        with open(pp, "w") as f:
            f.writelines(p)
        out.append(pp)
    return out, n


def judge(run, module, name, path, prefix):
    """Validates one trace file with a stateful trace judge. Returns number of records judged."""
    pieces, nrec = split_trace(path)
    jobs = Jobs()
    for pp in pieces:
        jobs.add(pp, lambda p=pp: tlc(D, module, cfg=module + ".cfg", workers=1, env=dict(JOPT, TRACE=p), timeout=3000,
                                      xmx="6g", xss="1g", deque=True,
                                      metadir=os.path.join(WORK, "_tlc", "%s_%s_%d" % (module, os.path.basename(p), os.getpid()))))
    for pp, r in jobs.join():
        run.add_tlc("%s %s %s" % (module, name, os.path.basename(pp)), r, count_states=False)
        if r.error or r.violation:
            raise vlib.ToolError("trace validation %s on %s failed: %s %s\n%s" % (module, pp, r.error, r.violation, r.out[-3000:]))
        if '<<"TRACE-DONE"' not in r.out:
            raise vlib.ToolError("trace validation %s did not consume %s\n%s" % (module, pp, r.out[-2000:]))
        recs = None
        for s in tlc_prints(r.out, "REJECT"):
            rj = json.loads(s)
            why = sorted(rj["why"])
            if any(w in MALFORMED for w in why):
                raise vlib.ToolError("recording / judge mismatch (not a verdict): %s" % json.dumps(rj))
            if recs is None:
                recs = read_ndjson(pp)
            line = rj["line"]
            # the history up to the rejected record
            start = line - 1
            while start > 0 and recs[start].get("ev") != "reset":
                start -= 1
            key = "%s:%s:%s" % (prefix, rj["op"], "+".join(why))
            what = "%s rejects record %d of history %s (%s %s cap=%s): %s after %s" % (
                module, rj["n"], rj["id"], rj["pt"], rj["lay"], rj["cap"], ", ".join(why), rj["op"])
            stim = next((s for s in read_ndjson(os.path.join(os.path.dirname(path), "stimuli.ndjson")) if s["id"] == rj["id"]), None) \
                if not str(rj["id"]).startswith("rnd-") else None
            run.violation(key, what, {"judge": module, "reject": rj, "stimulus": stim, "seed": run.seed,
                                      "random_history": rj["id"] if stim is None else None,
                                      "trace": recs[start:line]})
        os.remove(pp)
    run.cov["traces_validated_against_impl"] += nrec
    run.cov["evaluations"] += nrec
    return nrec


# ------------------------------------------------------------------------------------------ drift (fidelity of the explorer)

def measure_drift(b, trace_path):
    """Compares the bookkeeping probed from the real pools with the explorer's prediction for every replayed SlabPool step."""
    compared = drift = 0
    first = None
    cur = None
    for line in open(trace_path):
        r = json.loads(line)
        if r["ev"] == "reset":
            cur = r if r["id"] in b.expect else None
            continue
        if cur is None or r["ev"] != "op" or r.get("si", -1) < 0 or r.get("full") != 1 or r.get("pl") != 1:
            continue
        exp = b.expect[cur["id"]][r["si"]]
        pools = exp["pools"]
        ok = True
        for ki, ep in enumerate(pools):
            size_align = cur["cls"][0] if ki == 0 else cur["cls"][1]
            pr = [p for p in r["pr"] if p["g"][0] == size_align[0] and p["g"][1] == size_align[1]]
            if not ep["exists"]:
                ok = ok and not pr
                continue
            if len(pr) != 1 or pr[0]["g"][7] != 1:
                ok = False
                continue
            p = pr[0]
            nbits = ep["lenBits"]
            ebits = [bit for blk in ep["blocks"] for bit in blk][:nbits]
            eleft = all(bit for blk in ep["blocks"] for bit in blk) or all(
                [bit for blk in ep["blocks"] for bit in blk][nbits:])
            abits = [bool(x) for blk in p["blocks"] for x in blk]
            ok = ok and p["length"] == ep["length"] and p["lenBits"] == nbits and p["nextVac"] == ep["nextVac"] \
                and abits == ebits and bool(p["lo1"]) == bool(eleft) \
                and [[s[0], s[1], s[2]] for s in p["slabs"]] == [[s["count"], s["head"], s["meta"]] for s in ep["slabs"]]
        compared += 1
        if not ok:
            drift += 1
            if first is None:
                first = {"stimulus": cur["id"], "op_index": r["si"], "predicted": pools, "probed": r["pr"]}
    return compared, drift, first


# ------------------------------------------------------------------------------------------ self-test helpers

def corrupt_and_expect(module, base_trace, mutate, expect_why, wd, tag):
    """Applies `mutate(records)` to an accepted trace and checks that the judge rejects it for the expected reason."""
    recs = read_ndjson(base_trace)
    mutate(recs)
    p = os.path.join(wd, "corrupt_%s.trace" % tag)
    write_ndjson(p, recs)
    r = tlc(D, module, cfg=module + ".cfg", workers=1, env={"TRACE": p}, timeout=600, xmx="4g", xss="1g", deque=True)
    whys = [w for s in tlc_prints(r.out, "REJECT") for w in json.loads(s)["why"]]
    ok = expect_why in whys
    log("selftest %s/%s: expected %s, judge said %s -> %s" % (module, tag, expect_why, whys or "accepted", "ok" if ok else "FAIL"))
    return ok


def first_accepted_history(trace, want=lambda reset: True, min_ops=8):
    recs = read_ndjson(trace)
    out, cur = [], []
    for r in recs:
        if r["ev"] == "reset":
            if cur and want(cur[0]) and len(cur) > min_ops:
                return cur
            cur = [r]
        elif cur:
            cur.append(r)
    return cur
